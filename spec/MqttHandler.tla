------------------------------ MODULE MqttHandler ------------------------------
(* Growth specification: the MQTT data handler of ebusd (src/ebusd/mqtthandler.cpp, datahandler.cpp and the sink feed of   *)
(* MainLoop::run).  No listed property is about it: disagreements are reported as notes/drift, never as violations.        *)
(*                                                                                                                        *)
(* Part P - a monitor over observables only, written from the documentation that is in the repository: the option texts    *)
(*   of `ebusd --help` (mqtttopic "prefix before /%circuit/%name or complete format", mqttglobal "default is global/ suffix*)
(*   to mqtttopic prefix", mqttretain "retain all topics instead of only selected global ones", mqttqos "for all topics",   *)
(*   mqttjson[=short] "value directly below field key", mqttverbose, mqttchanges "only publish changed messages instead of  *)
(*   all received"), ChangeLog.md (/get, /set, /list topics, "*" as trailing wildcard of /list, poll priority with the get  *)
(*   topic, get on field level, subscription after reconnect, automatic reconnect, empty payload for messages without      *)
(*   data, circuit and name moved into the payload when the topic has no %name, write messages announced read-only when     *)
(*   writes are excluded), contrib/etc/ebusd/mqtt-integration.cfg (definition topics, variables, filters, `%field the field *)
(*   name and key for JSON objects`), mqtt-hassio.cfg (`value_json["%field"].value`), the interface comments of             *)
(*   datahandler.h / mqttclient.h.                                                                                          *)
(*   Observables: the events of a session (clock ticks, passive telegrams on the bus, client reads, incoming MQTT topics,   *)
(*   broker down/up, one iteration of the handler loop), and per event what the handler asked its MQTT client to publish     *)
(*   or subscribe, every telegram ebusd wrote (with the slave's answer), the poll priorities and the bus signal.  The       *)
(*   monitor's state is what a subscriber could know: the last value of each message seen on the bus, how many updates are  *)
(*   not yet published, the connection state the client reported, which definitions were announced.                         *)
(*   Clauses: P.1 topics (message, field, global, subscription filter), P.2 payloads (plain, JSON, short JSON; verbose,      *)
(*   field-level JSON and topic-less payloads only "contain" the values), P.2b definitions of the integration file, P.3     *)
(*   telegrams of /get and /set, P.4 the monitor: every publish goes to a documented topic with the payload of the last     *)
(*   value seen, qos = --mqttqos, retain as documented; nothing is published while the client reported "disconnected"; a     *)
(*   CONNACK is followed by running=true and a subscription covering every message's /get topic; each update (change with   *)
(*   --mqttchanges) is published exactly once (coalescing allowed) and none is pending after the session's drain unless the  *)
(*   connection was lost; /get on an active message = exactly its read telegram, then its publish; /get on a passive one =   *)
(*   its publish without telegram; /set on a write message with a valid value = exactly the write telegram that encodes it;  *)
(*   unknown names / invalid values / unknown directions = nothing; /list = every message in scope exactly once (empty       *)
(*   payload without data; only those with data when a payload is given); get?N sets poll priority N; the broker coming     *)
(*   back is followed by a reconnect within 16 s + 3 iterations; every message/field the filters admit is announced on its   *)
(*   definition topic once per restart with the documented payload and retain flag, every global item as well.              *)
(*   Open (never judged): the version text, when uptime/signal/scan are published, which global topics are retained          *)
(*   without --mqttretain except `running` (it is the last will), whether updates received while the broker is away are     *)
(*   published later, the payload layout of --mqttverbose and of field-level JSON beyond "contains the value", whether a     *)
(*   /set answer is published, list scopes and arguments for irregular topic templates, definitions of write messages        *)
(*   when writes are excluded or no data was seen.                                                                          *)
(* Part S - the handler as coded (one operator per event; state = m_connected, m_updatedMessages, m_definitionsSince,       *)
(*   lastTaskRun, allowReconnect, signal, the message store's update/change/create times and data-handler state, MainLoop's  *)
(*   sinkSince / lastTaskRun / reload, the fake client's state): predicts the exact outputs of every event (as a bag,       *)
(*   payloads modulo white space); a difference from the real code is DRIFT.  The constant FIX switches on corrections      *)
(*   (AllFixes) with which S satisfies P; spec/MC_MqttHandler.tla checks S(AllFixes) => P and that S({}) and S(AllFixes      *)
(*   minus any one) are rejected.                                                                                            *)
(* Part D - domain: spec/MqttDomain.tla (worlds = message family x option set, sessions).  Texts are sequences of character *)
(*   codes.  (TLC note: state variables of modules that EXTEND this one must not be named like a bound variable here.)      *)
EXTENDS Naturals, Integers, Sequences, FiniteSets, TLC
(* FIX: the set of corrections applied to part S ({} = the handler as coded; AllFixes = a handler that agrees with part P) *)
CONSTANT FIX

T_ca == <<99, 97>>
T_cb == <<99, 98>>
T_temp == <<116, 101, 109, 112>>
T_two == <<116, 119, 111>>
T_set == <<115, 101, 116>>
T_st == <<115, 116>>
T_mode == <<109, 111, 100, 101>>
T_pair == <<112, 97, 105, 114>>
T_nix == <<110, 105, 120>>
T_t == <<116>>
T_a == <<97>>
T_b == <<98>>
T_v == <<118>>
T_ub == <<117, 98>>
T_off == <<111, 102, 102>>
T_on == <<111, 110>>
T_UCH == <<85, 67, 72>>
T_vals == <<48, 61, 111, 102, 102, 59, 49, 61, 111, 110>>    \* 0=off;1=on
T_ebusd == <<101, 98, 117, 115, 100>>
T_globalS == <<103, 108, 111, 98, 97, 108, 47>>    \* global/
T_global == <<103, 108, 111, 98, 97, 108>>
T_running == <<114, 117, 110, 110, 105, 110, 103>>
T_version == <<118, 101, 114, 115, 105, 111, 110>>
T_signal == <<115, 105, 103, 110, 97, 108>>
T_uptime == <<117, 112, 116, 105, 109, 101>>
T_scan == <<115, 99, 97, 110>>
T_updatecheck == <<117, 112, 100, 97, 116, 101, 99, 104, 101, 99, 107>>
T_true == <<116, 114, 117, 101>>
T_false == <<102, 97, 108, 115, 101>>
T_get == <<103, 101, 116>>
T_list == <<108, 105, 115, 116>>
T_foo == <<102, 111, 111>>
T_circuit == <<99, 105, 114, 99, 117, 105, 116>>
T_name == <<110, 97, 109, 101>>
T_field == <<102, 105, 101, 108, 100>>
T_defTail == <<47, 37, 99, 105, 114, 99, 117, 105, 116, 47, 37, 110, 97, 109, 101>>    \* /%circuit/%name
T_q3 == <<63, 51>>    \* ?3
T_q0 == <<63, 48>>    \* ?0
T_star == <<42>>
T_x7 == <<55>>
T_x300 == <<51, 48, 48>>
T_xabc == <<97, 98, 99>>
T_x1 == <<49>>
T_finished == <<102, 105, 110, 105, 115, 104, 101, 100>>
T_OK == <<79, 75>>
T_oScan == <<45, 45, 115, 99, 97, 110, 99, 111, 110, 102, 105, 103, 61, 111, 102, 102>>    \* --scanconfig=off
T_oPort == <<45, 45, 109, 113, 116, 116, 112, 111, 114, 116, 61, 49, 56, 56, 51>>    \* --mqttport=1883
T_oTopic == <<45, 45, 109, 113, 116, 116, 116, 111, 112, 105, 99, 61>>    \* --mqtttopic=
T_oJson == <<45, 45, 109, 113, 116, 116, 106, 115, 111, 110>>    \* --mqttjson
T_oShort == <<45, 45, 109, 113, 116, 116, 106, 115, 111, 110, 61, 115, 104, 111, 114, 116>>    \* --mqttjson=short
T_oChg == <<45, 45, 109, 113, 116, 116, 99, 104, 97, 110, 103, 101, 115>>    \* --mqttchanges
T_oRet == <<45, 45, 109, 113, 116, 116, 114, 101, 116, 97, 105, 110>>    \* --mqttretain
T_oVerb == <<45, 45, 109, 113, 116, 116, 118, 101, 114, 98, 111, 115, 101>>    \* --mqttverbose
T_oQos == <<45, 45, 109, 113, 116, 116, 113, 111, 115, 61>>    \* --mqttqos=
T_oGlob == <<45, 45, 109, 113, 116, 116, 103, 108, 111, 98, 97, 108, 61>>    \* --mqttglobal=
T_oInt == <<45, 45, 109, 113, 116, 116, 105, 110, 116, 61, 109, 113, 116, 116, 105, 110, 116, 46, 99, 102, 103>>    \* --mqttint=mqttint.cfg
T_tpHp == <<104, 112>>    \* hp
T_tpFull == <<104, 112, 47, 37, 99, 105, 114, 99, 117, 105, 116, 47, 37, 110, 97, 109, 101>>    \* hp/%circuit/%name
T_tpField == <<104, 112, 47, 37, 99, 105, 114, 99, 117, 105, 116, 47, 37, 110, 97, 109, 101, 47, 37, 102, 105, 101, 108, 100>>    \* hp/%circuit/%name/%field
T_tpStatic == <<104, 112, 47, 100, 97, 116, 97, 35>>    \* hp/data#
T_tpOdd == <<104, 112, 47, 37, 123, 99, 105, 114, 99, 117, 105, 116, 125, 95, 37, 110, 97, 109, 101, 47, 120>>    \* hp/%{circuit}_%name/x
T_gl1 == <<103, 108, 47>>    \* gl/
T_gl2 == <<103, 108, 47, 37, 110, 97, 109, 101>>    \* gl/%name
T_jvalue == <<123, 34, 118, 97, 108, 117, 101, 34, 58>>    \* {"value":
T_jcircuit == <<34, 99, 105, 114, 99, 117, 105, 116, 34, 58>>    \* "circuit":
T_jname == <<34, 110, 97, 109, 101, 34, 58>>    \* "name":
T_config == <<99, 111, 110, 102, 105, 103>>
T_list5 == <<108, 105, 115, 116>>

(* the integration files of the worlds with --mqttint (variables as documented in contrib/etc/ebusd/mqtt-integration.cfg):            *)
(*  filter-seen = 0|1, filter-direction = r|u|w / r|u, type_map-number = number, type_map-list = string,                              *)
(*  definition-topic = %prefixn/config/%CIRCUIT/%NAME/%FIELD, definition-payload = %topic|%circuit|%name|%field|%type|%direction,     *)
(*  definition-retain = 1, def_global-topic = %prefixn/config/global/%FIELD, def_global-payload = %topic|%field,                      *)
(*  def_global-retain = 0, config_restart-topic = %prefixn/config/restart                                                             *)
T_int1 == <<102, 105, 108, 116, 101, 114, 45, 115, 101, 101, 110, 32, 61, 32, 48, 10, 102, 105, 108, 116, 101, 114, 45, 100, 105, 114, 101, 99, 116, 105, 111, 110, 32, 61, 32, 114, 124, 117, 124, 119, 10, 116, 121, 112, 101, 95, 109, 97, 112, 45, 110, 117, 109, 98, 101, 114, 32, 61, 32, 110, 117, 109, 98, 101, 114, 10, 116, 121, 112, 101, 95, 109, 97, 112, 45, 108, 105, 115, 116, 32, 61, 32, 115, 116, 114, 105, 110, 103, 10, 100, 101, 102, 105, 110, 105, 116, 105, 111, 110, 45, 116, 111, 112, 105, 99, 32, 61, 32, 37, 112, 114, 101, 102, 105, 120, 110, 47, 99, 111, 110, 102, 105, 103, 47, 37, 67, 73, 82, 67, 85, 73, 84, 47, 37, 78, 65, 77, 69, 47, 37, 70, 73, 69, 76, 68, 10, 100, 101, 102, 105, 110, 105, 116, 105, 111, 110, 45, 112, 97, 121, 108, 111, 97, 100, 32, 61, 32, 37, 116, 111, 112, 105, 99, 124, 37, 99, 105, 114, 99, 117, 105, 116, 124, 37, 110, 97, 109, 101, 124, 37, 102, 105, 101, 108, 100, 124, 37, 116, 121, 112, 101, 124, 37, 100, 105, 114, 101, 99, 116, 105, 111, 110, 10, 100, 101, 102, 105, 110, 105, 116, 105, 111, 110, 45, 114, 101, 116, 97, 105, 110, 32, 61, 32, 49, 10, 100, 101, 102, 95, 103, 108, 111, 98, 97, 108, 45, 116, 111, 112, 105, 99, 32, 61, 32, 37, 112, 114, 101, 102, 105, 120, 110, 47, 99, 111, 110, 102, 105, 103, 47, 103, 108, 111, 98, 97, 108, 47, 37, 70, 73, 69, 76, 68, 10, 100, 101, 102, 95, 103, 108, 111, 98, 97, 108, 45, 112, 97, 121, 108, 111, 97, 100, 32, 61, 32, 37, 116, 111, 112, 105, 99, 124, 37, 102, 105, 101, 108, 100, 10, 100, 101, 102, 95, 103, 108, 111, 98, 97, 108, 45, 114, 101, 116, 97, 105, 110, 32, 61, 32, 48, 10, 99, 111, 110, 102, 105, 103, 95, 114, 101, 115, 116, 97, 114, 116, 45, 116, 111, 112, 105, 99, 32, 61, 32, 37, 112, 114, 101, 102, 105, 120, 110, 47, 99, 111, 110, 102, 105, 103, 47, 114, 101, 115, 116, 97, 114, 116, 10>>
T_int2 == <<102, 105, 108, 116, 101, 114, 45, 115, 101, 101, 110, 32, 61, 32, 49, 10, 102, 105, 108, 116, 101, 114, 45, 100, 105, 114, 101, 99, 116, 105, 111, 110, 32, 61, 32, 114, 124, 117, 10, 116, 121, 112, 101, 95, 109, 97, 112, 45, 110, 117, 109, 98, 101, 114, 32, 61, 32, 110, 117, 109, 98, 101, 114, 10, 116, 121, 112, 101, 95, 109, 97, 112, 45, 108, 105, 115, 116, 32, 61, 32, 115, 116, 114, 105, 110, 103, 10, 100, 101, 102, 105, 110, 105, 116, 105, 111, 110, 45, 116, 111, 112, 105, 99, 32, 61, 32, 37, 112, 114, 101, 102, 105, 120, 110, 47, 99, 111, 110, 102, 105, 103, 47, 37, 67, 73, 82, 67, 85, 73, 84, 47, 37, 78, 65, 77, 69, 47, 37, 70, 73, 69, 76, 68, 10, 100, 101, 102, 105, 110, 105, 116, 105, 111, 110, 45, 112, 97, 121, 108, 111, 97, 100, 32, 61, 32, 37, 116, 111, 112, 105, 99, 124, 37, 99, 105, 114, 99, 117, 105, 116, 124, 37, 110, 97, 109, 101, 124, 37, 102, 105, 101, 108, 100, 124, 37, 116, 121, 112, 101, 124, 37, 100, 105, 114, 101, 99, 116, 105, 111, 110, 10, 100, 101, 102, 105, 110, 105, 116, 105, 111, 110, 45, 114, 101, 116, 97, 105, 110, 32, 61, 32, 49, 10, 100, 101, 102, 95, 103, 108, 111, 98, 97, 108, 45, 116, 111, 112, 105, 99, 32, 61, 32, 37, 112, 114, 101, 102, 105, 120, 110, 47, 99, 111, 110, 102, 105, 103, 47, 103, 108, 111, 98, 97, 108, 47, 37, 70, 73, 69, 76, 68, 10, 100, 101, 102, 95, 103, 108, 111, 98, 97, 108, 45, 112, 97, 121, 108, 111, 97, 100, 32, 61, 32, 37, 116, 111, 112, 105, 99, 124, 37, 102, 105, 101, 108, 100, 10, 100, 101, 102, 95, 103, 108, 111, 98, 97, 108, 45, 114, 101, 116, 97, 105, 110, 32, 61, 32, 48, 10, 99, 111, 110, 102, 105, 103, 95, 114, 101, 115, 116, 97, 114, 116, 45, 116, 111, 112, 105, 99, 32, 61, 32, 37, 112, 114, 101, 102, 105, 120, 110, 47, 99, 111, 110, 102, 105, 103, 47, 114, 101, 115, 116, 97, 114, 116, 10>>
T_cfgS == <<47, 99, 111, 110, 102, 105, 103, 47>>    \* /config/
T_number == <<110, 117, 109, 98, 101, 114>>    \* number
T_restart == <<114, 101, 115, 116, 97, 114, 116>>    \* restart

(***************************************************************************)
(* text helpers                                                             *)
(***************************************************************************)
RECURSIVE Dec(_)
Dec(n) == IF n < 10 THEN <<48 + n>> ELSE Dec(n \div 10) \o <<48 + (n % 10)>>
HexDigit(d) == IF d < 10 THEN 48 + d ELSE 87 + d
Hex2(x) == <<HexDigit(x \div 16), HexDigit(x % 16)>>
RECURSIVE HexOf(_)
HexOf(bs) == IF bs = <<>> THEN <<>> ELSE Hex2(Head(bs)) \o HexOf(Tail(bs))
RECURSIVE Join(_, _)
Join(ts, sep) == IF ts = <<>> THEN <<>> ELSE IF Len(ts) = 1 THEN ts[1] ELSE ts[1] \o sep \o Join(Tail(ts), sep)
RECURSIVE Flat(_)
Flat(ts) == IF ts = <<>> THEN <<>> ELSE Head(ts) \o Flat(Tail(ts))
Last(s) == s[Len(s)]
Front(s) == SubSeq(s, 1, Len(s) - 1)
Rng(s) == {s[k] : k \in DOMAIN s}
StartsWith(tx, p) == Len(tx) >= Len(p) /\ SubSeq(tx, 1, Len(p)) = p
EndsWith(tx, p) == Len(tx) >= Len(p) /\ SubSeq(tx, Len(tx) - Len(p) + 1, Len(tx)) = p
IndexOf(tx, p, from) ==
  LET hits == {k \in from..(Len(tx) - Len(p) + 1) : SubSeq(tx, k, k + Len(p) - 1) = p}
  IN IF hits = {} THEN 0 ELSE CHOOSE k \in hits : \A j \in hits : k <= j
RECURSIVE OrderedFrom(_, _, _)
OrderedFrom(tx, toks, from) ==
  IF toks = <<>> THEN TRUE
  ELSE LET k == IndexOf(tx, Head(toks), from) IN k > 0 /\ OrderedFrom(tx, Tail(toks), k + Len(Head(toks)))
OrderedSub(tx, toks) == OrderedFrom(tx, toks, 1)
IsSpace(c) == c \in {32, 10, 13, 9}
Strip(tx) == SelectSeq(tx, LAMBDA c : ~IsSpace(c))
RECURSIVE DecVal(_, _)
DecVal(s, acc) == IF s = <<>> THEN acc
                  ELSE IF Head(s) \notin 48..57 THEN -1
                  ELSE IF acc > 100000 THEN acc ELSE DecVal(Tail(s), acc * 10 + (Head(s) - 48))
ParseDec(s) == IF s = <<>> THEN -1 ELSE DecVal(s, 0)
Quote(tx) == <<34>> \o tx \o <<34>>
Upper(tx) == [k \in DOMAIN tx |-> IF tx[k] \in 97..122 THEN tx[k] - 32 ELSE tx[k]]
IsAlnum(c) == c \in 48..57 \/ c \in 65..90 \/ c \in 97..122
Normalized(tx) == [k \in DOMAIN tx |-> IF IsAlnum(tx[k]) THEN tx[k] ELSE 95]

(***************************************************************************)
(* worlds                                                                   *)
(*  message [k "r"|"w"|"u", c circuit, n name, lv, id <<PB,SB,ID..>>, ans,    *)
(*   noinj, fl fields <<[n name, vl 1 = value list 0=off;1=on, u unit]>>];    *)
(*   every field is one UCH byte; a read/passive message carries its fields   *)
(*   in the slave part, a write message in the master part                    *)
(*  options o [tp --mqtttopic text or <<>>, js "n"|"j"|"s", chg, ret, verb,    *)
(*   qos, gl --mqttglobal text or <<>>, int 0 = none | integration variant]     *)
(***************************************************************************)
Fld(n, vl, u) == [n |-> n, vl |-> vl, u |-> u]
Msg(k, c, n, id, fl, ans) == [k |-> k, c |-> c, n |-> n, lv |-> <<>>, id |-> <<181, 9>> \o id, ans |-> ans, noinj |-> 1, fl |-> fl]
FamA == << Msg("u", T_ca, T_temp, <<13, 1>>, <<Fld(T_t, 0, <<>>)>>, <<20>>),
           Msg("r", T_ca, T_two, <<13, 2>>, <<Fld(T_a, 0, <<>>), Fld(T_b, 0, T_ub)>>, <<30, 40>>),
           Msg("w", T_ca, T_set, <<14, 1>>, <<Fld(T_v, 0, <<>>)>>, <<>>),
           Msg("u", T_ca, T_st, <<13, 4>>, <<Fld(T_st, 1, <<>>)>>, <<0>>) >>
FamB == << Msg("r", T_ca, T_mode, <<13, 5>>, <<Fld(T_v, 0, <<>>)>>, <<50>>),
           Msg("w", T_ca, T_mode, <<14, 5>>, <<Fld(T_v, 0, <<>>)>>, <<>>),
           Msg("u", T_cb, T_temp, <<13, 6>>, <<Fld(T_t, 0, <<>>)>>, <<60>>),
           Msg("u", T_ca, T_pair, <<13, 7>>, <<Fld(T_a, 0, <<>>), Fld(T_b, 1, <<>>)>>, <<0, 0>>) >>
FieldCsv(f, part) == Join(<<f.n, part, T_UCH, IF f.vl = 1 THEN T_vals ELSE <<>>, f.u, <<>>>>, <<44>>)
DefCsv(m) ==
  Join(<<(IF m.k = "r" THEN <<114>> ELSE IF m.k = "w" THEN <<119>> ELSE <<117>>), m.c, m.n, <<>>, <<>>, Hex2(8),
         HexOf(SubSeq(m.id, 1, 2)), HexOf(SubSeq(m.id, 3, Len(m.id)))>>
       \o [i \in 1..Len(m.fl) |-> FieldCsv(m.fl[i], IF m.k = "w" THEN <<109>> ELSE <<115>>)], <<44>>) \o <<10>>
RECURSIVE CsvOf(_)
CsvOf(ms) == IF ms = <<>> THEN <<>> ELSE DefCsv(Head(ms)) \o CsvOf(Tail(ms))

OptArgs(o) == <<T_oScan, T_oPort>>
              \o (IF o.tp = <<>> THEN <<>> ELSE <<T_oTopic \o o.tp>>)
              \o (IF o.js = "j" THEN <<T_oJson>> ELSE IF o.js = "s" THEN <<T_oShort>> ELSE <<>>)
              \o (IF o.chg = 1 THEN <<T_oChg>> ELSE <<>>) \o (IF o.ret = 1 THEN <<T_oRet>> ELSE <<>>)
              \o (IF o.verb = 1 THEN <<T_oVerb>> ELSE <<>>) \o (IF o.qos > 0 THEN <<T_oQos \o Dec(o.qos)>> ELSE <<>>)
              \o (IF o.gl = <<>> THEN <<>> ELSE <<T_oGlob \o o.gl>>) \o (IF o.int > 0 THEN <<T_oInt>> ELSE <<>>)
Msgs(w) == DOMAIN w.msgs
Flds(w, m) == DOMAIN w.msgs[m].fl

(***************************************************************************)
(* P.1  documented topics                                                   *)
(* template parts: [v 0 constant | 1 circuit | 2 name | 3 field | 4 other, s]  *)
(***************************************************************************)
IsVarChar(c) == c \in 65..90 \/ c \in 97..122 \/ c = 95
VarEnd(tx, k) == LET stops == {j \in k..Len(tx) : ~IsVarChar(tx[j])} IN IF stops = {} THEN Len(tx) + 1 ELSE CHOOSE j \in stops : \A i \in stops : j <= i
VarIdx(nm) == IF nm = T_circuit THEN 1 ELSE IF nm = T_name THEN 2 ELSE IF nm = T_field THEN 3 ELSE 4
ConstPart(acc) == IF acc = <<>> THEN <<>> ELSE <<[v |-> 0, s |-> acc]>>
RECURSIVE ParseTpl(_, _, _)
ParseTpl(tx, k, acc) ==
  IF k > Len(tx) THEN ConstPart(acc)
  ELSE IF tx[k] = 37 THEN
    LET brace == k < Len(tx) /\ tx[k + 1] = 123
        from == IF brace THEN k + 2 ELSE k + 1
        to == VarEnd(tx, from)
        nm == SubSeq(tx, from, to - 1)
    IN ConstPart(acc) \o <<[v |-> VarIdx(nm), s |-> nm]>> \o ParseTpl(tx, IF brace THEN to + 1 ELSE to, <<>>)
  ELSE ParseTpl(tx, k + 1, Append(acc, tx[k]))
(* "Use MQTT TOPIC (prefix before /%circuit/%name or complete format) [ebusd]"; a trailing "#" = nothing is added *)
TplText(tp) == IF tp = <<>> THEN T_ebusd \o T_defTail
               ELSE IF Last(tp) = 35 THEN Front(tp)
               ELSE IF 37 \notin Rng(tp) THEN tp \o T_defTail
               ELSE tp
HasVar(parts, v) == \E k \in DOMAIN parts : parts[k].v = v
(* an option set carries what is derived from its texts once (x): the template parts, whether the topic has no %name (static), *)
(* whether it has %field, the constant prefix, the parts of --mqttglobal, whether the template is PREFIX/%circuit/%name[/%field] *)
Opt(tp, js, chg, ret, verb, qos, gl) ==
  LET parts == ParseTpl(TplText(tp), 1, <<>>)
  IN [tp |-> tp, js |-> js, chg |-> chg, ret |-> ret, verb |-> verb, qos |-> qos, gl |-> gl, int |-> 0,   \* int: see OptInt
      x |-> [tpl |-> parts, st |-> ~HasVar(parts, 2), bf |-> HasVar(parts, 3), prefix |-> IF parts # <<>> /\ parts[1].v = 0 THEN parts[1].s ELSE <<>>,
             gp |-> ParseTpl(gl, 1, <<>>), reg |-> TplText(tp) \in {y \o T_defTail : y \in {T_ebusd, T_tpHp}} \cup {T_tpField}]]
OptInt(o, v) == [o EXCEPT !.int = v]      \* the option set with --mqttint=mqttint.cfg, integration file variant v (1 | 2)
IntFile(v) == IF v = 1 THEN T_int1 ELSE IF v = 2 THEN T_int2 ELSE <<>>
Tpl(o) == o.x.tpl
Static(o) == o.x.st
ByField(o) == o.x.bf
Regular(o) == o.x.reg
Subst(parts, c, n, f) == Flat([k \in DOMAIN parts |-> IF parts[k].v = 0 THEN parts[k].s ELSE IF parts[k].v = 1 THEN c
                                                       ELSE IF parts[k].v = 2 THEN n ELSE IF parts[k].v = 3 THEN f ELSE <<>>])
(* the parts up to and including the first variable v *)
UpTo(parts, v) == LET ks == {k \in DOMAIN parts : parts[k].v = v} IN IF ks = {} THEN parts ELSE SubSeq(parts, 1, CHOOSE k \in ks : \A j \in ks : k <= j)
Before(parts, v) == LET ks == {k \in DOMAIN parts : parts[k].v = v} IN IF ks = {} THEN parts ELSE SubSeq(parts, 1, (CHOOSE k \in ks : \A j \in ks : k <= j) - 1)
DropSlash(tx) == IF tx # <<>> /\ Last(tx) = 47 THEN Front(tx) ELSE tx
Prefix(o) == o.x.prefix
FieldName(w, m, f) == w.msgs[m].fl[f].n
(* the topic a message (one field of it, when the template has %field) is published on *)
MsgTopic(w, m) == Subst(Before(Tpl(w.o), 3), w.msgs[m].c, w.msgs[m].n, <<>>)      \* by-field templates: the message level
FieldTopic(w, m, f) == Subst(Tpl(w.o), w.msgs[m].c, w.msgs[m].n, FieldName(w, m, f))
PubTopic(w, m, f) == IF ByField(w.o) THEN FieldTopic(w, m, f) ELSE Subst(Tpl(w.o), w.msgs[m].c, w.msgs[m].n, <<>>)
(* global data: "default is "global/" suffix to mqtttopic prefix"; --mqttglobal=TOPIC "use TOPIC for global data" *)
GlobalNames == {T_version, T_running, T_signal, T_uptime, T_updatecheck, T_scan}
GlobalTopic(o, x) == IF o.gl = <<>> THEN Prefix(o) \o T_globalS \o x
                     ELSE IF HasVar(o.x.gp, 2) THEN Subst(o.x.gp, T_global, x, <<>>) ELSE o.gl \o x
(* MQTT topic filter with an optional trailing "#" *)
FilterCovers(flt, tx) == IF flt # <<>> /\ Last(flt) = 35 THEN StartsWith(tx, Front(flt)) \/ tx = DropSlash(Front(flt)) ELSE flt = tx

(***************************************************************************)
(* P.2  documented payloads                                                 *)
(***************************************************************************)
FieldText(fd, x) == IF fd.vl = 1 THEN (IF x = 0 THEN T_off ELSE IF x = 1 THEN T_on ELSE Dec(x)) ELSE Dec(x)
FieldJson(fd, x) == IF fd.vl = 1 /\ x \in {0, 1} THEN Quote(FieldText(fd, x)) ELSE Dec(x)
PlainPayload(w, m, val) == Join([f \in Flds(w, m) |-> FieldText(w.msgs[m].fl[f], val[f])], <<59>>)
JsonPayload(w, m, val) == <<123>> \o Join([f \in Flds(w, m) |-> Quote(FieldName(w, m, f)) \o <<58>> \o T_jvalue \o FieldJson(w.msgs[m].fl[f], val[f]) \o <<125>>], <<44>>) \o <<125>>
ShortPayload(w, m, val) == <<123>> \o Join([f \in Flds(w, m) |-> Quote(FieldName(w, m, f)) \o <<58>> \o FieldJson(w.msgs[m].fl[f], val[f])], <<44>>) \o <<125>>
(* is p an admissible payload for message m (field f > 0 when published by field) holding val *)
PayloadOk(w, m, f, val, p) ==
  LET o == w.o
      sp == Strip(p)
      exact == IF o.js = "n" THEN PlainPayload(w, m, val) ELSE IF o.js = "j" THEN JsonPayload(w, m, val) ELSE ShortPayload(w, m, val)
      toks == [g \in Flds(w, m) |-> IF o.js = "n" THEN FieldText(w.msgs[m].fl[g], val[g])
                                      ELSE Quote(FieldName(w, m, g)) \o <<58>> \o (IF o.js = "j" THEN T_jvalue ELSE <<>>) \o FieldJson(w.msgs[m].fl[g], val[g])]
  IN IF val = <<>> THEN p = <<>>                                     \* "send empty message ... on messages without any field" / no data
     ELSE IF ByField(o) THEN (IF o.js = "n" /\ o.verb = 0 THEN p = FieldText(w.msgs[m].fl[f], val[f])
                              ELSE IndexOf(sp, IF o.js = "n" THEN FieldText(w.msgs[m].fl[f], val[f]) ELSE FieldJson(w.msgs[m].fl[f], val[f]), 1) > 0)
     ELSE IF Static(o) THEN OrderedSub(sp, (IF o.js = "n" THEN <<w.msgs[m].c, w.msgs[m].n>> ELSE <<T_jcircuit \o Quote(w.msgs[m].c), T_jname \o Quote(w.msgs[m].n)>>) \o toks)
     ELSE IF o.verb = 1 THEN OrderedSub(sp, toks)
     ELSE sp = exact

(***************************************************************************)
(* P.2b documented definitions (mqtt-integration.cfg) for the integration    *)
(*  files above                                                              *)
(***************************************************************************)
Prefixn(o) == LET RECURSIVE cut(_)
                  cut(tx) == IF tx # <<>> /\ Last(tx) \in {47, 95} THEN cut(Front(tx)) ELSE tx
              IN cut(Prefix(o))                                   \* "%prefixn the same as %prefix but without trailing slashes or underscores"
FilterSeen(o) == IF o.int = 2 THEN 1 ELSE 0
DirAllowed(o, md) == o.int = 1 \/ md.k \in {"r", "u"}
DirectionOf(md) == IF md.k = "r" THEN <<114>> ELSE IF md.k = "w" THEN <<119>> ELSE <<117>>
TypeOf(fd) == IF fd.vl = 1 THEN T_list5 ELSE T_number
DefTopic(w, m, f) == Prefixn(w.o) \o T_cfgS \o Normalized(w.msgs[m].c) \o <<47>> \o Normalized(w.msgs[m].n) \o <<47>> \o Normalized(FieldName(w, m, f))
(* ChangeLog: "also include write messages as read-only ones in MQTT definition topic if writes are excluded": direction "uw" *)
DefDirs(w, m) == IF w.msgs[m].k = "w" /\ ~DirAllowed(w.o, w.msgs[m]) THEN {<<117, 119>>} ELSE {DirectionOf(w.msgs[m])}
DefPayloads(w, m, f) == {Join(<<PubTopic(w, m, f), w.msgs[m].c, w.msgs[m].n, FieldName(w, m, f), TypeOf(w.msgs[m].fl[f]), d>>, <<124>>) : d \in DefDirs(w, m)}
GDefTopic(w, x) == Prefixn(w.o) \o T_cfgS \o T_globalS \o Normalized(x)
GDefPayload(w, x) == GlobalTopic(w.o, x) \o <<124>> \o x
(* must (m, f) be announced / may it be announced, given the data seen so far *)
DefMust(w, st, m) == DirAllowed(w.o, w.msgs[m]) /\ (FilterSeen(w.o) = 0 \/ st.val[m] # <<>>)
DefMay(w, st, m) == IF w.msgs[m].k = "w" THEN TRUE ELSE DefMust(w, st, m)      \* write messages with w excluded / without data: open

(***************************************************************************)
(* P.3  documented telegrams                                                *)
(***************************************************************************)
OWN == 49
ReadTelegram(md) == <<OWN, 8>> \o SubSeq(md.id, 1, 2) \o <<Len(md.id) - 2>> \o SubSeq(md.id, 3, Len(md.id))
WriteTelegram(md, data) == <<OWN, 8>> \o SubSeq(md.id, 1, 2) \o <<Len(md.id) - 2 + Len(data)>> \o SubSeq(md.id, 3, Len(md.id)) \o data
(* the values a /set payload encodes for the fields of a write message; <<-1>> = not a valid input *)
SplitAt(s, sep) ==
  LET cut == {0} \cup {k \in 1..Len(s) : s[k] = sep} \cup {Len(s) + 1}
      RECURSIVE from(_)
      from(a0) == IF a0 = Len(s) + 1 THEN <<>>
                  ELSE LET b0 == CHOOSE x \in cut : x > a0 /\ \A y \in cut : y > a0 => x <= y
                       IN <<SubSeq(s, a0 + 1, b0 - 1)>> \o from(b0)
  IN from(0)
FieldInput(fd, tx) == IF fd.vl = 1 THEN (IF tx = T_off THEN 0 ELSE IF tx = T_on THEN 1 ELSE -1)
                      ELSE LET x == ParseDec(tx) IN IF x \in 0..254 THEN x ELSE -1
SetValues(md, pl) == LET ps == SplitAt(pl, 59) IN
  IF Len(ps) # Len(md.fl) THEN <<-1>>
  ELSE LET xs == [f \in DOMAIN md.fl |-> FieldInput(md.fl[f], ps[f])] IN IF \E f \in DOMAIN xs : xs[f] < 0 THEN <<-1>> ELSE xs

(***************************************************************************)
(* sessions: events                                                         *)
(*  T n ticks | U passive telegram for message m with data v | F the main     *)
(*  loop serves a client command (its sink feed runs) | R client `read -f` of *)
(*  message m | I incoming MQTT message: base topic number b of the world,     *)
(*  direction d, argument a behind it, payload pl | D broker goes away | B      *)
(*  broker is back | M one iteration of the handler loop                        *)
(***************************************************************************)
Ev(e) == [e |-> e, n |-> 0, m |-> 0, v |-> <<>>, d |-> <<>>, b |-> 0, a |-> <<>>, pl |-> <<>>]
EvT(n) == [Ev("T") EXCEPT !.n = n]
EvU(m, v) == [Ev("U") EXCEPT !.m = m, !.v = v]
EvR(m) == [Ev("R") EXCEPT !.m = m]
EvI(b, d, a, pl) == [Ev("I") EXCEPT !.b = b, !.d = d, !.a = a, !.pl = pl]
EvF == Ev("F")
EvM == Ev("M")
EvD == Ev("D")
EvB == Ev("B")
(* the base topics incoming messages are built on; same numbering in every world of a message family:                    *)
(*  1..4 the messages, 5 second field of the two-field message, 6 circuit ca, 7 the root, 8 circuits c*, 9 names t* of ca,  *)
(*  10 unknown name in ca, 11 PREFIX/config (for the configured restart topic PREFIX/config/restart).  kind: "m" message/field, "l" list scope (circuit filter, wildcard, name filter, wildcard),       *)
(*  "x" nothing known.  List scopes are only defined for the regular templates PREFIX/%circuit/%name[/%field].             *)
TwoFieldMsg(w) == CHOOSE m \in Msgs(w) : Len(w.msgs[m].fl) = 2
Base(kind, tx, m, f, lc, lcw, ln, lnw) == [kind |-> kind, t |-> tx, m |-> m, f |-> f, lc |-> lc, lcw |-> lcw, ln |-> ln, lnw |-> lnw]
BasesOf(w) ==
  LET o == w.o
      p == Tpl(o)
      mt(m) == IF Static(o) THEN Subst(p, <<>>, <<>>, <<>>) \o <<47>> \o w.msgs[m].c \o <<47>> \o w.msgs[m].n ELSE MsgTopic(w, m)
      two == TwoFieldMsg(w)
      circ(c) == DropSlash(Subst(UpTo(p, 1), c, <<>>, <<>>))
      lk == IF Regular(o) THEN "l" ELSE "o"
  IN [m \in 1..4 |-> Base(IF Static(o) THEN "x" ELSE "m", DropSlash(mt(m)), m, 0, <<>>, 0, <<>>, 0)]
     \o << Base(IF ByField(o) THEN "m" ELSE "x", DropSlash(mt(two)) \o <<47>> \o FieldName(w, two, 2), two, 2, <<>>, 0, <<>>, 0),
           Base(lk, circ(T_ca), 0, 0, T_ca, 0, <<>>, 0),
           Base(lk, DropSlash(Prefix(o)), 0, 0, <<>>, 0, <<>>, 0),
           Base(lk, circ(<<99, 42>>), 0, 0, <<99>>, 1, <<>>, 0),
           Base(lk, DropSlash(Subst(Before(p, 3), T_ca, <<116, 42>>, <<>>)), 0, 0, T_ca, 0, <<116>>, 1),
           Base("x", DropSlash(Subst(Before(p, 3), T_ca, T_nix, <<>>)), 0, 0, <<>>, 0, <<>>, 0),
           Base("r", DropSlash(Prefix(o)) \o <<47>> \o T_config, 0, 0, <<>>, 0, <<>>, 0) >>
Bases(w) == w.bs
InTopic(w, ev) == Bases(w)[ev.b].t \o <<47>> \o ev.d \o ev.a

World(fam, msgs, o, nosig, brokerdown) ==
  LET w0 == [fam |-> fam, dsrc |-> "none", d |-> <<>>, users |-> <<>>, dyn |-> 1, nosig |-> nosig, brokerdown |-> brokerdown,
             args |-> OptArgs(o), csv |-> CsvOf(msgs), msgs |-> msgs, o |-> o]
  IN [fam |-> fam, dsrc |-> "none", d |-> <<>>, users |-> <<>>, dyn |-> 1, nosig |-> nosig, brokerdown |-> brokerdown,
      args |-> OptArgs(o), csv |-> CsvOf(msgs), msgs |-> msgs, o |-> o, intfile |-> IntFile(o.int), bs |-> BasesOf(w0), bases |-> [k \in 1..11 |-> BasesOf(w0)[k].t]]

(***************************************************************************)
(* P.4  the monitor                                                         *)
(*  state: now; conn (what the client last reported); val[m] last data seen  *)
(*  on the bus; may[m] updates (changes with --mqttchanges) not yet           *)
(*  published; req[m] one of them arrived while connected and the connection   *)
(*  has held since (it must be published before the session's drain ends);     *)
(*  ans[m] the last publish of m was the answer to a request; pr poll          *)
(*  priorities; q incoming messages handed to the broker; cnt telegrams        *)
(*  answered per message; bad = set of <<class, event index>>                  *)
(***************************************************************************)
PInit(w) == [now |-> 0, sg |-> 1 - w.nosig, bu |-> 1 - w.brokerdown, rc |-> -1, conn |-> 1 - w.brokerdown, val |-> [m \in Msgs(w) |-> <<>>], may |-> [m \in Msgs(w) |-> 0],
             req |-> [m \in Msgs(w) |-> FALSE], ans |-> [m \in Msgs(w) |-> FALSE], att |-> [m \in Msgs(w) |-> <<>>], defd |-> {}, once |-> {}, gdef |-> {}, pr |-> [m \in Msgs(w) |-> 0], q |-> <<>>, bad |-> {}]
Flag(st, cls, k) == IF \E x \in st.bad : x[1] = cls THEN st ELSE [st EXCEPT !.bad = @ \cup {<<cls, k>>}]
PUpdate(w, st, m, v) ==
  LET counts == w.o.chg = 0 \/ st.val[m] # v
  IN [st EXCEPT !.val[m] = v, !.may[m] = IF counts THEN @ + 1 ELSE @, !.req[m] = IF counts /\ st.conn = 1 THEN TRUE ELSE @,
                !.ans[m] = IF counts THEN FALSE ELSE @]
MsgById(w, id) == LET ms == {m \in Msgs(w) : w.msgs[m].id = id} IN IF ms = {} THEN 0 ELSE CHOOSE m \in ms : TRUE
(* what a telegram on the bus tells about a message: <<m, data>> or <<0, <<>>>> *)
TelegramInfo(w, tg, answer) ==
  IF Len(tg) < 5 \/ Len(tg) # 5 + tg[5] THEN <<0, <<>>>>
  ELSE LET cands == {m \in Msgs(w) : Len(tg) >= 3 + Len(w.msgs[m].id) /\ SubSeq(tg, 3, 4) = SubSeq(w.msgs[m].id, 1, 2)
                                      /\ SubSeq(tg, 6, 3 + Len(w.msgs[m].id)) = SubSeq(w.msgs[m].id, 3, Len(w.msgs[m].id))}
       IN IF cands = {} THEN <<0, <<>>>>
          ELSE LET m == CHOOSE x \in cands : TRUE IN <<m, IF w.msgs[m].k = "w" THEN SubSeq(tg, 4 + Len(w.msgs[m].id), Len(tg)) ELSE answer>>

(* ---- requests ---- *)
NoReq == [d |-> "none", why |-> "", m |-> 0, f |-> 0, bus |-> <<>>, gotbus |-> FALSE, pubs |-> <<>>, scope |-> {}, wantpub |-> "no", data |-> <<>>, k |-> 0]
MatchesList(w, bs, m) ==
  LET md == w.msgs[m]
  IN /\ (bs.lc = <<>> \/ (IF bs.lcw = 1 THEN StartsWith(md.c, bs.lc) ELSE md.c = bs.lc))
     /\ (bs.ln = <<>> \/ (IF bs.lnw = 1 THEN StartsWith(md.n, bs.ln) ELSE md.n = bs.ln))
(* the message an incoming get/set names: read/passive for get, write for set *)
Resolve(w, bs, write) ==
  IF bs.kind # "m" THEN 0
  ELSE LET md0 == w.msgs[bs.m]
           cands == {m \in Msgs(w) : w.msgs[m].c = md0.c /\ w.msgs[m].n = md0.n /\ ((w.msgs[m].k = "w") = write)}
           act == {m \in cands : w.msgs[m].k # "u"}
       IN IF cands = {} THEN 0 ELSE IF act # {} THEN CHOOSE m \in act : TRUE ELSE CHOOSE m \in cands : TRUE
PollArg(a) == IF a = <<>> \/ Head(a) # 63 THEN -1 ELSE ParseDec(Tail(a))
OpenReq(w, st, ev, k) ==
  LET bs == Bases(w)[ev.b]
  IN IF ev.d = T_restart THEN [NoReq EXCEPT !.d = IF w.o.int > 0 /\ bs.kind = "r" THEN "restart" ELSE "nothing", !.why = "unknown-direction", !.k = k]
     ELSE IF ev.d = T_list THEN
       IF bs.kind = "l" THEN [NoReq EXCEPT !.d = "list", !.k = k, !.wantpub = "each",
                                           !.scope = {m \in Msgs(w) : MatchesList(w, bs, m) /\ (ev.pl = <<>> \/ st.val[m] # <<>>)}]
       ELSE [NoReq EXCEPT !.d = "open", !.k = k]
     ELSE IF ev.a # <<>> /\ (ev.d # T_get \/ PollArg(ev.a) \notin 1..9) THEN [NoReq EXCEPT !.d = "open", !.k = k]   \* undocumented argument forms
     ELSE IF ev.d = T_get THEN
       LET m == Resolve(w, bs, FALSE)
       IN IF m = 0 THEN [NoReq EXCEPT !.d = "nothing", !.why = "get-unknown-message", !.k = k]
          ELSE IF w.msgs[m].k = "u" THEN [NoReq EXCEPT !.d = "get", !.k = k, !.m = m, !.f = bs.f, !.wantpub = IF st.val[m] = <<>> THEN "may" ELSE "one"]
          ELSE IF st.sg = 0 THEN [NoReq EXCEPT !.d = "get", !.why = "no-signal", !.k = k, !.m = m, !.f = bs.f]
          ELSE [NoReq EXCEPT !.d = "get", !.k = k, !.m = m, !.f = bs.f, !.bus = ReadTelegram(w.msgs[m]), !.wantpub = "one"]
     ELSE IF ev.d = T_set THEN
       LET m == Resolve(w, bs, TRUE)
           xs == IF m = 0 THEN <<-1>> ELSE SetValues(w.msgs[m], ev.pl)
       IN IF m # 0 /\ bs.f # 0 THEN [NoReq EXCEPT !.d = "open", !.k = k]
          ELSE IF m = 0 THEN [NoReq EXCEPT !.d = "nothing", !.why = IF bs.kind = "m" THEN "set-on-message-without-write-definition" ELSE "set-unknown-message", !.k = k]
          ELSE IF xs = <<-1>> THEN [NoReq EXCEPT !.d = "nothing", !.why = "set-invalid-value", !.k = k]
          ELSE IF st.sg = 0 THEN [NoReq EXCEPT !.d = "set", !.why = "no-signal", !.k = k, !.m = m, !.data = xs]
          ELSE [NoReq EXCEPT !.d = "set", !.k = k, !.m = m, !.bus = WriteTelegram(w.msgs[m], xs), !.wantpub = "may", !.data = xs]
     ELSE [NoReq EXCEPT !.d = "nothing", !.why = "unknown-direction", !.k = k]
(* does a publish of (m, f) belong to the answer of the open request *)
AnswerFits(w, rq, m, f) ==
  /\ rq.d \in {"get", "set", "list", "open"}
  /\ rq.wantpub # "no" \/ rq.d = "open"
  /\ (rq.bus = <<>> \/ rq.gotbus)
  /\ IF rq.d \in {"list", "open"} THEN (rq.d = "open" \/ m \in rq.scope) /\ ~\E i \in DOMAIN rq.pubs : rq.pubs[i] = <<m, f>>
     ELSE m = rq.m /\ ~\E i \in DOMAIN rq.pubs : rq.pubs[i] = <<m, f>>
(* obligations of a request when it is closed *)
CloseReq(w, st, rq, k) ==
  LET need(m) == IF ByField(w.o) THEN {<<m, f>> : f \in Flds(w, m)} ELSE {<<m, 0>>}
      got == {rq.pubs[i] : i \in DOMAIN rq.pubs}
      s0 == IF rq.d = "set" /\ rq.m # 0 /\ ~rq.gotbus THEN [st EXCEPT !.att[rq.m] = rq.data] ELSE st
      s1 == IF rq.bus # <<>> /\ ~rq.gotbus THEN Flag(s0, <<"request", rq.d, "no-telegram">>, k) ELSE s0
      s2 == IF rq.wantpub = "one" /\ (rq.bus = <<>> \/ rq.gotbus) /\ ~(need(rq.m) \subseteq got) /\ ~(rq.f > 0 /\ <<rq.m, rq.f>> \in got)
              THEN Flag(s1, <<"request", rq.d, "not-published">>, k)
            ELSE IF rq.wantpub = "each" /\ \E m \in rq.scope : ~(need(m) \subseteq got) THEN Flag(s1, <<"request", "list", "message-not-published">>, k)
            ELSE s1
  IN s2

(* ---- classification of a publish ---- *)
GlobalOf(w, tx) == LET xs == {x \in GlobalNames : GlobalTopic(w.o, x) = tx} IN IF xs = {} THEN <<>> ELSE CHOOSE x \in xs : TRUE
MsgCands(w, tx) == {mf \in UNION {{<<m, f>> : f \in (IF ByField(w.o) THEN Flds(w, m) ELSE {0})} : m \in Msgs(w)} : PubTopic(w, mf[1], mf[2]) = tx}
(* several messages may share a topic (same name read/write, a topic without %name): prefer the one the payload and the state explain *)
PickMsg(w, st, rq, cands, p) ==
  LET ok(mf) == PayloadOk(w, mf[1], mf[2], st.val[mf[1]], p)
      rank(mf) == IF ok(mf) /\ AnswerFits(w, rq, mf[1], mf[2]) THEN 0 ELSE IF ok(mf) /\ st.may[mf[1]] > 0 THEN 1 ELSE IF ok(mf) THEN 2 ELSE 3
  IN CHOOSE mf \in cands : \A other \in cands : rank(mf) <= rank(other)
GName(x) == IF x = T_running THEN "running" ELSE IF x = T_version THEN "version" ELSE IF x = T_signal THEN "signal" ELSE IF x = T_uptime THEN "uptime" ELSE IF x = T_scan THEN "scan" ELSE "updatecheck"
GlobalPayloadOk(w, st, x, p) ==
  LET q(tx) == IF w.o.js = "n" THEN tx ELSE Quote(tx)
  IN IF x = T_running THEN p = T_true
     ELSE IF x = T_signal THEN p = (IF st.sg = 0 THEN T_false ELSE T_true)
     ELSE IF x = T_uptime THEN p = Dec(st.now)
     ELSE IF x = T_version THEN Len(p) > 2 /\ (w.o.js = "n" \/ (Head(p) = 34 /\ Last(p) = 34))
     ELSE TRUE

(* ---- one output item of an event; ws = [st, rq, fl (publishes of the update flush: <<m, f>>), ack, ackrun, acksub] ---- *)
PItem(w, ws, x, k, inM) ==
  LET st == ws.st
  IN
  IF x.k = "will" THEN ws
  ELSE IF x.k = "run" THEN
    LET st1 == [st EXCEPT !.conn = x.q, !.req = IF x.q = 0 THEN [m \in Msgs(w) |-> FALSE] ELSE @]
    IN [ws EXCEPT !.st = st1, !.ack = x.e = 1]
  ELSE IF x.k = "sub" THEN
    IF ~ws.ack THEN [ws EXCEPT !.st = Flag(st, <<"subscribe-outside-connect">>, k)]
    ELSE [ws EXCEPT !.acksub = @ \/ \A m \in Msgs(w) : FilterCovers(x.t, MsgTopic(w, m) \o <<47>> \o T_get)]
  ELSE IF x.k = "in" THEN
    LET closed == CloseReq(w, st, ws.rq, k)
        idx == {i \in DOMAIN closed.q : InTopic(w, closed.q[i]) = x.t /\ closed.q[i].pl = x.p}
    IN IF idx = {} THEN [ws EXCEPT !.st = closed, !.rq = [NoReq EXCEPT !.d = "open", !.k = k]]
       ELSE LET i == CHOOSE j \in idx : \A j2 \in idx : j <= j2
                ev == closed.q[i]
                rq == OpenReq(w, closed, ev, k)
            IN [ws EXCEPT !.st = [closed EXCEPT !.q = SubSeq(@, i + 1, Len(@)), !.defd = IF rq.d = "restart" THEN {} ELSE @,
                                                !.once = IF rq.d = "restart" THEN {} ELSE @, !.gdef = IF rq.d = "restart" THEN {} ELSE @], !.rq = rq]
  ELSE IF x.k = "bus" THEN
    LET info == TelegramInfo(w, x.t, x.p)
        expected == inM /\ ws.rq.bus # <<>> /\ ~ws.rq.gotbus /\ x.t = ws.rq.bus
        st1 == IF info[1] = 0 THEN st ELSE PUpdate(w, st, info[1], info[2])
        st2 == IF expected \/ ~inM \/ ws.rq.d = "open" THEN st1 ELSE Flag(st1, IF ws.rq.d # "none" THEN <<"request", ws.rq.d, ws.rq.why, "unexpected-telegram">> ELSE <<"telegram-without-request">>, k)
    IN [ws EXCEPT !.st = st2, !.rq = IF expected THEN [@ EXCEPT !.gotbus = TRUE] ELSE @]
  ELSE IF x.k = "pub" THEN
    LET s0 == IF st.conn = 0 THEN Flag(st, <<"publish-while-disconnected">>, k) ELSE st
        gx == GlobalOf(w, x.t)
        cands == MsgCands(w, x.t)
        s1 == IF x.q # w.o.qos THEN Flag(s0, <<"qos-differs-from-mqttqos", IF gx # <<>> THEN GName(gx) ELSE IF x.e = 1 THEN "message-without-data" ELSE "message">>, k) ELSE s0
    IN IF gx # <<>> THEN
         LET s2 == IF ~GlobalPayloadOk(w, s1, gx, x.p) THEN Flag(s1, <<"global-payload", GName(gx)>>, k) ELSE s1
             s3 == IF (w.o.ret = 1 \/ gx = T_running) /\ x.r # 1 THEN Flag(s2, <<"retain:global-not-retained", GName(gx)>>, k) ELSE s2
         IN [ws EXCEPT !.st = s3, !.ackrun = @ \/ (gx = T_running /\ ws.ack)]
       ELSE IF cands # {} THEN
         LET mf == PickMsg(w, s1, ws.rq, cands, x.p)
             m == mf[1]
             failedSet == s1.att[m] # <<>> /\ s1.att[m] # s1.val[m] /\ PayloadOk(w, m, mf[2], s1.att[m], x.p)
             s2 == IF PayloadOk(w, m, mf[2], s1.val[m], x.p) THEN s1
                   ELSE Flag(s1, IF failedSet THEN <<"value-of-a-set-that-was-never-sent-is-published">> ELSE IF w.o.js = "s" THEN <<"payload", "json-short">> ELSE <<"payload">>, k)
             s3 == IF x.r # w.o.ret THEN Flag(s2, <<"retain:message">>, k) ELSE s2
         IN IF inM /\ AnswerFits(w, ws.rq, m, mf[2])
              THEN [ws EXCEPT !.st = IF ws.rq.gotbus THEN [s3 EXCEPT !.ans[m] = TRUE, !.may[m] = 0, !.req[m] = FALSE] ELSE s3,   \* the answer carries the telegram's update
                            !.rq = [@ EXCEPT !.pubs = Append(@, mf)]]
            ELSE IF inM /\ ws.rq.d \notin {"none", "open"} /\ s3.may[m] = 0 /\ ~failedSet
              THEN [ws EXCEPT !.st = Flag(s3, <<"request", ws.rq.d, ws.rq.why, "unexpected-publish">>, k)]
            ELSE IF failedSet THEN [ws EXCEPT !.st = CloseReq(w, [s3 EXCEPT !.att[m] = <<>>], ws.rq, k), !.rq = NoReq]
            ELSE [ws EXCEPT !.st = CloseReq(w, s3, ws.rq, k), !.rq = NoReq, !.fl = Append(@, mf)]
       ELSE IF w.o.int > 0 /\ StartsWith(x.t, Prefixn(w.o) \o T_cfgS) THEN
         LET dc == {mf \in UNION {{<<m, f>> : f \in Flds(w, m)} : m \in Msgs(w)} : DefTopic(w, mf[1], mf[2]) = x.t}
             gc == {y \in GlobalNames : GDefTopic(w, y) = x.t}
         IN IF dc # {} THEN
              LET mf == CHOOSE y \in dc : TRUE
                  m == mf[1]
                  s2 == IF x.p \notin DefPayloads(w, m, mf[2]) THEN Flag(s1, <<"definition", "payload">>, k) ELSE s1
                  s3 == IF x.r # 1 THEN Flag(s2, <<"definition", "retain">>, k) ELSE s2
                  s4 == IF ~DefMay(w, s3, m) THEN Flag(s3, <<"definition", "of-a-message-the-filters-exclude">>, k) ELSE s3
                  s5 == IF mf \in s4.once THEN Flag(s4, <<"definition", "repeated">>, k) ELSE s4
              IN [ws EXCEPT !.st = [s5 EXCEPT !.defd = @ \cup {mf}, !.once = @ \cup {mf}], !.defnow = @ \cup {m}]
            ELSE IF gc # {} THEN
              LET y == CHOOSE z \in gc : TRUE
                  s2 == IF x.p # GDefPayload(w, y) THEN Flag(s1, <<"definition", "global", "payload">>, k) ELSE s1
                  s3 == IF x.r # w.o.ret THEN Flag(s2, <<"definition", "global", "retain">>, k) ELSE s2
              IN [ws EXCEPT !.st = [s3 EXCEPT !.gdef = @ \cup {y}]]
            ELSE [ws EXCEPT !.st = Flag(s1, IF x.t = Prefixn(w.o) \o T_cfgS \o T_globalS THEN <<"definition", "global", "field-variable-not-set">>
                                            ELSE <<"definition", "topic">>, k)]
       ELSE [ws EXCEPT !.st = Flag(s1, <<"publish-to-undocumented-topic">>, k)]
  ELSE ws
RECURSIVE PItems(_, _, _, _, _, _)
PItems(w, ws, outs, i, k, inM) == IF i > Len(outs) THEN ws ELSE PItems(w, PItem(w, ws, outs[i], k, inM), outs, i + 1, k, inM)

(* the publishes of the update flush of one iteration: per message at most one complete set, justified by a pending update *)
FlushJudge(w, st, fl, defnow, k) ==
  LET byMsg(m) == SelectSeq(fl, LAMBDA mf : mf[1] = m)
      need(m) == IF ByField(w.o) THEN {<<m, f>> : f \in Flds(w, m)} ELSE {<<m, 0>>}
      RECURSIVE go(_, _)
      go(s, ms) ==
        IF ms = {} THEN s
        ELSE LET m == CHOOSE x \in ms : TRUE
                 got == byMsg(m)
                 s1 == IF got = <<>> THEN s
                       ELSE LET once == Len(got) = Cardinality(need(m)) /\ {got[i] : i \in DOMAIN got} = need(m)
                                sa == IF ~once THEN Flag(s, IF Len(got) > Cardinality(need(m)) THEN <<"published-more-than-once-per-iteration">> ELSE <<"published-fields-incomplete">>, k) ELSE s
                                sb == IF s.may[m] = 0 /\ m \notin defnow THEN Flag(sa, IF s.ans[m] THEN <<"republished-after-request-answer">> ELSE <<"republished-without-new-update">>, k) ELSE sa
                            IN [sb EXCEPT !.may[m] = 0, !.req[m] = FALSE, !.ans[m] = FALSE]
             IN go(s1, ms \ {m})
  IN go(st, Msgs(w))

(* ---- one event ---- *)
PEvent(w, st, ev, o, k) ==
  LET ws0 == [st |-> st, rq |-> NoReq, fl |-> <<>>, ack |-> FALSE, ackrun |-> FALSE, acksub |-> FALSE, defnow |-> {}]
      buses == SelectSeq(o.outs, LAMBDA x : x.k = "bus")
  IN
  IF ev.e = "T" THEN [st EXCEPT !.now = @ + ev.n, !.rc = IF ev.n >= 16 /\ st.bu = 1 /\ st.conn = 0 /\ @ < 0 THEN 0 ELSE @]
  ELSE IF ev.e = "U" THEN PUpdate(w, st, ev.m, ev.v)
  ELSE IF ev.e = "I" THEN [st EXCEPT !.q = Append(@, ev)]
  ELSE IF ev.e \in {"D", "B"} THEN LET s1 == [st EXCEPT !.bu = IF ev.e = "B" THEN 1 ELSE 0, !.rc = -1]
                                    IN IF o.outs # <<>> THEN Flag(s1, <<"output-without-cause">>, k) ELSE s1
  ELSE IF ev.e = "R" THEN
    LET ws == PItems(w, ws0, o.outs, 1, k, FALSE)
        want == IF st.sg = 0 THEN <<>> ELSE <<ReadTelegram(w.msgs[ev.m])>>
    IN IF [i \in DOMAIN buses |-> buses[i].t] # want THEN Flag(ws.st, <<"client-read:telegrams">>, k) ELSE ws.st
  ELSE IF ev.e = "F" THEN
    LET ws == PItems(w, ws0, o.outs, 1, k, FALSE)
        s1 == IF ws.fl # <<>> THEN Flag(ws.st, <<"message-published-outside-handler-iteration">>, k) ELSE ws.st
    IN IF buses # <<>> THEN Flag(s1, <<"telegram-without-request">>, k) ELSE s1
  ELSE IF ev.e = "M" THEN
    LET ws == PItems(w, ws0, o.outs, 1, k, TRUE)
        s1 == CloseReq(w, ws.st, ws.rq, k)
        s2 == IF ws.ack /\ ~ws.ackrun THEN Flag(s1, <<"connect:running-not-published">>, k) ELSE s1
        s3 == IF ws.ack /\ ~ws.acksub /\ ~Static(w.o) THEN Flag(s2, <<"connect:not-subscribed">>, k) ELSE s2
        s4 == FlushJudge(w, s3, ws.fl, ws.defnow, k)
        (* "added automatic reconnect to MQTT broker": once the broker is back and 16 s have passed, the third iteration at the latest is connected *)
        s5 == IF s4.conn = 1 \/ s4.bu = 0 \/ s4.rc < 0 THEN [s4 EXCEPT !.rc = -1]
              ELSE IF s4.rc >= 2 THEN Flag([s4 EXCEPT !.rc = -1], <<"not-reconnected-after-the-broker-is-back">>, k)
              ELSE [s4 EXCEPT !.rc = @ + 1]
    IN s5
  ELSE st
(* poll priorities after the event: only a delivered get with ?N on an active read message sets one *)
PrioJudge(w, st0, st, ev, o, k) ==
  LET ins == SelectSeq(o.outs, LAMBDA x : x.k = "in")
      delivered == {i \in DOMAIN st0.q : \E j \in DOMAIN ins : InTopic(w, st0.q[i]) = ins[j].t /\ st0.q[i].pl = ins[j].p}
      setFor(m) == {PollArg(st0.q[i].a) : i \in {j \in delivered : st0.q[j].d = T_get /\ Resolve(w, Bases(w)[st0.q[j].b], FALSE) = m /\ PollArg(st0.q[j].a) \in 1..9}}
      okm(m) == IF ev.e = "M" /\ w.msgs[m].k = "r" /\ setFor(m) # {} THEN o.pr[m] \in setFor(m) ELSE o.pr[m] = st.pr[m]
      s1 == IF \A m \in Msgs(w) : okm(m) THEN st ELSE Flag(st, <<"poll-priority">>, k)
  IN [s1 EXCEPT !.pr = [m \in Msgs(w) |-> o.pr[m]], !.sg = o.sg, !.once = {mf \in @ : o.pr[mf[1]] = st.pr[mf[1]]}]
RECURSIVE PFold(_, _, _, _, _)
PFold(w, st, evs, obs, k) ==
  IF k > Len(evs) THEN st
  ELSE LET s1 == PEvent(w, st, evs[k], obs[k + 1], k) IN PFold(w, PrioJudge(w, st, s1, evs[k], obs[k + 1], k), evs, obs, k + 1)
(* obs[1] is what happened while the daemon started (last will ...); obs[k+1] belongs to event k.  At the end of a session   *)
(* (every generated session ends with a drain: tick, feed, iteration, twice) nothing that had to be published is pending.   *)
PRun(w, evs, obs) ==
  LET st == PFold(w, PInit(w), evs, obs, 1)
      lost == {m \in Msgs(w) : st.req[m]}
      s1 == IF lost # {} THEN Flag(st, <<"update-not-published">>, Len(evs)) ELSE st
      undefd == {mf \in UNION {{<<m, f>> : f \in Flds(w, m)} : m \in Msgs(w)} : DefMust(w, s1, mf[1]) /\ mf \notin s1.defd}
      s2 == IF w.o.int > 0 /\ s1.conn = 1 /\ undefd # {} THEN Flag(s1, <<"definition", "missing">>, Len(evs)) ELSE s1
      s3 == IF w.o.int > 0 /\ s2.conn = 1 /\ s2.gdef # GlobalNames THEN Flag(s2, <<"definition", "global", "missing">>, Len(evs)) ELSE s2
  IN s3.bad
(***************************************************************************)
(* Part S - the handler as coded                                            *)
(*  One operator per event, transcribed from MqttHandler::run /              *)
(*  notifyMqttStatus / notifyMqttTopic / publishMessage, DataSink::            *)
(*  notifyUpdate, the sink feed and the periodic tasks of MainLoop::run,        *)
(*  Message::storeLastData / prepareMaster, StringReplacer::match, and the      *)
(*  fake client of the harness (its contract follows MqttClientMosquitto).      *)
(*  Times are absolute seconds (BASE = start); 0 = never.                       *)
(***************************************************************************)
BASE == 1000
OPub(tx, p, r, q, e) == [k |-> "pub", t |-> tx, p |-> p, r |-> r, q |-> q, e |-> e]
OSub(tx) == [k |-> "sub", t |-> tx, p |-> <<>>, r |-> 0, q |-> 0, e |-> 0]
OBus(tx, p) == [k |-> "bus", t |-> tx, p |-> p, r |-> 0, q |-> 0, e |-> 0]
OIn(tx, p, n) == [k |-> "in", t |-> tx, p |-> p, r |-> n, q |-> 0, e |-> 0]
ORun(c0, c1, ack) == [k |-> "run", t |-> <<>>, p |-> <<>>, r |-> c0, q |-> c1, e |-> ack]
B2N(x) == IF x THEN 1 ELSE 0
AllFixes == {"version-flags", "empty-qos", "changed-window", "publish-once", "scan-connected", "short-keys", "global-prefix",
             "set-needs-write", "store-after-send", "match-all", "global-def-field"}
SGlobalHasName(o) == o.gl = <<>> \/ HasVar(o.x.gp, 2) \/ "global-prefix" \in FIX
SGlobal(o, x) == IF o.gl = <<>> THEN Prefix(o) \o T_globalS \o x
                 ELSE LET gp == o.x.gp IN IF HasVar(gp, 2) THEN Subst(gp, T_global, x, <<>>)
                                                               ELSE Subst(Before(gp, 2), T_global, <<>>, <<>>) \o (IF "global-prefix" \in FIX THEN x ELSE <<>>)
SQ(o, tx) == IF o.js = "n" THEN tx ELSE Quote(tx)
T_versionText == <<101, 98, 117, 115, 100, 32, 120>>    \* "ebusd x": the real text is open, the comparison ignores it
(* publishTopic(topic, data, retain) / publishEmptyTopic(topic) of the handler *)
SPub(o, tx, p, retain) == OPub(tx, p, IF o.ret = 1 \/ retain THEN 1 ELSE 0, o.qos, 0)
SPubEmpty(o, tx) == OPub(tx, <<>>, o.ret, IF "empty-qos" \in FIX THEN o.qos ELSE 0, 1)

SInit(w) == [a |-> BASE, ms |-> [m \in Msgs(w) |-> [lu |-> 0, lc |-> 0, data |-> <<>>, pr |-> 0, sl |-> FALSE, cnt |-> 0, nl |-> 0, dp |-> 0, uc |-> 0, ct |-> BASE, dh |-> 0]],
             sink |-> 1, upd |-> {}, conn |-> 1 - w.brokerdown,
             cl |-> [up |-> 1 - w.brokerdown, ack |-> 1 - w.brokerdown, lost |-> 0, subs |-> <<>>], q |-> <<>>,
             defs |-> 0, ltr |-> BASE, allowRe |-> FALSE, sig |-> FALSE, scanst |-> 0, mlt |-> BASE, reload |-> TRUE, hs |-> 1 - w.nosig]
SStartOuts(w) == <<[k |-> "will", t |-> SGlobal(w.o, T_running), p |-> T_false, r |-> 1, q |-> 0, e |-> 0]>>

(* Message::storeLastData(slave) and (master, for write messages) *)
StoreSlave(mr, a, v) == [mr EXCEPT !.uc = @ + 1, !.lu = a, !.lc = IF mr.data # v THEN a ELSE @, !.data = v]
StoreMasterW(mr, a, v) == [mr EXCEPT !.uc = @ + 1, !.lu = a, !.lc = IF mr.data # v THEN a ELSE @, !.data = v]
StoreSlaveW(mr, a) == [mr EXCEPT !.lu = a, !.lc = IF mr.sl THEN @ ELSE a, !.sl = TRUE]

(* BusHandler::notifyProtocolMessage -> MessageMap::invalidateCache: every completed telegram of a message forgets the update time *)
(* of the other messages of the same circuit and name (its read / write / passive pendants)                                *)
SInvalidate(w, s, m) == [s EXCEPT !.ms = [x \in Msgs(w) |-> IF x # m /\ w.msgs[x].c = w.msgs[m].c /\ w.msgs[x].n = w.msgs[m].n
                                                             THEN [s.ms[x] EXCEPT !.lu = 0] ELSE s.ms[x]]]

(* ---- payloads as coded (compared modulo white space) ---- *)
SFieldPlain(o, fd, x) == (IF o.verb = 1 THEN fd.n \o <<61>> ELSE <<>>) \o FieldText(fd, x) \o (IF o.verb = 1 /\ fd.u # <<>> THEN <<32>> \o fd.u ELSE <<>>)
SFieldObj(o, fd, x) == T_jvalue \o FieldJson(fd, x) \o (IF o.verb = 1 /\ fd.u # <<>> THEN <<44, 34, 117, 110, 105, 116, 34, 58>> \o Quote(fd.u) ELSE <<>>) \o <<125>>
SPayload(w, m, data) ==
  LET o == w.o
      md == w.msgs[m]
      body == IF o.js = "n" THEN Join([f \in DOMAIN md.fl |-> SFieldPlain(o, md.fl[f], data[f])], <<59>>)
              ELSE IF o.js = "j" THEN Join([f \in DOMAIN md.fl |-> Quote(md.fl[f].n) \o <<58>> \o SFieldObj(o, md.fl[f], data[f])], <<44>>)
              ELSE Join([f \in DOMAIN md.fl |-> Quote(IF "short-keys" \in FIX THEN md.fl[f].n ELSE Dec(f - 1)) \o <<58>> \o FieldJson(md.fl[f], data[f])], <<44>>)
  IN IF o.js = "n" THEN (IF Static(o) THEN md.c \o <<59>> \o md.n \o <<59>> ELSE <<>>) \o body
     ELSE <<123>> \o (IF Static(o) THEN T_jcircuit \o Quote(md.c) \o <<44>> \o T_jname \o Quote(md.n) \o <<44, 34, 102, 105, 101, 108, 100, 115, 34, 58, 123>> ELSE <<>>)
          \o body \o (IF Static(o) THEN <<125>> ELSE <<>>) \o <<125>>
SFieldPayload(w, m, f, data) ==
  LET o == w.o
      fd == w.msgs[m].fl[f]
  IN IF o.js = "n" THEN SFieldPlain(o, fd, data[f]) ELSE IF o.verb = 1 THEN SFieldObj(o, fd, data[f]) ELSE FieldJson(fd, data[f])
(* MqttHandler::publishMessage *)
SPublishMessage(w, s, m, inclNoData) ==
  LET o == w.o
      mr == s.ms[m]
      noData == inclNoData /\ mr.lu = 0
  IN IF ~ByField(o) THEN (IF noData THEN <<SPubEmpty(o, PubTopic(w, m, 0))>>
                          ELSE IF mr.data = <<>> THEN <<>>
                          ELSE <<SPub(o, PubTopic(w, m, 0), SPayload(w, m, mr.data), FALSE)>>)
     ELSE IF noData THEN [f \in Flds(w, m) |-> SPubEmpty(o, PubTopic(w, m, f))]
     ELSE IF mr.data = <<>> THEN <<>>
     ELSE [f \in Flds(w, m) |-> SPub(o, PubTopic(w, m, f), SFieldPayload(w, m, f, mr.data), FALSE)]

(* ---- StringReplacer::match ---- *)
SAssign(acc, v, tx) == IF v = 1 THEN [acc EXCEPT !.c = tx] ELSE IF v = 2 THEN [acc EXCEPT !.n = tx] ELSE IF v = 3 THEN [acc EXCEPT !.f = tx] ELSE acc
Min2(x, y) == IF x < y THEN x ELSE y
RECURSIVE SMatch(_, _, _, _, _)
SMatch(parts, str, idx, last, acc) ==
  IF idx > Len(parts) THEN (IF "match-all" \in FIX /\ last < Len(str) THEN [c |-> <<>>, n |-> <<>>, f |-> <<>>] ELSE acc)
  ELSE LET part == parts[idx] IN
    IF part.v = 0 THEN
      IF SubSeq(str, last + 1, Min2(Len(str), last + Len(part.s))) # part.s THEN acc
      ELSE SMatch(parts, str, idx + 1, last + Len(part.s), acc)
    ELSE IF idx < Len(parts) THEN
      LET pos == IndexOf(str, parts[idx + 1].s, last + 1)
      IN IF pos = 0 THEN SAssign(acc, part.v, SubSeq(str, last + 1, Len(str)))
         ELSE SMatch(parts, str, idx + 1, pos - 1, SAssign(acc, part.v, SubSeq(str, last + 1, pos - 1)))
    ELSE IF IndexOf(str, <<47>>, last + 1) > 0 THEN acc
    ELSE SAssign(acc, part.v, SubSeq(str, last + 1, Len(str)))
Contains(tx, p) == p = <<>> \/ IndexOf(tx, p, 1) > 0
SFind(w, c, n, kind) == LET ms == {m \in Msgs(w) : w.msgs[m].c = c /\ w.msgs[m].n = n /\ w.msgs[m].k = kind} IN IF ms = {} THEN 0 ELSE CHOOSE m \in ms : \A x \in ms : m <= x
LastIndexOf(tx, c) == LET ks == {k \in DOMAIN tx : tx[k] = c} IN IF ks = {} THEN 0 ELSE CHOOSE k \in ks : \A j \in ks : j <= k

(* BusHandler::readFromBus on the stepped protocol handler with the scripted slave: [s, outs, ok] *)
SReadFromBus(w, s, m, input) ==
  LET md == w.msgs[m]
  IN IF md.k = "w" THEN
       LET xs == SetValues(md, input)
       IN IF xs = <<-1>> THEN [s |-> s, outs |-> <<>>, ok |-> FALSE]
          ELSE LET s1 == [s EXCEPT !.ms[m] = StoreMasterW(@, s.a, xs)]
               IN IF s.hs = 0 THEN [s |-> IF "store-after-send" \in FIX THEN s ELSE s1, outs |-> <<>>, ok |-> FALSE]
                  ELSE [s |-> [SInvalidate(w, s1, m) EXCEPT !.ms[m] = StoreSlaveW(@, s.a)], outs |-> <<OBus(WriteTelegram(md, xs), <<>>)>>, ok |-> TRUE]
     ELSE IF s.hs = 0 THEN [s |-> s, outs |-> <<>>, ok |-> FALSE]
     ELSE LET ans == [md.ans EXCEPT ![1] = (@ + s.ms[m].cnt) % 256]
          IN [s |-> [SInvalidate(w, s, m) EXCEPT !.ms[m] = [StoreSlave(@, s.a, ans) EXCEPT !.cnt = @ + 1]], outs |-> <<OBus(ReadTelegram(md), ans)>>, ok |-> TRUE]

(* MqttHandler::notifyMqttTopic: [s, outs] *)
SIncoming(w, s, topic, data) ==
  LET nothing == [s |-> s, outs |-> <<>>]
      slash == LastIndexOf(topic, 47)
      dir0 == SubSeq(topic, slash + 1, Len(topic))
      mt == SubSeq(topic, 1, slash - 1)
      qpos == IndexOf(dir0, <<63>>, 1)
      args == IF qpos > 0 THEN SubSeq(dir0, qpos + 1, Len(dir0)) ELSE <<>>
      dir == IF qpos > 0 THEN SubSeq(dir0, 1, qpos - 1) ELSE dir0
      restartTopic == Prefixn(w.o) \o T_cfgS \o T_restart
  IN IF slash = 0 THEN nothing
     ELSE IF w.o.int > 0 /\ topic = restartTopic THEN [s |-> [s EXCEPT !.defs = 0], outs |-> <<>>]
     ELSE IF dir0 = <<>> \/ dir \notin {T_set, T_list, T_get} THEN nothing
     ELSE LET mr == SMatch(Tpl(w.o), mt, 1, 0, [c |-> <<>>, n |-> <<>>, f |-> <<>>])
     IN IF dir = T_list THEN
          LET cp == mr.c # <<>> /\ Last(mr.c) = 42
              c == IF cp THEN Front(mr.c) ELSE mr.c
              np == mr.n # <<>> /\ Last(mr.n) = 42
              n == IF np THEN Front(mr.n) ELSE mr.n
              found(m) == LET md == w.msgs[m] IN
                          IF cp \/ np THEN Contains(md.c, c) /\ Contains(md.n, n) ELSE (c = <<>> \/ md.c = c) /\ (n = <<>> \/ md.n = n)
              skip(m) == LET md == w.msgs[m] IN
                         \/ cp /\ (~StartsWith(md.c, c) \/ (~np /\ n # <<>> /\ md.n # n))
                         \/ np /\ (~StartsWith(md.n, n) \/ (~cp /\ c # <<>> /\ md.c # c))
                         \/ data # <<>> /\ s.ms[m].lu = 0
              sel == {m \in Msgs(w) : found(m) /\ ~skip(m)}
              RECURSIVE pubs(_)
              pubs(ms) == IF ms = {} THEN <<>> ELSE LET m == CHOOSE x \in ms : \A y \in ms : x <= y IN SPublishMessage(w, s, m, TRUE) \o pubs(ms \ {m})
          IN [s |-> s, outs |-> pubs(sel)]
        ELSE IF mr.n = <<>> THEN nothing
        ELSE LET isW == dir = T_set
                 m1 == SFind(w, mr.c, mr.n, IF isW THEN "w" ELSE "r")
                 m == IF m1 # 0 THEN m1 ELSE IF isW /\ "set-needs-write" \in FIX THEN 0 ELSE SFind(w, mr.c, mr.n, "u")
             IN IF m = 0 THEN nothing
                ELSE IF w.msgs[m].k = "u" THEN [s |-> s, outs |-> SPublishMessage(w, s, m, FALSE)]
                ELSE LET prio == ParseDec(args)
                         s1 == IF args # <<>> /\ prio \in 1..9 /\ prio # s.ms[m].pr THEN [s EXCEPT !.ms[m].pr = prio, !.ms[m].ct = s.a] ELSE s
                         rb == SReadFromBus(w, s1, m, data)
                     IN IF ~rb.ok THEN [s |-> rb.s, outs |-> rb.outs]
                        ELSE [s |-> [rb.s EXCEPT !.ms[m].dp = rb.s.ms[m].uc], outs |-> rb.outs \o SPublishMessage(w, rb.s, m, FALSE)]
RECURSIVE SDeliver(_, _, _, _, _)
SDeliver(w, s, q, n, outs) ==
  IF q = <<>> THEN [s |-> s, outs |-> outs]
  ELSE LET x == Head(q) IN
    IF ~\E i \in DOMAIN s.cl.subs : FilterCovers(s.cl.subs[i], x.t) THEN SDeliver(w, s, Tail(q), n, outs)
    ELSE LET r == SIncoming(w, s, x.t, x.p) IN SDeliver(w, r.s, Tail(q), n + 1, outs \o <<OIn(x.t, x.p, n)>> \o r.outs)

(* MainLoop::run: periodic tasks, then the sink feed (DataSink::notifyUpdate) *)
SMainLoop(w, s) ==
  LET o == w.o
      due == s.a > s.mlt + 5
      fire == due /\ s.reload /\ s.hs = 1
      outs == IF fire /\ s.scanst # 2 /\ SGlobalHasName(o) /\ ("scan-connected" \notin FIX \/ s.conn = 1) THEN <<SPub(o, SGlobal(o, T_scan), SQ(o, T_finished), TRUE)>> ELSE <<>>
      found == {m \in Msgs(w) : s.ms[m].lu >= s.sink /\ s.ms[m].lu < s.a}
      add == {m \in found : o.chg = 0 \/ (IF "changed-window" \in FIX THEN s.ms[m].lc > s.ms[m].nl ELSE s.ms[m].lc >= s.sink)}
      s0 == [s EXCEPT !.ms = [m \in Msgs(w) |-> IF m \in found THEN [s.ms[m] EXCEPT !.nl = s.ms[m].lc] ELSE s.ms[m]]]
  IN [s |-> [s0 EXCEPT !.mlt = IF due THEN s.a ELSE @, !.reload = IF fire THEN FALSE ELSE @, !.scanst = IF fire THEN 2 ELSE @,
                      !.upd = @ \cup add, !.sink = s.a], outs |-> outs]

(* one iteration of MqttHandler::run, starting inside the fake client's run() *)
SIterate(w, s) ==
  LET o == w.o
      was == s.conn
      c0 == s.cl
      down == c0.up = 0 \/ c0.lost = 1
      (* --- the fake client --- *)
      r1 == IF down /\ s.conn = 1 THEN [s |-> [s EXCEPT !.conn = 0, !.cl = [@ EXCEPT !.lost = 0, !.ack = 0, !.subs = <<>>], !.q = <<>>], outs |-> <<ORun(1, 0, 0)>>]
            ELSE IF down /\ c0.up = 0 THEN [s |-> [s EXCEPT !.cl = [@ EXCEPT !.lost = 0, !.ack = 0, !.subs = <<>>], !.q = <<>>], outs |-> <<ORun(0, 0, 0)>>]
            ELSE LET cl1 == IF down THEN [c0 EXCEPT !.lost = 0, !.ack = 0, !.subs = <<>>] ELSE c0
                 IN IF s.conn = 0 THEN
                      LET c1 == IF s.allowRe THEN 1 ELSE 0
                      IN [s |-> [s EXCEPT !.conn = c1, !.cl = [cl1 EXCEPT !.ack = IF c1 = 1 THEN 1 ELSE @], !.q = <<>>], outs |-> <<ORun(0, c1, 0)>>]
                    ELSE
                      LET ackOuts == IF cl1.ack = 1
                                       THEN (IF SGlobalHasName(o) THEN <<IF "version-flags" \in FIX THEN SPub(o, SGlobal(o, T_version), SQ(o, T_versionText), TRUE) ELSE OPub(SGlobal(o, T_version), SQ(o, T_versionText), 0, 1, 0)>> ELSE <<>>)
                                            \o <<SPub(o, SGlobal(o, T_running), T_true, TRUE)>>
                                            \o (IF Static(o) THEN <<>> ELSE <<OSub(Prefix(o) \o <<35>>)>> \o (IF o.int > 0 THEN <<OSub(Prefixn(o) \o T_cfgS \o T_restart)>> ELSE <<>>))
                                     ELSE <<>>
                          subs1 == IF cl1.ack = 1 /\ ~Static(o) THEN cl1.subs \o <<Prefix(o) \o <<35>>>> \o (IF o.int > 0 THEN <<Prefixn(o) \o T_cfgS \o T_restart>> ELSE <<>>) ELSE cl1.subs
                          s1 == [s EXCEPT !.cl = [cl1 EXCEPT !.ack = 0, !.subs = subs1], !.q = <<>>]
                          dl == SDeliver(w, s1, s.q, 1, <<>>)
                      IN [s |-> dl.s, outs |-> <<ORun(1, 1, cl1.ack)>> \o ackOuts \o dl.outs]
      s2 == r1.s
      reconnected == was = 0 /\ s2.conn = 1
      due == s2.a > s2.ltr + 15
      up == IF due /\ s2.conn = 1 /\ SGlobalHasName(o) THEN <<SPub(o, SGlobal(o, T_uptime), Dec(s2.a - BASE), FALSE)>> ELSE <<>>
      (* --- definitions (integration file) --- *)
      doDefs == due /\ s2.conn = 1 /\ o.int > 0
      gItems == <<T_running>> \o (IF SGlobalHasName(o) THEN <<T_version, T_signal, T_uptime, T_updatecheck, T_scan>> ELSE <<>>)
      gdefs == IF doDefs /\ s2.defs = 0
                 THEN [i \in DOMAIN gItems |-> SPub(o, Prefixn(o) \o T_cfgS \o T_globalS \o (IF "global-def-field" \in FIX THEN gItems[i] ELSE <<>>),
                                                    SGlobal(o, gItems[i]) \o <<124>> \o (IF "global-def-field" \in FIX THEN gItems[i] ELSE <<>>), FALSE)] ELSE <<>>
      since == IF doDefs /\ s2.defs = 0 THEN 1 ELSE s2.defs
      fseen == FilterSeen(o)
      inclW == o.int = 1
      passes(m) == LET md == w.msgs[m]
                       mr == s2.ms[m]
                       asPassive == ~inclW /\ md.k = "w"
                   IN IF fseen > 0 THEN /\ ~(mr.lu = 0 /\ (md.k = "u" \/ asPassive \/ md.k = "r"))
                                        /\ ~(mr.dh = 1 /\ since > 1 /\ mr.ct <= since)
                      ELSE ~(mr.ct <= since)
      defMsgs == IF doDefs THEN {m \in Msgs(w) : passes(m)} ELSE {}
      RECURSIVE defPubs(_)
      defPubs(ms) == IF ms = {} THEN <<>>
                     ELSE LET m == CHOOSE y \in ms : \A z \in ms : y <= z
                              md == w.msgs[m]
                              dirn == IF ~inclW /\ md.k = "w" THEN <<117, 119>> ELSE DirectionOf(md)
                          IN [f \in DOMAIN md.fl |-> SPub(o, DefTopic(w, m, f), Join(<<PubTopic(w, m, f), md.c, md.n, md.fl[f].n, TypeOf(md.fl[f]), dirn>>, <<124>>), TRUE)]
                             \o defPubs(ms \ {m})
      defOuts == defPubs(defMsgs)
      defUpd == IF fseen > 0 THEN {m \in defMsgs : s2.ms[m].lu > s2.ms[m].ct} ELSE {}
      sendSignal == reconnected \/ (due /\ s2.conn = 1)
      sigPub == IF ~sendSignal THEN <<>>
                ELSE IF s2.hs = 1 THEN (IF (~s2.sig \/ reconnected) /\ SGlobalHasName(o) THEN <<SPub(o, SGlobal(o, T_signal), T_true, TRUE)>> ELSE <<>>)
                ELSE (IF (s2.sig \/ reconnected) /\ SGlobalHasName(o) THEN <<SPub(o, SGlobal(o, T_signal), T_false, TRUE)>> ELSE <<>>)
      sig1 == IF sendSignal THEN s2.hs = 1 ELSE s2.sig
      RECURSIVE flush(_)
      flush(ms) == IF ms = {} THEN <<>> ELSE LET m == CHOOSE x \in ms : \A y \in ms : x <= y
                                             IN (IF s2.ms[m].lc > 0 /\ ~("publish-once" \in FIX /\ s2.ms[m].dp = s2.ms[m].uc) THEN SPublishMessage(w, s2, m, FALSE) ELSE <<>>) \o flush(ms \ {m})
      upd2 == s2.upd \cup defUpd
      fl == IF s2.conn = 1 THEN flush(upd2) ELSE <<>>
      ms0 == [m \in Msgs(w) |-> IF m \in defMsgs /\ fseen > 0 THEN [s2.ms[m] EXCEPT !.dh = 1] ELSE s2.ms[m]]
      ms1 == IF s2.conn = 1 THEN [m \in Msgs(w) |-> IF m \in upd2 /\ ms0[m].lc > 0 THEN [ms0[m] EXCEPT !.dp = ms0[m].uc] ELSE ms0[m]] ELSE ms0
  IN [s |-> [s2 EXCEPT !.allowRe = due, !.ltr = IF due THEN s2.a ELSE @, !.sig = sig1, !.upd = {}, !.ms = ms1,
                       !.defs = IF doDefs THEN s2.a + 1 ELSE @],
      outs |-> r1.outs \o up \o gdefs \o defOuts \o sigPub \o fl]

SEvent(w, s, ev) ==
  IF ev.e = "T" THEN [s |-> [s EXCEPT !.a = @ + ev.n], outs |-> <<>>]
  ELSE IF ev.e = "U" THEN [s |-> [SInvalidate(w, s, ev.m) EXCEPT !.ms[ev.m] = StoreSlave(@, s.a, ev.v), !.hs = 1], outs |-> <<>>]
  ELSE IF ev.e = "F" THEN SMainLoop(w, s)
  ELSE IF ev.e = "R" THEN LET r1 == SMainLoop(w, s)
                              rb == SReadFromBus(w, r1.s, ev.m, <<>>)
                          IN [s |-> rb.s, outs |-> r1.outs \o rb.outs]
  ELSE IF ev.e = "I" THEN [s |-> [s EXCEPT !.q = Append(@, [t |-> InTopic(w, ev), p |-> ev.pl])], outs |-> <<>>]
  ELSE IF ev.e = "D" THEN [s |-> [s EXCEPT !.cl = [@ EXCEPT !.up = 0, !.lost = 1]], outs |-> <<>>]
  ELSE IF ev.e = "B" THEN [s |-> [s EXCEPT !.cl = [@ EXCEPT !.up = 1]], outs |-> <<>>]
  ELSE IF ev.e = "M" THEN SIterate(w, s)
  ELSE [s |-> s, outs |-> <<>>]

(* comparison with a record of the real code: the outputs of an event as a bag, payloads modulo white space, the version text open *)
SNorm(w, x) == [k |-> x.k, t |-> x.t, p |-> IF x.k = "pub" /\ SGlobalHasName(w.o) /\ x.t = SGlobal(w.o, T_version) THEN <<>> ELSE IF x.k = "pub" THEN Strip(x.p) ELSE x.p,
                r |-> x.r, q |-> x.q, e |-> x.e]
BagEq(xs, ys) == /\ Len(xs) = Len(ys)
                 /\ \A i \in DOMAIN xs : Cardinality({j \in DOMAIN xs : xs[j] = xs[i]}) = Cardinality({j \in DOMAIN ys : ys[j] = xs[i]})
SAgrees(w, s, outs, o) ==
  /\ BagEq([i \in DOMAIN outs |-> SNorm(w, outs[i])], [i \in DOMAIN o.outs |-> SNorm(w, o.outs[i])])
  /\ \A m \in Msgs(w) : o.pr[m] = s.ms[m].pr
  /\ o.sg = s.hs
RECURSIVE SFold(_, _, _, _, _)
SFold(w, s, evs, obs, k) ==
  IF k > Len(evs) THEN 0
  ELSE LET r == SEvent(w, s, evs[k]) IN IF SAgrees(w, r.s, r.outs, obs[k + 1]) THEN SFold(w, r.s, evs, obs, k + 1) ELSE k
(* 0 = the model reproduces the record; k = first event at which it differs (Len + 1: the start) *)
SRun(w, evs, obs) == IF ~SAgrees(w, SInit(w), SStartOuts(w), obs[1]) THEN Len(evs) + 1 ELSE SFold(w, SInit(w), evs, obs, 1)
=============================================================================
