------------------------------- MODULE BigDec -------------------------------
(* Arbitrary-precision arithmetic on digit sequences (TLC integers are 32 bit).            *)
(* A natural ("N") is a sequence of decimal digits, LEAST significant first, without high   *)
(* zeros; <<>> is 0.  A signed integer ("S") is [n |-> negative?, m |-> N] with +0 only.     *)
(* Used by WriteSafe (C07): 25-digit inputs, 2^64 neighbours, IEEE-754 values as exact      *)
(* decimals.  No machine integer wider than a digit product (< 2^31) is ever formed.        *)
EXTENDS Naturals, Integers, Sequences

Rev(s) == [i \in 1..Len(s) |-> s[Len(s) + 1 - i]]

RECURSIVE Trim(_)
Trim(s) == IF s # <<>> /\ s[Len(s)] = 0 THEN Trim(SubSeq(s, 1, Len(s) - 1)) ELSE s

TailE(s) == IF s = <<>> THEN <<>> ELSE Tail(s)
HeadE(s) == IF s = <<>> THEN 0 ELSE Head(s)

RECURSIVE AddC(_, _, _)
AddC(a, b, c) ==
  IF a = <<>> /\ b = <<>> THEN (IF c = 0 THEN <<>> ELSE <<c>>)
  ELSE LET s == HeadE(a) + HeadE(b) + c IN <<s % 10>> \o AddC(TailE(a), TailE(b), s \div 10)
NAdd(a, b) == AddC(a, b, 0)

RECURSIVE SubB(_, _, _)
SubB(a, b, br) ==   \* requires a >= b
  IF a = <<>> THEN <<>>
  ELSE LET d == Head(a) - HeadE(b) - br IN
       <<(d + 10) % 10>> \o SubB(Tail(a), TailE(b), IF d < 0 THEN 1 ELSE 0)
NSub(a, b) == Trim(SubB(a, b, 0))

RECURSIVE MulC(_, _, _)
MulC(a, m, c) ==     \* m < 2^27 so that 9*m + carry < 2^31
  IF a = <<>> THEN (IF c = 0 THEN <<>> ELSE <<c % 10>> \o MulC(<<>>, m, c \div 10))
  ELSE LET p == Head(a) * m + c IN <<p % 10>> \o MulC(Tail(a), m, p \div 10)
NMul(a, m) == IF m = 0 THEN <<>> ELSE MulC(a, m, 0)

NShift(a, k) == IF a = <<>> \/ k = 0 THEN a ELSE [i \in 1..k |-> 0] \o a     \* a * 10^k

NCmp(a, b) ==        \* -1, 0, 1
  IF Len(a) # Len(b) THEN (IF Len(a) < Len(b) THEN -1 ELSE 1)
  ELSE LET D == {i \in 1..Len(a) : a[i] # b[i]} IN
       IF D = {} THEN 0
       ELSE LET k == CHOOSE x \in D : \A y \in D : y <= x IN IF a[k] < b[k] THEN -1 ELSE 1
NLeq(a, b) == NCmp(a, b) <= 0

(* division of an N by a small m (m * 10 < 2^31): quotient N and remainder (machine int) *)
RECURSIVE DivR(_, _, _, _)
DivR(a, m, i, r) ==  \* i runs from Len(a) down to 1; result is <<quotient digits LS first, remainder>>
  IF i = 0 THEN <<<<>>, r>>
  ELSE LET x == r * 10 + a[i]
           rest == DivR(a, m, i - 1, x % m)
       IN <<rest[1] \o <<x \div m>>, rest[2]>>
NDiv(a, m) == Trim(DivR(a, m, Len(a), 0)[1])
NMod(a, m) == DivR(a, m, Len(a), 0)[2]

NOfInt(k) == LET RECURSIVE F(_)
                 F(x) == IF x = 0 THEN <<>> ELSE <<x % 10>> \o F(x \div 10)
             IN F(k)
NOfMsb(ds) == Trim(Rev(ds))            \* digits most significant first -> N
MsbOf(a) == IF a = <<>> THEN <<0>> ELSE Rev(a)

RECURSIVE PowTabR(_, _, _)
PowTabR(b, k, acc) == IF k = 0 THEN acc ELSE PowTabR(b, k - 1, Append(acc, NMul(acc[Len(acc)], b)))
Pow2Tab == PowTabR(2, 160, << <<1>> >>)      \* evaluated once (zero-arity definitions are cached by TLC)
Pow5Tab == PowTabR(5, 160, << <<1>> >>)
Pow2(k) == Pow2Tab[k + 1]
Pow5(k) == Pow5Tab[k + 1]
Pow10(k) == NShift(<<1>>, k)

(* base-256 / base-16 folds, most significant element first *)
RECURSIVE NFold(_, _, _)
NFold(ds, base, acc) == IF ds = <<>> THEN acc ELSE NFold(Tail(ds), base, NAdd(NMul(acc, base), NOfInt(Head(ds))))
NOfBase(ds, base) == NFold(ds, base, <<>>)

(* hexadecimal digits (values 0..15), most significant first, of an N *)
RECURSIVE HexR(_)
HexR(a) == IF a = <<>> THEN <<>> ELSE HexR(NDiv(a, 16)) \o <<NMod(a, 16)>>
HexOf(a) == IF a = <<>> THEN <<0>> ELSE HexR(a)

(* ---------------------------------------------------------------- signed ---------------- *)
SZero == [n |-> FALSE, m |-> <<>>]
SMk(neg, mag) == IF mag = <<>> THEN SZero ELSE [n |-> neg, m |-> mag]
SNat(a) == SMk(FALSE, a)
SInt(k) == IF k < 0 THEN SMk(TRUE, NOfInt(-k)) ELSE SMk(FALSE, NOfInt(k))
SNeg(x) == SMk(~x.n, x.m)
SAbs(x) == SMk(FALSE, x.m)
SAdd(x, y) ==
  IF x.n = y.n THEN SMk(x.n, NAdd(x.m, y.m))
  ELSE LET c == NCmp(x.m, y.m) IN
       IF c = 0 THEN SZero ELSE IF c > 0 THEN SMk(x.n, NSub(x.m, y.m)) ELSE SMk(y.n, NSub(y.m, x.m))
SSub(x, y) == SAdd(x, SNeg(y))
SCmp(x, y) ==
  IF x.n # y.n THEN (IF x.n THEN -1 ELSE 1)
  ELSE IF x.n THEN NCmp(y.m, x.m) ELSE NCmp(x.m, y.m)
SLeq(x, y) == SCmp(x, y) <= 0
SMul(x, k) == IF k < 0 THEN SMk(~x.n, NMul(x.m, -k)) ELSE SMk(x.n, NMul(x.m, k))
SShift(x, k) == SMk(x.n, NShift(x.m, k))

(* ---------------------------------------------------------------- self test ------------- *)
BigDecLemmas ==
  /\ MsbOf(Pow2(64)) = <<1,8,4,4,6,7,4,4,0,7,3,7,0,9,5,5,1,6,1,6>>
  /\ MsbOf(NSub(Pow2(32), <<1>>)) = <<4,2,9,4,9,6,7,2,9,5>>
  /\ NAdd(NOfInt(999), NOfInt(1)) = NOfInt(1000)
  /\ NSub(NOfInt(1000), NOfInt(1)) = NOfInt(999)
  /\ NSub(NOfInt(77), NOfInt(77)) = <<>>
  /\ NMul(NOfInt(12345), 6789) = NOfInt(83810205)
  /\ NDiv(NOfInt(83810205), 6789) = NOfInt(12345) /\ NMod(NOfInt(83810206), 6789) = 1
  /\ NCmp(NOfInt(100), NOfInt(99)) = 1 /\ NCmp(NOfInt(98), NOfInt(99)) = -1 /\ NCmp(<<>>, <<>>) = 0
  /\ NOfBase(<<255, 255, 255, 255>>, 256) = NSub(Pow2(32), <<1>>)
  /\ HexOf(Pow2(32)) = <<1,0,0,0,0,0,0,0,0>>
  /\ HexOf(NOfInt(255)) = <<15, 15>>
  /\ SAdd(SInt(-5), SInt(3)) = SInt(-2) /\ SAdd(SInt(-5), SInt(5)) = SZero /\ SSub(SInt(3), SInt(5)) = SInt(-2)
  /\ SCmp(SInt(-5), SInt(3)) = -1 /\ SCmp(SInt(-5), SInt(-7)) = 1 /\ SCmp(SInt(4), SInt(4)) = 0
  /\ SMul(SInt(-5), -3) = SInt(15) /\ SShift(SInt(-5), 2) = SInt(-500)
  /\ \A a \in 0..40, b \in 0..40 :
        /\ NAdd(NOfInt(a), NOfInt(b)) = NOfInt(a + b)
        /\ (a >= b => NSub(NOfInt(a), NOfInt(b)) = NOfInt(a - b))
        /\ NMul(NOfInt(a), b) = NOfInt(a * b)
        /\ SCmp(SInt(a - 20), SInt(b - 20)) = (IF a < b THEN -1 ELSE IF a = b THEN 0 ELSE 1)
        /\ SAdd(SInt(a - 20), SInt(b - 20)) = SInt(a + b - 40)
=============================================================================
