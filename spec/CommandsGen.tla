----------------------------- MODULE CommandsGen -----------------------------
(* emits the worlds and sessions of Commands.tla as ndjson case files for harness/grow_commands.cpp *)
EXTENDS Commands, Json, IOUtils, SequencesExt
Tier == IOEnv.VF_TIER
ASSUME /\ ndJsonSerialize(IOEnv.VF_WORLDS, SetToSeq(Worlds(Tier)))
       /\ ndJsonSerialize(IOEnv.VF_SESSIONS, SetToSeq(Sessions(Tier)))
       /\ PrintT(<<"VF", "GEN", Cardinality(Worlds(Tier)), Cardinality(Sessions(Tier))>>)
VARIABLE x
Init == x = 0
Next == x' = x
=============================================================================
