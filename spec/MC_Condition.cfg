CONSTANTS
  Vals = {0, 1, 2, 3}
  MaxNow = 3
  GE = TRUE
INIT SInit
NEXT SNext
CONSTRAINT SConstraint
INVARIANT SImpliesP
