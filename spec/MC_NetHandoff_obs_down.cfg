CONSTANTS Variant = "down" Bug = "none"
SPECIFICATION FairSpec
INVARIANT McNoDangle
PROPERTY McDown
