------------------------------ MODULE ScanSelect ------------------------------
(* P for the scan-based choice of a configuration file ("--scanconfig"), for the file-name convention that carries    *)
(* it, and for the text form MASTER/SLAVE of an injected message.  Growth of the specification: no listed property   *)
(* is about this, every disagreement of the real code is reported as drift.                                           *)
(*                                                                                                                    *)
(* Sources (the repository's own statements, not the code paths):                                                     *)
(*  [S1] scan.cpp, comments in loadScanConfigFile:  "path: cfgpath/MANUFACTURER, prefix: ZZ., ident: C[C[C[C[C]]]],   *)
(*       SW: xxxx, HW: xxxx", "find files matching MANUFACTURER/ZZ.*csv in cfgpath", "complete name: cfgpath/         *)
(*       MANUFACTURER/ZZ[.C[C[C[C[C]]]]][.circuit][.suffix][.*][.SWxxxx][.HWxxxx][.*].csv", "remove trailing digit",  *)
(*       "IDENT mismatch", "found the right file. load the templates if necessary, then load the file itself",        *)
(*       "different from the scheme ZZ."                                                                              *)
(*  [S2] message.cpp, comment of extractDefaultsFromFilename: "ZZ.[ID.][*.][CIRCUIT.[?.]][*.][HW????.][*.][SW????.]   *)
(*       [*.]csv  ZZ is the address, ID is the 5 char identifier (reduced by trailing 0 one by one for finding a      *)
(*       match), CIRCUIT is the optional circuit name, ? behind the circuit name is the circuit number suffix,        *)
(*       ???? behind HW is the hardware version, ???? behind SW is the software version"                              *)
(*  [S3] ChangeLog: "allow invalid SW and HW fields and remove all but alpha-numeric chars and underscore from ident  *)
(*       when looking for scan config file"; "allow empty ID in filename for circuit and suffix extraction"; "allow   *)
(*       CSV file name to define default destination address and circuit name (format ZZ.CCCCC.csv)"; "insert index   *)
(*       suffix extracted from CSV file name when applying defaults (format ZZ.CCCCC[.index].csv)"                    *)
(*  [S4] scan.h: loadScanConfigFile "relativeFile the string in which the name of the configuration file is stored    *)
(*       on success"; collectConfigFiles "prefix the filename prefix the files have to match", "extension the         *)
(*       filename extension the files have to match", "dirs ... found directories"; parseMessage "onlyMasterSlave     *)
(*       true to parse only a MS message, false to also parse MM and BC message"                                      *)
(*  [S5] test_coverage.sh: identification 0a 99 "BBBBB" 3031 3031 at address 53 is served by the file                 *)
(*       153/53.bbbbb.csv (unknown manufacturer 0x99 -> decimal directory name, lower-case ident)                     *)
(*  [S6] main_args.cpp / mainloop.cpp usage texts: "inject QQZZPBSBNN[DD]*/[NN[DD]*]",                                *)
(*       e.g. "FF08070400/0AB5454850303003277201"                                                                     *)
(*  [S7] data.cpp getIdentFields: identification = MF (1 byte, manufacturer table of the eBUS specification),         *)
(*       ID (5 characters), SW, HW (2 bytes each, type PIN = 4 BCD digits, most significant first)                    *)
(*                                                                                                                    *)
(* The selection rule P (Admissible / NoneOk below):                                                                  *)
(*  R0  without a stored identification of at least 1+5+2+2 data bytes nothing is chosen                              *)
(*  R1  the directory is the lower-cased manufacturer name, or the decimal manufacturer number if it is unknown       *)
(*  R2  candidates are the regular files of that directory named  zz "." ... ".csv"  (zz = address, two lower-case    *)
(*      hex digits); directories, other extensions, other directories do not count                                    *)
(*  R3  a candidate matches when every constraint its name states holds: address, SWxxxx = decoded SW, HWxxxx =       *)
(*      decoded HW, ident = the normalised scan ident cut back by zero or more trailing digits                        *)
(*  R4  precedence: a longer matched ident beats a shorter one (none / empty = shortest)  [S2: "reduced one by one"]  *)
(*  R5  precedence among equally long idents: a candidate that states a strict superset of SW/HW constraints beats    *)
(*      the one that states fewer  (the specific file exists *because* the generic one does not fit that version).    *)
(*      R5 is the reading of "[.SWxxxx][.HWxxxx]" as refinements; the repository never says it in words - a           *)
(*      disagreement with R5 is reported under its own class so that it can be told apart.                            *)
(*  R6  on success the chosen relative file MANUFACTURER/name is returned; if no candidate matches the result is an   *)
(*      error and the output string is left alone                                                                     *)
(*  R7  together with the chosen file the manufacturer's common files ( *.csv not of the scheme "ZZ.", not             *)
(*      _templates.csv) are loaded                                                                                    *)
(* Left open (documentation silent), anything is accepted:                                                            *)
(*  O1  which of several non-dominated matching candidates is taken (equal ident length, SW/HW sets equal or          *)
(*      incomparable; names differing only in circuit / suffix / extra segments)                                      *)
(*  O2  SW / HW bytes that are not BCD against a file that states that version ("allow invalid SW and HW fields"      *)
(*      only promises that the lookup goes on)                                                                        *)
(*  O3  names outside the convention: a first segment of more than 5 characters, an upper-case ident, two SW or two   *)
(*      HW segments, a version segment in front of ident / circuit / suffix, "SW"/"HW" + 4 characters that are not    *)
(*      digits  (an upper-case hex address or ".CSV" is simply no candidate, R2)                                       *)
(*  O4  [S2] says "trailing 0", [S1] says "trailing digit": P follows [S1] (any digit); DigitOpen = TRUE leaves a      *)
(*      match through a non-zero digit open instead                                                                    *)
(*  O5  a master address (scan.h: "either master for broadcast master data or slave"; the map has no scan message     *)
(*      for masters)                                                                                                  *)
(*  O6  the manufacturer byte 0xff (the "no value" of the byte type) is not enumerated                                *)
(*  O7  a definition without circuit in a file whose name gives neither ident nor circuit (ChangeLog: "use scan ID as *)
(*      fallback for default circuit name"; the pinned code refuses such a file with "missing argument")              *)
(* Not in the pinned tree: language variants (file.en.csv next to file.csv) - collectConfigFiles has no such rule, a   *)
(* name like that is an ordinary name whose circuit is "en".  HTTP configuration sources are out of scope.             *)
(* Known disagreements of the pinned code (reported as drift by checks/grow_scan.py, with reproductions):              *)
(*  - R5: candidates are ranked by ident length, then by the length of the file name, so 08.bai.heating.csv beats      *)
(*    08.bai.HW0304.csv on a device with HW 0304 (and 08.bai.heat.csv does not)                                        *)
(*  - parseMessage appends to symbol strings that are not empty; main.cpp re-uses them across --inject arguments       *)
(* Texts are sequences of character codes.                                                                            *)
EXTENDS EbusSymbols, Integers

DOT == 46   SLASH == 47   USC == 95   PLUS == 43   MINUS == 45   SPACE == 32
IsDigit(c) == c \in 48..57
IsLower(c) == c \in 97..122
IsUpper(c) == c \in 65..90
IsAlnum(c) == IsDigit(c) \/ IsLower(c) \/ IsUpper(c)
LowerC(c) == IF IsUpper(c) THEN c + 32 ELSE c
LowerT(s) == [k \in 1..Len(s) |-> LowerC(s[k])]
HexD(n) == IF n < 10 THEN 48 + n ELSE 87 + n                      \* lower case
Hex2(b) == <<HexD(b \div 16), HexD(b % 16)>>
HexVal(c) == IF IsDigit(c) THEN c - 48 ELSE IF c \in 97..102 THEN c - 87 ELSE IF c \in 65..70 THEN c - 55 ELSE 0 - 1
IsHexC(c) == HexVal(c) >= 0
RECURSIVE DecText(_)
DecText(n) == IF n < 10 THEN <<48 + n>> ELSE DecText(n \div 10) \o <<48 + (n % 10)>>

t_csv == <<99, 115, 118>>
t_SW == <<83, 87>>
t_HW == <<72, 87>>
t_templates == <<95, 116, 101, 109, 112, 108, 97, 116, 101, 115, 46, 99, 115, 118>>      \* _templates.csv

RECURSIVE IndexFrom(_, _, _)
IndexFrom(s, c, k) == IF k > Len(s) THEN 0 ELSE IF s[k] = c THEN k ELSE IndexFrom(s, c, k + 1)
RECURSIVE LastIndex(_, _, _)
LastIndex(s, c, k) == IF k = 0 THEN 0 ELSE IF s[k] = c THEN k ELSE LastIndex(s, c, k - 1)
RECURSIVE SplitAt(_, _)
SplitAt(s, c) == LET p == IndexFrom(s, c, 1) IN
                 IF p = 0 THEN <<s>> ELSE <<SubSeq(s, 1, p - 1)>> \o SplitAt(SubSeq(s, p + 1, Len(s)), c)
RECURSIVE JoinWith(_, _)
JoinWith(ss, sep) == IF ss = <<>> THEN <<>> ELSE IF Len(ss) = 1 THEN ss[1] ELSE ss[1] \o sep \o JoinWith(Tail(ss), sep)
SelectIdx(s, T(_)) == {k \in 1..Len(s) : T(s[k])}
RECURSIVE KeepSeq(_, _)
KeepSeq(s, K) == IF s = <<>> THEN <<>>                                       \* subsequence at the index set K
                 ELSE LET r == KeepSeq(SubSeq(s, 1, Len(s) - 1), K) IN IF Len(s) \in K THEN Append(r, s[Len(s)]) ELSE r

(***************************************************************************)
(* The identification [S7]                                                  *)
(***************************************************************************)
ManufName(mf) ==
  CASE mf = 6 -> <<68, 117, 110, 103, 115>>                                                   \* 0x06 Dungs
    [] mf = 15 -> <<70, 72, 32, 79, 115, 116, 102, 97, 108, 105, 97>>                         \* 0x0f FH Ostfalia
    [] mf = 16 -> <<84, 69, 77>>                                                              \* 0x10 TEM
    [] mf = 17 -> <<76, 97, 109, 98, 101, 114, 116, 105>>                                     \* 0x11 Lamberti
    [] mf = 20 -> <<67, 69, 66>>                                                              \* 0x14 CEB
    [] mf = 21 -> <<76, 97, 110, 100, 105, 115, 45, 83, 116, 97, 101, 102, 97>>               \* 0x15 Landis-Staefa
    [] mf = 22 -> <<70, 69, 82, 82, 79>>                                                      \* 0x16 FERRO
    [] mf = 23 -> <<77, 79, 78, 68, 73, 65, 76>>                                              \* 0x17 MONDIAL
    [] mf = 24 -> <<87, 105, 107, 111, 110>>                                                  \* 0x18 Wikon
    [] mf = 25 -> <<87, 111, 108, 102>>                                                       \* 0x19 Wolf
    [] mf = 32 -> <<82, 65, 87, 69>>                                                          \* 0x20 RAWE
    [] mf = 48 -> <<83, 97, 116, 114, 111, 110, 105, 99>>                                     \* 0x30 Satronic
    [] mf = 64 -> <<69, 78, 67, 79, 78>>                                                      \* 0x40 ENCON
    [] mf = 80 -> <<75, 114, 111, 109, 115, 99, 104, 114, 111, 101, 100, 101, 114>>           \* 0x50 Kromschroeder
    [] mf = 96 -> <<69, 98, 101, 114, 108, 101>>                                              \* 0x60 Eberle
    [] mf = 101 -> <<69, 66, 86>>                                                             \* 0x65 EBV
    [] mf = 117 -> <<71, 114, 97, 101, 115, 115, 108, 105, 110>>                              \* 0x75 Graesslin
    [] mf = 133 -> <<101, 98, 109, 45, 112, 97, 112, 115, 116>>                               \* 0x85 ebm-papst
    [] mf = 149 -> <<83, 73, 71>>                                                             \* 0x95 SIG
    [] mf = 165 -> <<84, 104, 101, 98, 101, 110>>                                             \* 0xa5 Theben
    [] mf = 167 -> <<84, 104, 101, 114, 109, 111, 119, 97, 116, 116>>                         \* 0xa7 Thermowatt
    [] mf = 181 -> <<86, 97, 105, 108, 108, 97, 110, 116>>                                    \* 0xb5 Vaillant
    [] mf = 192 -> <<84, 111, 98, 121>>                                                       \* 0xc0 Toby
    [] mf = 197 -> <<87, 101, 105, 115, 104, 97, 117, 112, 116>>                              \* 0xc5 Weishaupt
    [] mf = 253 -> <<101, 98, 117, 115, 100, 46, 101, 117>>                                   \* 0xfd ebusd.eu
    [] OTHER -> <<>>
ManufDir(mf) == IF ManufName(mf) # <<>> THEN LowerT(ManufName(mf)) ELSE DecText(mf)           \* R1  [S1, S5]

(* the stored slave symbols  NN DD..  ->  number of data bytes that are really there *)
DataSize(sl) == IF sl = <<>> THEN 0 ELSE IF sl[1] <= Len(sl) - 1 THEN sl[1] ELSE Len(sl) - 1
HasIdent(sl) == DataSize(sl) >= 10                                                            \* R0: 1+5+2+2
IdMf(sl) == sl[2]
IdText(sl) == SubSeq(sl, 3, 7)
IdSw(sl) == SubSeq(sl, 8, 9)
IdHw(sl) == SubSeq(sl, 10, 11)

(* ident: the characters in front of the first NUL, only letters, digits and "_" count, lower case  [S3, S5] *)
NormIdent(idb) ==
  LET z == IndexFrom(idb, 0, 1)
      txt == IF z = 0 THEN idb ELSE SubSeq(idb, 1, z - 1)
  IN LowerT(KeepSeq(txt, {k \in 1..Len(txt) : IsAlnum(txt[k]) \/ txt[k] = USC}))

(* PIN: four BCD digits, most significant first; -1 = not BCD  [S7] *)
BcdOk(b) == (b \div 16) <= 9 /\ (b % 16) <= 9
Pin(bs) == IF BcdOk(bs[1]) /\ BcdOk(bs[2])
           THEN (bs[1] \div 16) * 1000 + (bs[1] % 16) * 100 + (bs[2] \div 16) * 10 + (bs[2] % 16) ELSE 0 - 1

(***************************************************************************)
(* The file-name convention [S1, S2]                                        *)
(*   name   = zz "." { seg "." } "csv"                                      *)
(*   segs   = [ident] [circuit] [suffix] {extra} versions {extra}           *)
(*   ident  = 0..5 characters     circuit = not a single digit              *)
(*   suffix = one digit           versions = SWdddd / HWdddd, either order  *)
(***************************************************************************)
IsVer(seg, tag) == Len(seg) = 6 /\ SubSeq(seg, 1, 2) = tag /\ \A k \in 3..6 : IsDigit(seg[k])
VerNum(seg) == (seg[3] - 48) * 1000 + (seg[4] - 48) * 100 + (seg[5] - 48) * 10 + (seg[6] - 48)
IsZz(seg) == Len(seg) = 2 /\ \A k \in 1..2 : (IsDigit(seg[k]) \/ seg[k] \in 97..102)           \* lower-case hex
ZzVal(seg) == HexVal(seg[1]) * 16 + HexVal(seg[2])
OneDigit(seg) == Len(seg) = 1 /\ IsDigit(seg[1])

(* conv: "yes" the name follows the convention, "no" it is outside (O3); ok: it is a scan file name at all *)
ParseName(name) ==
  LET segs == SplitAt(name, DOT)
      n == Len(segs)
      mid == IF n >= 3 THEN SubSeq(segs, 2, n - 1) ELSE <<>>
      swI == {k \in 1..Len(mid) : IsVer(mid[k], t_SW)}
      hwI == {k \in 1..Len(mid) : IsVer(mid[k], t_HW)}
      verI == swI \cup hwI
      rest == KeepSeq(mid, (1..Len(mid)) \ verI)                      \* the segments that are not versions
      firstVer == IF verI = {} THEN Len(mid) + 1 ELSE CHOOSE k \in verI : \A j \in verI : k <= j
      inFront == Cardinality({k \in 1..Len(mid) : k \notin verI /\ k < firstVer})
      hasId == Len(rest) >= 1 /\ Len(rest[1]) <= 5
      ident == IF hasId THEN rest[1] ELSE <<>>
      hasCirc == hasId /\ Len(rest) >= 2 /\ ~OneDigit(rest[2])
      circ == IF hasCirc THEN rest[2] ELSE ident
      sufAt == IF hasCirc THEN 3 ELSE 2
      hasSuf == hasId /\ Len(rest) >= sufAt /\ OneDigit(rest[sufAt])
      used == (IF hasId THEN 1 ELSE 0) + (IF hasCirc THEN 1 ELSE 0) + (IF hasSuf THEN 1 ELSE 0)
      shapeOk == n >= 2 /\ segs[n] = t_csv /\ IsZz(segs[1]) /\ ValidAddress(ZzVal(segs[1]), TRUE)
      strange == \/ Cardinality(swI) > 1 \/ Cardinality(hwI) > 1
                 \/ (Len(rest) >= 1 /\ Len(rest[1]) > 5)
                 \/ inFront < used                                     \* a version in front of ident / circuit / suffix
                 \/ (Len(rest) >= 1 /\ \E j \in 1..Len(rest[1]) : IsUpper(rest[1][j]))          \* upper-case ident
                 \/ \E k \in 1..Len(mid) : Len(mid[k]) = 6 /\ SubSeq(mid[k], 1, 2) \in {t_SW, t_HW} /\ k \notin verI
  IN [ok |-> shapeOk,
      conv |-> IF ~shapeOk \/ strange THEN "no" ELSE "yes",                 \* further segments are the "*" of the convention
      zz |-> IF shapeOk THEN ZzVal(segs[1]) ELSE 0 - 1,
      zztext |-> IF n >= 1 THEN segs[1] ELSE <<>>,
      sw |-> IF Cardinality(swI) = 1 THEN VerNum(mid[CHOOSE k \in swI : TRUE]) ELSE 0 - 1,
      hw |-> IF Cardinality(hwI) = 1 THEN VerNum(mid[CHOOSE k \in hwI : TRUE]) ELSE 0 - 1,
      ident |-> ident, circuit |-> circ, suffix |-> IF hasSuf THEN <<DOT>> \o rest[sufAt] ELSE <<>>]

(* the scan ident cut back by trailing digits equals the ident of the file name  (R3; O4 = a non-zero digit was cut) *)
RECURSIVE CutsTo(_, _)
CutsTo(I, x) == IF Len(I) < Len(x) \/ I = <<>> THEN FALSE
                ELSE IF I = x THEN TRUE
                ELSE IsDigit(I[Len(I)]) /\ CutsTo(SubSeq(I, 1, Len(I) - 1), x)
CutNonZero(I, x) == \E k \in (Len(x) + 1)..Len(I) : I[k] # 48

(***************************************************************************)
(* Worlds: a directory tree (entries = <<relative path, kind>>, kind 1 =   *)
(* directory, everything else a regular file), an address, the stored       *)
(* slave symbols of the identification (has = 0: none stored).              *)
(***************************************************************************)
DirOf(path) == LET p == LastIndex(path, SLASH, Len(path)) IN IF p = 0 THEN <<>> ELSE SubSeq(path, 1, p - 1)
BaseOf(path) == LET p == LastIndex(path, SLASH, Len(path)) IN SubSeq(path, p + 1, Len(path))
IsDirKind(k) == k = 1

EndsWithCsv(name) == Len(name) >= 4 /\ SubSeq(name, Len(name) - 3, Len(name)) = <<DOT>> \o t_csv
StartsWith(name, p) == Len(name) >= Len(p) /\ SubSeq(name, 1, Len(p)) = p

(* the identification is only looked at when it is there *)
WDir(w) == IF HasIdent(w.sl) THEN ManufDir(IdMf(w.sl)) ELSE <<0>>                   \* <<0>>: no directory has this name
(* R2: the names of the candidate files *)
Candidates(w) == {BaseOf(w.ents[k][1]) : k \in {j \in 1..Len(w.ents) :
                      /\ ~IsDirKind(w.ents[j][2])
                      /\ DirOf(w.ents[j][1]) = WDir(w)
                      /\ StartsWith(BaseOf(w.ents[j][1]), Hex2(w.addr) \o <<DOT>>)
                      /\ EndsWithCsv(BaseOf(w.ents[j][1]))}}

(* O4 as a switch: [S1] and [S2] agree on cutting "0"; [S1] alone speaks of any digit.  FALSE = follow [S1]. *)
DigitOpen == FALSE
(* R3, three-valued *)
MatchP(p, w) ==
  LET I == NormIdent(IdText(w.sl))
      sw == Pin(IdSw(w.sl))
      hw == Pin(IdHw(w.sl))
      verNo(c, v) == c >= 0 /\ v >= 0 /\ c # v
      verOpen(c, v) == c >= 0 /\ v < 0                                              \* O2
  IN IF ~p.ok \/ p.zz # w.addr \/ verNo(p.sw, sw) \/ verNo(p.hw, hw) THEN "no"
     ELSE IF p.conv = "no" THEN "open"                                              \* O3
     ELSE IF p.ident # <<>> /\ ~CutsTo(I, p.ident) THEN "no"
     ELSE IF verOpen(p.sw, sw) \/ verOpen(p.hw, hw) THEN "open"
     ELSE IF DigitOpen /\ p.ident # <<>> /\ CutNonZero(I, p.ident) THEN "open"      \* O4 (switch, see DigitOpen)
     ELSE "yes"
MatchOf(name, w) == MatchP(ParseName(name), w)

Participant(a) == ValidAddress(a, TRUE)                      \* SYN / ESC are no addresses
Selectable(w) == w.has = 1 /\ HasIdent(w.sl) /\ Participant(w.addr)

(* R4, R5 on the parsed names; everything about a world in one record (each name is parsed once) *)
Info(name, w) == LET p == ParseName(name) IN
                 [m |-> MatchP(p, w), idlen |-> IF p.conv = "no" THEN 0 ELSE Len(p.ident),
                  constr |-> (IF p.sw >= 0 THEN {"SW"} ELSE {}) \cup (IF p.hw >= 0 THEN {"HW"} ELSE {})]
Eval(w) ==
  LET cs == IF Selectable(w) THEN Candidates(w) ELSE {}
      inf == {<<c, Info(c, w)>> : c \in cs}                 \* a set of pairs, not a function: TLC evaluates it once
      must == {p \in inf : p[2].m = "yes"}
      maybe == {p \in inf : p[2].m # "no"}
      domId(d, c) == d.idlen > c.idlen                                                                   \* R4
      domVer(d, c) == d.idlen = c.idlen /\ c.constr \subseteq d.constr /\ c.constr # d.constr            \* R5
  IN [cands |-> cs, must |-> {p[1] : p \in must}, maybe |-> {p[1] : p \in maybe},
      adm |-> {p[1] : p \in {q \in maybe : ~\E d \in must : domId(d[2], q[2]) \/ domVer(d[2], q[2])}},
      byId |-> {p[1] : p \in {q \in maybe : \E d \in must : domId(d[2], q[2])}},        \* beaten by a longer ident
      byVer |-> {p[1] : p \in {q \in maybe : \E d \in must : domVer(d[2], q[2])}},      \* beaten by a more specific version
      none |-> must = {} \/ IsMaster(w.addr)]                                            \* O5
Must(w) == Eval(w).must
Maybe(w) == Eval(w).maybe
Admissible(w) == Eval(w).adm
NoneOk(w) == Eval(w).none
RelFile(w, c) == WDir(w) \o <<SLASH>> \o c

(* R7: the common files of the manufacturer directory *)
SchemeZz(name) == Len(name) >= 3 /\ IndexFrom(name, DOT, 1) = 3
CommonFiles(w) == {w.ents[k][1] : k \in {j \in 1..Len(w.ents) :
                      /\ ~IsDirKind(w.ents[j][2])
                      /\ DirOf(w.ents[j][1]) = WDir(w)
                      /\ EndsWithCsv(BaseOf(w.ents[j][1]))
                      /\ BaseOf(w.ents[j][1]) # t_templates
                      /\ ~SchemeZz(BaseOf(w.ents[j][1]))}}

(* what the defaults of the chosen file name make of a definition without circuit and destination  [S3] *)
DefaultCircuit(name) == LET p == ParseName(name) IN p.circuit \o p.suffix

(***************************************************************************)
(* Lemmas about P (checked by TLC on every enumerated world, ScanSelectGen) *)
(***************************************************************************)
RevSeq(s) == [k \in 1..Len(s) |-> s[Len(s) + 1 - k]]
Relevant(w, k) == ~IsDirKind(w.ents[k][2]) /\ DirOf(w.ents[k][1]) = WDir(w) /\ EndsWithCsv(BaseOf(w.ents[k][1]))
                  /\ StartsWith(BaseOf(w.ents[k][1]), Hex2(w.addr) \o <<DOT>>)
(* L1 a matching candidate that states more of SW/HW (same ident length) is never beaten by one stating less          *)
(* L2 a longer ident match is never beaten by a shorter one                                                            *)
(* L3 something is admissible whenever something may match, and a definite match never loses to nothing               *)
(* L4 the listing order of the directory is no input of P                                                              *)
(* L5 files of other addresses, other directories, other extensions, and directories never influence the outcome      *)
(* L6 only candidates are ever admissible, and every admissible file states the address of the world                  *)
LemmaSpecificWins(e) == e.adm \cap e.byVer = {}
LemmaLongerIdentWins(e) == e.adm \cap e.byId = {}
LemmaTotal(e) == ((e.maybe # {}) => (e.adm # {})) /\ ((e.must # {}) => (e.adm \cap e.must # {}))
LemmaOrderFree(w, e) == LET v == [w EXCEPT !.ents = RevSeq(w.ents)]  f == Eval(v) IN
                        f.adm = e.adm /\ f.none = e.none /\ CommonFiles(v) = CommonFiles(w)
LemmaIrrelevant(w, e) == LET v == [w EXCEPT !.ents = KeepSeq(w.ents, {k \in 1..Len(w.ents) : Relevant(w, k)})]  f == Eval(v) IN
                         f.adm = e.adm /\ f.none = e.none
LemmaCandidates(w, e) == e.adm \subseteq e.cands /\ \A c \in e.adm : ParseName(c).zz = w.addr
LemmasOn(w) == LET e == Eval(w) IN /\ LemmaSpecificWins(e) /\ LemmaLongerIdentWins(e) /\ LemmaTotal(e)
                                   /\ LemmaOrderFree(w, e) /\ LemmaIrrelevant(w, e) /\ LemmaCandidates(w, e)

(***************************************************************************)
(* MASTER/SLAVE text of an injected message  [S4, S6]                       *)
(*   QQZZPBSBNN[DD]* "/" [NN[DD]*]   pairs of hex digits                    *)
(***************************************************************************)
StrictHex(t) == (Len(t) % 2) = 0 /\ \A k \in 1..Len(t) : IsHexC(t[k])
HexBytes(t) == [k \in 1..(Len(t) \div 2) |-> HexVal(t[2 * k - 1]) * 16 + HexVal(t[2 * k])]
Lenient(t) == \A k \in 1..Len(t) : IsHexC(t[k]) \/ t[k] \in {SPACE, PLUS, MINUS, 9}     \* what a number reader may swallow
ParseMsg(arg, oms) ==
  LET p == IndexFrom(arg, SLASH, 1)
      mt == SubSeq(arg, 1, p - 1)
      st == SubSeq(arg, p + 1, Len(arg))
      m == HexBytes(mt)
      s == HexBytes(st)
      rej == [kind |-> "rej", m |-> <<>>, s |-> <<>>]
      open == [kind |-> "open", m |-> <<>>, s |-> <<>>]
  IN IF p = 0 THEN rej                                                             \* [S6]: the "/" is not optional
     ELSE IF ~Lenient(mt) \/ ~Lenient(st) THEN rej                                 \* not hex
     ELSE IF ~StrictHex(mt) \/ ~StrictHex(st) THEN open                            \* odd length, blanks, signs: silent
     ELSE IF Len(m) < 5 THEN rej                                                   \* QQ ZZ PB SB NN
     ELSE IF ~IsMaster(m[1]) THEN rej
     ELSE IF ~ValidAddress(m[2], ~oms) \/ (oms /\ IsMaster(m[2])) THEN rej         \* [S4]
     ELSE IF m[5] # Len(m) - 5 THEN open                                           \* NN against the data: silent
     ELSE IF s # <<>> /\ s[1] # Len(s) - 1 THEN open
     ELSE IF oms /\ s = <<>> THEN open                                             \* MS message without slave part
     ELSE IF ~oms /\ s # <<>> /\ (m[2] = BROADCAST \/ IsMaster(m[2])) THEN open    \* BC / MM with a slave part
     ELSE [kind |-> "ok", m |-> m, s |-> s]
=============================================================================
