CONSTANTS Variant = "close" Bug = "none"
SPECIFICATION FairSpec
INVARIANT McOk
INVARIANT McNoDangle
PROPERTY McLive
