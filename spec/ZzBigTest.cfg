INIT Init
NEXT Next
INVARIANT Inv
