CONSTANTS Variant = "spurious" Bug = "none"
SPECIFICATION FairSpec
INVARIANT McOk
INVARIANT McNoDangle
