------------------------------ MODULE ConfigLoadDomain ------------------------------
(* The files the configuration loading check runs: a small grammar of template files and message definition      *)
(* files (abstract rows rendered through a header's column order), enumerated completely by TLC.                 *)
(*   A  one default row + one definition row; every pair of "aspects" (type key, circuit/level, name, comment,    *)
(*      QQ, ZZ, PBSB/ID, fields) varied together over (default value, row value) combinations; thorough: triples   *)
(*      of aspects over core combinations and a second default row in between                                     *)
(*   O  order of appearance: interleavings of 0-2 default rows and 1-3 definition rows from small pools           *)
(*   TT template files: all sequences of 0-3 template rows from a pool (plain, divisor, multiplier, value list,   *)
(*      constant, text, struct, alias, template of template / of struct, struct of templates, undefined type)     *)
(*   TU template usage: valid template files x one definition row x field groups (name, template / renamed /      *)
(*      base / undefined type, divisor / multiplier / value list / constant, unit) x an optional second group     *)
(*   P  part column x direction x destination class                                                                *)
(*   H  header line kinds (comment, blank, default text, upper case, level column, reordered, invalid ones) x      *)
(*      comment / blank line placements x full / trimmed rows; field group layout corner lines                     *)
(*   K  identity: two or three definition rows over (type, circuit, name, QQ, ZZ, ID) incl. case variants          *)
(*   X  defaults + templates + ZZ lists together                                                                   *)
(* (every family takes the tier as parameter, also where it does not depend on it: TLC evaluates constant definitions   *)
(* without parameters eagerly at start-up, which a replay of a single file should not pay for)                          *)
(* The token definitions (x_...) are character code sequences generated from the texts in the comments.            *)
EXTENDS ConfigLoad, TLC

x_r == <<114>>   \* r
x_r3 == <<114, 51>>   \* r3
x_w == <<119>>   \* w
x_u == <<117>>   \* u
x_uw == <<117, 119>>   \* uw
x_wi == <<119, 105>>   \* wi
x_rw == <<114, 59, 119>>   \* r;w
x_R == <<82>>   \* R
x_a == <<97>>   \* a
x_b == <<98>>   \* b
x_A == <<65>>   \* A
x_c == <<99>>   \* c
x_C == <<67>>   \* C
x_d == <<100>>   \* d
x_e == <<101>>   \* e
x_f == <<102>>   \* f
x_g == <<103>>   \* g
x_k == <<107>>   \* k
x_m == <<109>>   \* m
x_n == <<110>>   \* n
x_q == <<113>>   \* q
x_s == <<115>>   \* s
x_t == <<116>>   \* t
x_x == <<120>>   \* x
x_v == <<118>>   \* v
x_z == <<122>>   \* z
x_tt == <<116, 116>>   \* tt
x_s2 == <<115, 50>>   \* s2
x_lv == <<108, 118>>   \* lv
x_l2 == <<108, 50>>   \* l2
x_cLv == <<99, 35, 108, 118>>   \* c#lv
x_dLv == <<100, 35, 108, 50>>   \* d#l2
x_hashLv == <<35, 108, 118>>   \* #lv
x_cStarE == <<99, 42, 101>>   \* c*e
x_xStar == <<120, 42>>   \* x*
x_kStar == <<107, 42>>   \* k*
x_ab == <<97, 58, 98>>   \* a:b
x_s3k == <<115, 51, 58, 107>>   \* s3:k
x_S == <<83>>   \* S
x_M == <<77>>   \* M
x_X == <<88>>   \* X
x_h08 == <<48, 56>>   \* 08
x_h09 == <<48, 57>>   \* 09
x_h0a == <<48, 97>>   \* 0a
x_h10 == <<49, 48>>   \* 10
x_h03 == <<48, 51>>   \* 03
x_hfe == <<102, 101>>   \* fe
x_haa == <<97, 97>>   \* aa
x_hzz == <<122, 122>>   \* zz
x_h8 == <<56>>   \* 8
x_z0809 == <<48, 56, 59, 48, 57>>   \* 08;09
x_z090a == <<48, 57, 59, 48, 97>>   \* 09;0a
x_z0810 == <<48, 56, 59, 49, 48>>   \* 08;10
x_zfe10 == <<102, 101, 59, 49, 48>>   \* fe;10
x_z0808 == <<48, 56, 59, 48, 56>>   \* 08;08
x_b509 == <<98, 53, 48, 57>>   \* b509
x_b510 == <<98, 53, 49, 48>>   \* b510
x_B509 == <<66, 53, 48, 57>>   \* B509
x_b5 == <<98, 53>>   \* b5
x_h0d == <<48, 100>>   \* 0d
x_h0e == <<48, 101>>   \* 0e
x_h01 == <<48, 49>>   \* 01
x_h02 == <<48, 50>>   \* 02
x_h0102 == <<48, 49, 48, 50>>   \* 0102
x_c0102 == <<48, 49, 59, 48, 50>>   \* 01;02
x_h0g == <<48, 103>>   \* 0g
x_h0 == <<48>>   \* 0
x_UCH == <<85, 67, 72>>   \* UCH
x_uch == <<117, 99, 104>>   \* uch
x_UIN == <<85, 73, 78>>   \* UIN
x_D2C == <<68, 50, 67>>   \* D2C
x_STR2 == <<83, 84, 82, 58, 50>>   \* STR:2
x_NIX == <<78, 73, 88>>   \* NIX
x_tg == <<116, 58, 103>>   \* t:g
x_tz == <<116, 58, 122>>   \* t:z
x_sg == <<115, 58, 103>>   \* s:g
x_p10 == <<49, 48>>   \* 10
x_m10 == <<45, 49, 48>>   \* -10
x_p2 == <<50>>   \* 2
x_m2 == <<45, 50>>   \* -2
x_p1 == <<49>>   \* 1
x_vxy == <<48, 61, 120, 59, 49, 61, 121>>   \* 0=x;1=y
x_v2z == <<50, 61, 122>>   \* 2=z
x_c1 == <<61, 49>>   \* =1
x_cc1 == <<61, 61, 49>>   \* ==1
x_pbad == <<49, 120>>   \* 1x
x_hashT == <<35>>   \* #
x_blank == <<>>   \* (empty)
x_slashes == <<47, 47, 32, 120>>   \* // x
x_hashX == <<35, 32, 120>>   \* # x
x_hdrDefault == <<116, 121, 112, 101, 44, 99, 105, 114, 99, 117, 105, 116, 44, 110, 97, 109, 101, 44, 99, 111, 109, 109, 101, 110, 116, 44, 113, 113, 44, 122, 122, 44, 112, 98, 115, 98, 44, 105, 100, 44, 42, 110, 97, 109, 101, 44, 112, 97, 114, 116, 44, 116, 121, 112, 101, 44, 100, 105, 118, 105, 115, 111, 114, 47, 118, 97, 108, 117, 101, 115, 44, 117, 110, 105, 116, 44, 99, 111, 109, 109, 101, 110, 116>>   \* type,circuit,name,comment,qq,zz,pbsb,id,*name,part,type,divisor/values,unit,comment
x_hdrUpper == <<84, 89, 80, 69, 44, 67, 105, 114, 99, 117, 105, 116, 44, 78, 65, 77, 69, 44, 99, 111, 109, 109, 101, 110, 116, 44, 81, 81, 44, 122, 122, 44, 80, 66, 83, 66, 44, 105, 100, 44, 42, 78, 97, 109, 101, 44, 112, 97, 114, 116, 44, 84, 121, 112, 101, 44, 100, 105, 118, 105, 115, 111, 114, 47, 118, 97, 108, 117, 101, 115, 44, 117, 110, 105, 116, 44, 99, 111, 109, 109, 101, 110, 116>>   \* TYPE,Circuit,NAME,comment,QQ,zz,PBSB,id,*Name,part,Type,divisor/values,unit,comment
x_hdrLevel == <<116, 121, 112, 101, 44, 99, 105, 114, 99, 117, 105, 116, 44, 108, 101, 118, 101, 108, 44, 110, 97, 109, 101, 44, 113, 113, 44, 122, 122, 44, 112, 98, 115, 98, 44, 105, 100, 44, 42, 110, 97, 109, 101, 44, 116, 121, 112, 101, 44, 100, 105, 118, 105, 115, 111, 114, 47, 118, 97, 108, 117, 101, 115>>   \* type,circuit,level,name,qq,zz,pbsb,id,*name,type,divisor/values
x_hdrSwap == <<116, 121, 112, 101, 44, 110, 97, 109, 101, 44, 112, 98, 115, 98, 44, 105, 100, 44, 122, 122, 44, 99, 105, 114, 99, 117, 105, 116, 44, 42, 116, 121, 112, 101, 44, 110, 97, 109, 101, 44, 112, 97, 114, 116>>   \* type,name,pbsb,id,zz,circuit,*type,name,part
x_hdrNoGroup == <<116, 121, 112, 101, 44, 99, 105, 114, 99, 117, 105, 116, 44, 110, 97, 109, 101, 44, 122, 122, 44, 112, 98, 115, 98, 44, 105, 100>>   \* type,circuit,name,zz,pbsb,id
x_hdrNoPbsb == <<116, 121, 112, 101, 44, 99, 105, 114, 99, 117, 105, 116, 44, 110, 97, 109, 101, 44, 122, 122, 44, 105, 100, 44, 42, 110, 97, 109, 101, 44, 112, 97, 114, 116, 44, 116, 121, 112, 101>>   \* type,circuit,name,zz,id,*name,part,type
x_hdrNoFieldType == <<116, 121, 112, 101, 44, 99, 105, 114, 99, 117, 105, 116, 44, 110, 97, 109, 101, 44, 122, 122, 44, 112, 98, 115, 98, 44, 105, 100, 44, 42, 110, 97, 109, 101, 44, 112, 97, 114, 116>>   \* type,circuit,name,zz,pbsb,id,*name,part
x_hdrDupName == <<116, 121, 112, 101, 44, 99, 105, 114, 99, 117, 105, 116, 44, 110, 97, 109, 101, 44, 110, 97, 109, 101, 44, 112, 98, 115, 98, 44, 105, 100, 44, 42, 110, 97, 109, 101, 44, 116, 121, 112, 101>>   \* type,circuit,name,name,pbsb,id,*name,type
x_hdrEmptyName == <<116, 121, 112, 101, 44, 99, 105, 114, 99, 117, 105, 116, 44, 110, 97, 109, 101, 44, 44, 112, 98, 115, 98, 44, 105, 100, 44, 42, 110, 97, 109, 101, 44, 116, 121, 112, 101>>   \* type,circuit,name,,pbsb,id,*name,type
x_tplHdr == <<110, 97, 109, 101, 44, 42, 116, 121, 112, 101, 44, 100, 105, 118, 105, 115, 111, 114, 47, 118, 97, 108, 117, 101, 115, 44, 117, 110, 105, 116, 44, 99, 111, 109, 109, 101, 110, 116, 44, 42, 110, 97, 109, 101, 44, 116, 121, 112, 101, 44, 100, 105, 118, 105, 115, 111, 114, 47, 118, 97, 108, 117, 101, 115, 44, 117, 110, 105, 116, 44, 99, 111, 109, 109, 101, 110, 116>>   \* name,*type,divisor/values,unit,comment,*name,type,divisor/values,unit,comment
E == <<>>

(***************************************************************************)
(* abstract rows and rendering                                              *)
(***************************************************************************)
G(name, part, type, dv, unit, comment) == [name |-> name, part |-> part, type |-> type, dv |-> dv, unit |-> unit, comment |-> comment]
Row(d, type, circuit, level, name, comment, qq, zz, pbsb, id, groups) ==
  [d |-> d, type |-> type, circuit |-> circuit, level |-> level, name |-> name, comment |-> comment, qq |-> qq, zz |-> zz,
   pbsb |-> pbsb, id |-> id, groups |-> groups]
Upd(row, u) == [k \in DOMAIN row |-> IF k \in DOMAIN u THEN u[k] ELSE row[k]]

(* header: its text and the column ids it declares (indices into MainNames / GroupNames) *)
Hdr(text, main, grp) == [text |-> text, main |-> main, grp |-> grp]
HComment == Hdr(x_hashT, <<1, 2, 4, 5, 6, 7, 8, 9>>, <<1, 2, 3, 4, 5, 6>>)
HBlank == [HComment EXCEPT !.text = x_blank]
HSlashes == [HComment EXCEPT !.text = x_slashes]
HDefault == [HComment EXCEPT !.text = x_hdrDefault]
HUpper == [HComment EXCEPT !.text = x_hdrUpper]
HLevel == Hdr(x_hdrLevel, <<1, 2, 3, 4, 6, 7, 8, 9>>, <<1, 3, 4>>)
HSwap == Hdr(x_hdrSwap, <<1, 4, 8, 9, 7, 2>>, <<3, 1, 2>>)
HNoGroup == Hdr(x_hdrNoGroup, <<1, 2, 4, 7, 8, 9>>, <<>>)
HNoPbsb == Hdr(x_hdrNoPbsb, <<1, 2, 4, 7, 9>>, <<1, 2, 3>>)
HNoFieldType == Hdr(x_hdrNoFieldType, <<1, 2, 4, 7, 8, 9>>, <<1, 2>>)
HDupName == Hdr(x_hdrDupName, <<1, 2, 4, 4, 8, 9>>, <<1, 3>>)
HEmptyName == Hdr(x_hdrEmptyName, <<1, 2, 4, 5, 8, 9>>, <<1, 3>>)

MainCell(row, id) == CASE id = 1 -> row.type [] id = 2 -> row.circuit [] id = 3 -> row.level [] id = 4 -> row.name
                       [] id = 5 -> row.comment [] id = 6 -> row.qq [] id = 7 -> row.zz [] id = 8 -> row.pbsb [] id = 9 -> row.id
GroupCell(g, id) == CASE id = 1 -> g.name [] id = 2 -> g.part [] id = 3 -> g.type [] id = 4 -> g.dv [] id = 5 -> g.unit [] id = 6 -> g.comment
RowCells(h, row) ==
  LET main == [k \in 1..Len(h.main) |-> MainCell(row, h.main[k])]
      m2 == IF row.d THEN <<<<STAR>> \o main[1]>> \o Tail(main) ELSE main
      gs == Flatten([k \in 1..Len(row.groups) |-> [j \in 1..Len(h.grp) |-> GroupCell(row.groups[k], h.grp[j])]])
  IN m2 \o gs
RECURSIVE DropTrailingEmpty(_)
DropTrailingEmpty(cs) == IF Len(cs) > 1 /\ cs[Len(cs)] = <<>> THEN DropTrailingEmpty(SubSeq(cs, 1, Len(cs) - 1)) ELSE cs
RenderRow(h, row) == CSV!JoinWith(RowCells(h, row), <<COMMA>>)
RenderTrim(h, row) == CSV!JoinWith(DropTrailingEmpty(RowCells(h, row)), <<COMMA>>)
MsgFile(h, rows) == <<h.text>> \o [k \in 1..Len(rows) |-> RenderRow(h, rows[k])]
MsgFileTrim(h, rows) == <<h.text>> \o [k \in 1..Len(rows) |-> RenderTrim(h, rows[k])]
NoTpl == <<>>

(* template rows: name, first group (type, dv, unit, comment), further groups (name, type, dv, unit, comment) *)
TRow(name, first, more) ==
  CSV!JoinWith(DropTrailingEmpty(<<name, first.type, first.dv, first.unit, first.comment>>
     \o Flatten([k \in 1..Len(more) |-> <<more[k].name, more[k].type, more[k].dv, more[k].unit, more[k].comment>>])), <<COMMA>>)
TG(type, dv, unit, comment) == G(E, E, type, dv, unit, comment)
TplFile(rows) == <<x_hashT>> \o rows

Gf == G(x_f, E, x_UCH, E, E, E)
Gg == G(x_g, E, x_UIN, x_p10, x_v, x_k)

(***************************************************************************)
(* A: aspects of one default row + one definition row                      *)
(***************************************************************************)
BaseD == Row(TRUE, x_r, x_c, E, E, E, E, x_h08, x_b509, x_h0d, <<>>)
BaseR == Row(FALSE, x_r, E, E, x_a, E, E, E, E, x_h01, <<Gf>>)
Own == [circuit |-> x_e, zz |-> x_h0a, pbsb |-> x_b510]         \* what a row needs when no default applies to it
AType == { <<[type |-> x_r], [type |-> x_r]>>, <<[type |-> x_r], [type |-> x_r3]>>, <<[type |-> x_r], [type |-> x_w] @@ Own>>,
           <<[type |-> x_w], [type |-> x_w]>>, <<[type |-> x_wi], [type |-> x_wi]>>, <<[type |-> x_wi], [type |-> x_w] @@ Own>>,
           <<[type |-> x_u], [type |-> x_u]>>, <<[type |-> x_u], [type |-> x_uw] @@ Own>>, <<[type |-> x_uw], [type |-> x_uw]>>,
           <<[type |-> x_r], [type |-> x_rw] @@ Own>>, <<[type |-> x_r], [type |-> E]>>, <<[type |-> x_r], [type |-> x_R]>>,
           <<[type |-> x_w], [type |-> x_r]>> }
ACircuit == { <<[circuit |-> x_c], [circuit |-> E]>>, <<[circuit |-> x_c], [circuit |-> x_d]>>, <<[circuit |-> E], [circuit |-> x_d]>>,
              <<[circuit |-> E], [circuit |-> E]>>, <<[circuit |-> x_cLv], [circuit |-> E]>>, <<[circuit |-> x_cLv], [circuit |-> x_d]>>,
              <<[circuit |-> x_cStarE], [circuit |-> x_d]>>, <<[circuit |-> x_cStarE], [circuit |-> E]>>,
              <<[circuit |-> x_c], [circuit |-> x_dLv]>>, <<[circuit |-> x_hashLv], [circuit |-> x_d]>> }
AName == { <<[name |-> E], [name |-> x_a]>>, <<[name |-> E], [name |-> E]>>, <<[name |-> x_xStar], [name |-> x_a]>>,
           <<[name |-> x_xStar], [name |-> E]>>, <<[name |-> x_n], [name |-> x_a]>>, <<[name |-> x_n], [name |-> E]>> }
AComment == { <<[comment |-> E], [comment |-> E]>>, <<[comment |-> x_k], [comment |-> E]>>, <<[comment |-> E], [comment |-> x_m]>>,
              <<[comment |-> x_k], [comment |-> x_m]>>, <<[comment |-> x_kStar], [comment |-> x_m]>>, <<[comment |-> x_kStar], [comment |-> E]>> }
AQq == { <<[qq |-> E], [qq |-> E]>>, <<[qq |-> x_h10], [qq |-> E]>>, <<[qq |-> E], [qq |-> x_h03]>>, <<[qq |-> x_h10], [qq |-> x_h03]>>,
         <<[qq |-> E], [qq |-> x_h08]>>, <<[qq |-> x_h08], [qq |-> E]>>, <<[qq |-> E], [qq |-> x_hzz]>> }
AZz == { <<[zz |-> x_h08], [zz |-> E]>>, <<[zz |-> E], [zz |-> x_h09]>>, <<[zz |-> x_h08], [zz |-> x_h09]>>, <<[zz |-> x_z0809], [zz |-> E]>>,
         <<[zz |-> x_h08], [zz |-> x_z090a]>>, <<[zz |-> E], [zz |-> E]>>, <<[zz |-> x_hfe], [zz |-> E]>>, <<[zz |-> x_h08], [zz |-> x_h10]>>,
         <<[zz |-> E], [zz |-> x_z0810]>>, <<[zz |-> E], [zz |-> x_zfe10]>>, <<[zz |-> E], [zz |-> x_haa]>>, <<[zz |-> E], [zz |-> x_z0808]>>,
         <<[zz |-> E], [zz |-> x_h8]>>, <<[zz |-> x_hzz], [zz |-> E]>> }
AId == { <<[pbsb |-> x_b509, id |-> x_h0d], [pbsb |-> E, id |-> x_h01]>>, <<[pbsb |-> x_b509, id |-> x_h0d], [pbsb |-> E, id |-> E]>>,
         <<[pbsb |-> x_b509, id |-> E], [pbsb |-> E, id |-> x_h01]>>, <<[pbsb |-> x_b509, id |-> x_h0d], [pbsb |-> x_b510, id |-> x_h01]>>,
         <<[pbsb |-> x_b509, id |-> E], [pbsb |-> x_b510, id |-> x_h01]>>, <<[pbsb |-> E, id |-> E], [pbsb |-> E, id |-> x_h01]>>,
         <<[pbsb |-> E, id |-> E], [pbsb |-> x_B509, id |-> x_h0102]>>, <<[pbsb |-> x_b509, id |-> x_h0d], [pbsb |-> E, id |-> x_c0102]>>,
         <<[pbsb |-> x_b509, id |-> x_h0d], [pbsb |-> E, id |-> x_h0g]>>, <<[pbsb |-> x_b509, id |-> x_h0d], [pbsb |-> E, id |-> x_h0]>>,
         <<[pbsb |-> E, id |-> x_h0d], [pbsb |-> x_b5, id |-> x_h01]>>, <<[pbsb |-> x_b509, id |-> x_h0g], [pbsb |-> E, id |-> x_h01]>> }
AFields == { <<[groups |-> <<>>], [groups |-> <<>>]>>, <<[groups |-> <<>>], [groups |-> <<Gf>>]>>, <<[groups |-> <<G(x_x, E, x_UCH, E, E, E)>>], [groups |-> <<>>]>>,
             <<[groups |-> <<G(x_x, E, x_UCH, E, E, E)>>], [groups |-> <<Gf>>]>>, <<[groups |-> <<G(x_x, x_m, x_UCH, E, E, E), G(E, E, x_UIN, E, E, E)>>], [groups |-> <<Gf>>]>>,
             <<[groups |-> <<>>], [groups |-> <<Gf, Gg>>]>>, <<[groups |-> <<G(x_x, E, x_NIX, E, E, E)>>], [groups |-> <<Gf>>]>>,
             <<[groups |-> <<>>], [groups |-> <<G(x_f, E, x_D2C, x_p10, E, E), G(x_g, E, x_STR2, E, x_v, E)>>]>>,
             <<[groups |-> <<>>], [groups |-> <<G(x_f, E, x_D2C, x_m2, E, E)>>]>>, <<[groups |-> <<>>], [groups |-> <<G(x_f, E, x_STR2, x_p10, E, E)>>]>>,
             <<[groups |-> <<>>], [groups |-> <<G(x_f, E, x_UCH, x_vxy, E, E), G(x_f, E, x_UCH, x_cc1, E, E)>>]>>,
             <<[groups |-> <<>>], [groups |-> <<G(x_f, E, E, x_p10, E, E)>>]>>, <<[groups |-> <<>>], [groups |-> <<G(x_f, E, x_UCH, x_pbad, E, E)>>]>> }
Aspects == <<AType, ACircuit, AName, AComment, AQq, AZz, AId, AFields>>
FamilyA(th) == UNION { { <<NoTpl, MsgFile(HComment, <<Upd(Upd(BaseD, a[1]), b[1]), Upd(Upd(BaseR, a[2]), b[2])>>)>> : a \in Aspects[i], b \in Aspects[j] }
                   : i \in 1..Len(Aspects), j \in 1..Len(Aspects) }
(* (i = j gives single aspect variations and, for different a and b, the later update wins: still well-formed rows) *)
(* thorough: three aspects at once over core combinations, and a second default row of the same or another type     *)
(* between the default and the definition row                                                                      *)
Core == << { <<[type |-> x_r], [type |-> x_r3]>>, <<[type |-> x_wi], [type |-> x_wi]>>, <<[type |-> x_u], [type |-> x_u]>>, <<[type |-> x_r], [type |-> x_rw] @@ Own>> },
           { <<[circuit |-> x_c], [circuit |-> x_d]>>, <<[circuit |-> x_cLv], [circuit |-> E]>>, <<[circuit |-> x_cStarE], [circuit |-> x_d]>> },
           { <<[name |-> x_xStar], [name |-> x_a]>>, <<[name |-> x_n], [name |-> x_a]>>, <<[name |-> E], [name |-> x_b]>> },
           { <<[comment |-> x_k], [comment |-> E]>>, <<[comment |-> x_kStar], [comment |-> x_m]>> },
           { <<[qq |-> x_h10], [qq |-> E]>>, <<[qq |-> x_h10], [qq |-> x_h03]>>, <<[qq |-> E], [qq |-> E]>> },
           { <<[zz |-> x_z0809], [zz |-> E]>>, <<[zz |-> x_h08], [zz |-> x_z090a]>>, <<[zz |-> x_hfe], [zz |-> E]>>, <<[zz |-> E], [zz |-> E]>> },
           { <<[pbsb |-> x_b509, id |-> x_h0d], [pbsb |-> E, id |-> x_h01]>>, <<[pbsb |-> x_b509, id |-> E], [pbsb |-> x_b510, id |-> x_h01]>>,
             <<[pbsb |-> x_b509, id |-> x_h0d], [pbsb |-> E, id |-> x_c0102]>> },
           { <<[groups |-> <<G(x_x, E, x_UCH, E, E, E)>>], [groups |-> <<Gf>>]>>, <<[groups |-> <<>>], [groups |-> <<Gf, Gg>>]>>,
             <<[groups |-> <<G(x_x, x_m, x_UCH, E, E, E), G(E, E, x_UIN, E, E, E)>>], [groups |-> <<>>]>> } >>
SecondDefaults == { Row(TRUE, x_r, E, E, E, E, E, E, E, E, <<>>), Row(TRUE, x_r, x_d, E, E, x_m, E, E, x_b510, E, <<>>),
                    Row(TRUE, x_w, x_d, E, E, E, E, x_h09, x_b510, x_h0e, <<G(x_x, E, x_UIN, E, E, E)>>) }
FamilyA3(th) ==
  UNION { { <<NoTpl, MsgFile(HComment, <<Upd(Upd(Upd(BaseD, a[1]), b[1]), c[1]), Upd(Upd(Upd(BaseR, a[2]), b[2]), c[2])>>)>> :
              a \in Core[i], b \in Core[j], c \in Core[k] } : i, j, k \in 1..Len(Core) }
  \cup UNION { { <<NoTpl, MsgFile(HComment, <<Upd(Upd(BaseD, a[1]), b[1]), d2, Upd(Upd(BaseR, a[2]), b[2])>>)>> :
                   a \in Core[i], b \in Core[j], d2 \in SecondDefaults } : i, j \in 1..Len(Core) }

(***************************************************************************)
(* O: order of appearance                                                   *)
(***************************************************************************)
PoolD(th) == { Row(TRUE, x_r, x_c, E, E, E, E, x_h08, x_b509, x_h0d, <<>>), Row(TRUE, x_r, x_d, E, E, E, E, x_h09, x_b510, E, <<G(x_x, E, x_UCH, E, E, E)>>),
               Row(TRUE, x_w, x_c, E, E, E, E, x_h08, x_b509, x_h0e, <<>>) }
             \cup (IF th THEN { Row(TRUE, x_r, E, E, E, E, E, E, E, E, <<>>) } ELSE {})
PoolR(th) == { Row(FALSE, x_r, E, E, x_a, E, E, E, E, x_h01, <<>>), Row(FALSE, x_r, E, E, x_b, E, E, E, E, x_h02, <<Gf>>),
               Row(FALSE, x_w, E, E, x_a, E, E, E, E, x_h01, <<Gf>>) }
             \cup (IF th THEN { Row(FALSE, x_r, x_e, E, x_a, E, E, x_h0a, x_b509, x_h01, <<>>) } ELSE {})
FamilyO(th) ==
  LET P == PoolD(th) \cup PoolR(th)
      maxR == IF th THEN 3 ELSE 2
      seqs == UNION { [1..n -> P] : n \in 1..(maxR + 2) }
      good(s) == LET nd == Cardinality({k \in 1..Len(s) : s[k].d}) IN
                 /\ nd <= 2 /\ Len(s) - nd \in 1..maxR
                 /\ (Len(s) > 3 => \A i, j \in 1..Len(s) : (i # j /\ ~s[i].d /\ ~s[j].d) => s[i] # s[j])   \* longer files: distinct rows
  IN { <<NoTpl, MsgFile(HComment, s)>> : s \in {q \in seqs : good(q)} }

(***************************************************************************)
(* TT: template files                                                       *)
(***************************************************************************)
TplRows == { TRow(x_t, TG(x_UCH, x_p10, x_v, x_k), <<>>), TRow(x_t, TG(x_UCH, x_m10, E, E), <<>>), TRow(x_n, TG(x_UCH, x_vxy, E, x_k), <<>>),
             TRow(x_k, TG(x_UCH, x_c1, E, E), <<>>), TRow(x_t, TG(x_STR2, E, E, E), <<>>),
             TRow(x_s, TG(x_UCH, E, x_v, x_k), <<G(x_g, E, x_UIN, x_p10, E, E)>>), TRow(x_ab, TG(x_t, x_p10, E, E), <<>>),
             TRow(x_tt, TG(x_t, x_p10, E, E), <<>>), TRow(x_q, TG(x_tz, E, x_m, E), <<>>), TRow(x_s2, TG(x_s, x_p10, E, E), <<>>),
             TRow(x_s, TG(x_t, E, E, E), <<G(x_g, E, x_n, E, E, E)>>), TRow(x_n, TG(x_t, x_v2z, E, E), <<>>), TRow(x_t, TG(x_NIX, E, E, E), <<>>),
             TRow(x_t, TG(E, E, E, E), <<>>), TRow(x_s3k, TG(x_s, E, E, E), <<>>) }
FamilyTT(th) ==
  LET rows == TplRows
      seqs == {<<>>} \cup {<<a>> : a \in rows} \cup {<<a, b>> : a, b \in rows}
              \cup (IF th THEN {<<a, b, c>> : a, b, c \in rows}
                    ELSE {<<a, b, c>> : a \in {TRow(x_t, TG(x_UCH, x_p10, x_v, x_k), <<>>), TRow(x_t, TG(x_UCH, x_m10, E, E), <<>>)},
                                        b \in {TRow(x_tt, TG(x_t, x_p10, E, E), <<>>), TRow(x_s, TG(x_t, E, E, E), <<G(x_g, E, x_n, E, E, E)>>),
                                               TRow(x_n, TG(x_UCH, x_vxy, E, x_k), <<>>)}, c \in rows})
  IN { <<TplFile(s), <<x_hashT>>>> : s \in seqs }
     \cup { <<<<x_tplHdr>> \o s, <<x_hashT>>>> : s \in {<<a>> : a \in rows} }
     \cup { <<<<x_blank, a, x_hashX, x_blank, b>>, <<x_hashT>>>> : a, b \in {TRow(x_t, TG(x_UCH, x_p10, x_v, x_k), <<>>), TRow(x_t, TG(x_NIX, E, E, E), <<>>),
                                                                           TRow(x_tt, TG(x_t, x_p10, E, E), <<>>)} }

(***************************************************************************)
(* TU: template usage                                                       *)
(***************************************************************************)
(* <<template file rows, type cells to use>> *)
TplSets == {
  << <<TRow(x_t, TG(x_UCH, x_p10, x_v, x_k), <<>>)>>, {x_t, x_tg, x_x} >>,
  << <<TRow(x_t, TG(x_UCH, x_m10, E, E), <<>>)>>, {x_t} >>,
  << <<TRow(x_t, TG(x_D2C, E, x_v, E), <<>>)>>, {x_t, x_tg} >>,
  << <<TRow(x_n, TG(x_UCH, x_vxy, E, x_k), <<>>)>>, {x_n} >>,
  << <<TRow(x_k, TG(x_UCH, x_c1, E, E), <<>>)>>, {x_k} >>,
  << <<TRow(x_t, TG(x_STR2, E, E, E), <<>>)>>, {x_t} >>,
  << <<TRow(x_s, TG(x_UCH, E, x_v, x_k), <<G(x_g, E, x_UIN, x_p10, E, E)>>)>>, {x_s, x_sg} >>,
  << <<TRow(x_ab, TG(x_UCH, x_p10, E, E), <<>>)>>, {x_a, x_b} >>,
  << <<TRow(x_t, TG(x_UCH, x_p10, x_v, x_k), <<>>), TRow(x_tt, TG(x_t, x_p10, E, E), <<>>), TRow(x_q, TG(x_tz, E, x_m, E), <<>>)>>, {x_tt, x_q} >>,
  << <<TRow(x_t, TG(x_UCH, x_p10, E, E), <<>>), TRow(x_n, TG(x_UCH, x_vxy, E, E), <<>>), TRow(x_s, TG(x_t, E, E, E), <<G(x_g, E, x_n, E, E, E)>>)>>, {x_s, x_n} >>,
  << <<TRow(x_s, TG(x_UCH, E, x_v, x_k), <<G(E, E, x_STR2, E, E, E)>>), TRow(x_s2, TG(x_s, E, x_m, E), <<>>)>>, {x_s, x_s2} >> }
UseRow(gs) == Row(FALSE, x_r, x_c, E, x_a, E, E, x_h08, x_b509, x_h01, gs)
FamilyTU(th) ==
  UNION { { <<TplFile(ts[1]), MsgFile(HComment, <<UseRow(<<G(nm, E, ty, dv, un, E)>> \o more)>>)>> :
              nm \in {E, x_f}, ty \in ts[2] \cup {x_UCH}, dv \in {E, x_p10, x_m10, x_v2z, x_c1} \cup (IF th THEN {x_p1, x_m2, x_vxy} ELSE {}),
              un \in {E, x_z}, more \in {<<>>, <<Gg>>} \cup (IF th THEN {<<G(E, E, CHOOSE q \in ts[2] : TRUE, E, E, x_m)>>} ELSE {}) }
          : ts \in TplSets }

(***************************************************************************)
(* P: part, direction, destination                                          *)
(***************************************************************************)
FamilyP(th) == { <<NoTpl, MsgFile(HComment, <<Row(FALSE, ty, x_c, E, x_a, E, E, zz, x_b509, x_h01, <<G(x_f, pt, x_UCH, E, E, E), G(x_g, E, x_UIN, E, E, E)>>)>>)>> :
               ty \in {x_r, x_w, x_u, x_uw}, zz \in {E, x_h08, x_h10, x_hfe}, pt \in {E, x_m, x_s, x_S, x_M, x_X} }

(***************************************************************************)
(* H: header kinds, comment / blank lines, field group layout               *)
(***************************************************************************)
HRows == << Row(TRUE, x_r, x_c, x_lv, E, E, E, x_h08, x_b509, x_h0d, <<>>),
            Row(FALSE, x_r, E, E, x_a, E, E, E, E, x_h01, <<Gf, Gg>>),
            Row(FALSE, x_r3, x_d, x_l2, x_b, x_k, x_h10, x_h09, E, x_h02, <<G(E, x_m, x_UCH, E, E, E)>>) >>
Headers == {HComment, HBlank, HSlashes, HDefault, HUpper, HLevel, HSwap, HNoGroup, HNoPbsb, HNoFieldType, HDupName, HEmptyName}
(* decoration: lines inserted behind the header (1), between the rows (2, 3), at the end (4) *)
Decorate(ls, deco) == <<ls[1]>> \o deco[1] \o <<ls[2]>> \o deco[2] \o <<ls[3]>> \o deco[3] \o <<ls[4]>> \o deco[4]
Decos == { <<<<>>, <<>>, <<>>, <<>>>>, <<<<x_blank>>, <<>>, <<>>, <<>>>>, <<<<>>, <<x_hashX>>, <<x_slashes, x_blank>>, <<>>>>,
           <<<<x_hashX, x_blank>>, <<>>, <<x_blank>>, <<x_blank, x_hashX>>>>, <<<<>>, <<>>, <<>>, <<x_blank>>>>, <<<<>>, <<<<COMMA, COMMA, COMMA>>>>, <<>>, <<>>>> }
LayoutLines == {
  <<x_hashT, <<114,44,99,44,97,44,44,44,48,56,44,98,53,48,57,44,48,49,44,44,44,44,44,44,44,103,44,44,85,67,72,44,44,44,44,44,44,44,44,44,44,104,44,44,85,73,78>>>>,
      \* r,c,a,,,08,b509,01,,,,,,,g,,UCH,,,,,,,,,,h,,UIN        (empty groups in front of and between fields)
  <<x_hashT, <<114,44,99,44,97,44,44,44,48,56,44,98,53,48,57,44,48,49,44,102,44,44,85,67,72,44,44,44,44,44,44,44,44,44,44,44,44>>>>,
      \* r,c,a,,,08,b509,01,f,,UCH,,,,,,,,,,,,                   (trailing empty groups)
  <<x_hashT, <<32,114,32,44,32,99,44,97,32,44,44,44,32,48,56,44,98,53,48,57,32,32,44,48,49,44,32,102,44,44,32,85,67,72,32,44,32,49,48,32>>>>,
      \* " r , c,a ,,, 08,b509  ,01, f,, UCH , 10 "               (blanks around cells)
  <<x_hashT, <<114,44,99,44,97,44,44,44,48,56,44,98,53,48,57>>>>,     \* r,c,a,,,08,b509   (no id cell)
  <<x_hashT, <<114,44,99,44,97>>>>,                                    \* r,c,a             (no pbsb)
  <<x_hdrNoGroup, <<114,44,99,44,97,44,48,56,44,98,53,48,57,44,48,49,44,102>>>>,     \* r,c,a,08,b509,01,f   (more cells than columns)
  <<x_hdrNoGroup, <<114,44,99,44,97,44,48,56,44,98,53,48,57,44,48,49,44>>>>,         \* r,c,a,08,b509,01,    (an empty cell more)
  <<x_hdrNoGroup, <<114,44,99,44,97,44,48,56,44,98,53,48,57>>>>,                     \* r,c,a,08,b509
  <<<<114,44,99,44,97,44,44,44,48,56,44,98,53,48,57,44,48,49>>>>,                    \* a definition as first line
  <<x_hashT, <<114,44,99,44,97,44,44,44,48,56,44,98,53,48,57,44,48,49>>, <<42,114>>, <<114,44,44,98,44,44,44,48,56,44,98,53,48,57,44,48,50>>>> }
      \* "*r" alone resets the defaults of r
FamilyH(th) ==
  { <<NoTpl, Decorate(MsgFile(h, HRows), d)>> : h \in Headers, d \in Decos }
  \cup { <<NoTpl, Decorate(MsgFileTrim(h, HRows), d)>> : h \in Headers, d \in Decos }
  \cup { <<NoTpl, Decorate(MsgFile(HComment, HRows), d) \o <<RenderRow(HComment, HRows[2])>>>> : d \in Decos }     \* a repeated row: rejected at the last line
  \cup { <<NoTpl, Decorate(MsgFile(HComment, HRows), d) \o <<x_hashX, RenderRow(HComment, [HRows[3] EXCEPT !.name = x_a])>>>> : d \in Decos }
  \cup { <<NoTpl, l>> : l \in LayoutLines }

(***************************************************************************)
(* K: identity of messages                                                  *)
(***************************************************************************)
KRow(ty, ci, nm, qq, zz, id) == Row(FALSE, ty, ci, E, nm, E, qq, zz, x_b509, id, <<>>)
KPool == { KRow(ty, ci, nm, qq, zz, id) : ty \in {x_r, x_w, x_u, x_uw}, ci \in {x_c, x_C}, nm \in {x_a, x_A, x_b}, qq \in {E, x_h10}, zz \in {x_h08, x_h09},
                                          id \in {x_h01, x_h02} }
KFirst == { KRow(ty, x_c, x_a, E, x_h08, x_h01) : ty \in {x_r, x_w, x_u, x_uw} }
FamilyK(th) ==
  { <<NoTpl, MsgFile(HComment, <<a, b>>)>> : a \in KFirst, b \in KPool }
  \cup { <<NoTpl, MsgFile(HComment, <<a, KRow(x_r3, x_d, x_b, E, x_h08, x_h02), b>>)>> : a \in KFirst, b \in KPool }
  \cup (IF th THEN { <<NoTpl, MsgFile(HComment, <<a, b>>)>> : a \in {KRow(ty, x_C, x_b, x_h10, x_h09, x_h02) : ty \in {x_r, x_w, x_u, x_uw}}, b \in KPool }
                   \cup { <<NoTpl, MsgFile(HComment, <<KRow(x_rw, x_c, x_a, E, x_h08, x_h01), b>>)>> : b \in KPool }
                   \cup { <<NoTpl, MsgFile(HComment, <<KRow(x_r, x_c, x_a, E, x_z0809, x_h01), b>>)>> : b \in KPool }
        ELSE {})

(***************************************************************************)
(* X: defaults + templates + ZZ lists                                       *)
(***************************************************************************)
FamilyX(th) ==
  LET tf == TplFile(<<TRow(x_t, TG(x_UCH, x_p10, x_v, x_k), <<>>), TRow(x_s, TG(x_t, E, E, E), <<G(x_g, E, x_UIN, E, E, E)>>)>>) IN
  { <<tf, MsgFile(HComment, <<Row(TRUE, dty, x_c, E, E, E, E, zz, x_b509, x_h0d, dg),
                              Row(FALSE, rty, E, E, x_a, E, E, E, E, x_h01, rg),
                              Row(FALSE, rty, x_d, E, x_b, E, E, rzz, E, x_h02, rg)>>)>> :
      dty \in {x_r, x_w}, rty \in {x_r, x_w, x_rw}, zz \in {x_h08, x_z0809, x_hfe}, rzz \in {E, x_h10},
      dg \in {<<>>, <<G(x_x, E, x_t, E, E, E)>>, <<G(E, E, x_s, E, E, E)>>},
      rg \in {<<>>, <<G(x_f, E, x_t, x_p10, E, E)>>, <<G(E, x_s, x_s, E, E, E), Gg>>} }

Files(th) == FamilyA(th) \cup (IF th THEN FamilyA3(th) ELSE {}) \cup FamilyO(th) \cup FamilyTT(th) \cup FamilyTU(th) \cup FamilyP(th) \cup FamilyH(th) \cup FamilyK(th) \cup FamilyX(th)
FamilySizes(th) == <<Cardinality(FamilyA(th) \cup (IF th THEN FamilyA3(th) ELSE {})), Cardinality(FamilyO(th)), Cardinality(FamilyTT(th)), Cardinality(FamilyTU(th)), Cardinality(FamilyP(th)),
                     Cardinality(FamilyH(th)), Cardinality(FamilyK(th)), Cardinality(FamilyX(th))>>
=============================================================================
