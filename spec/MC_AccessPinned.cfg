CONSTANTS
  StarMode = "whole"
  McTier = "quick"
INIT McInit
NEXT McNext
INVARIANT SImpliesP
INVARIANT SUserTracked
