------------------------------ MODULE ProtoLive ------------------------------
(* C04, liveness part: on the transition graph extracted from the real handler,   *)
(* every pending request is eventually completed (or restarted by its callback),  *)
(* provided the bus keeps making progress: infinitely often a SYN is received or   *)
(* the signal is lost for long (both are environment choices in the graph).        *)
(* Checked by TLC as a temporal property; a counterexample is a lasso in the       *)
(* real handler's graph on which a request stays pending forever.                  *)
EXTENDS BusMonitors, Sequences

G == ndJsonDeserialize(IOEnv.VF_GRAPH)
NReq == 3

VARIABLES node, qm, prog, lastIn
vars == <<node, qm, prog, lastIn>>

RECURSIVE FoldQ(_, _, _)
FoldQ(q, evs, k) == IF k > Len(evs) THEN q ELSE FoldQ(ReqEv(q, evs[k]), evs, k + 1)
Progress(evs) == \E k \in 1..Len(evs) : (evs[k][1] = "rx" /\ evs[k][2] = SYN) \/ (evs[k][1] = "to" /\ evs[k][2] = 2)
IsStep(tok) == ~(\E p \in {"SUB=", "POLL"} : Len(tok) >= 4 /\ SubSeq(tok, 1, 4) = p) /\ tok # "RECONNECT"

Init == node = 1 /\ qm = ReqInit /\ prog = FALSE /\ lastIn = ""
Next == \E k \in 1..Len(G[node].succ) :
          LET e == G[node].succ[k] IN
          /\ node' = e.to
          /\ qm' = FoldQ(qm, e.ev, 1)
          /\ prog' = (IsStep(e.in) /\ Progress(e.ev))
          /\ lastIn' = e.in
Spec == Init /\ [][Next]_vars /\ WF_vars(Next)

Pending(r) == StOf(qm, r) = "active"
Live == ([]<>prog) => \A r \in 1..NReq : (Pending(r) ~> ~Pending(r))
=============================================================================
