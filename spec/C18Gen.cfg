
