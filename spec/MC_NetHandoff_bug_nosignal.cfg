CONSTANTS Variant = "small" Bug = "nosignal"
SPECIFICATION FairSpec
INVARIANT McOk
INVARIANT McNoDangle
PROPERTY McLive
