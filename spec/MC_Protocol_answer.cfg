\* answer mode: two registered answers for slave 36 (id 42 -> 01 42, any -> 00), passive traffic to 36 and 15; NN <= 1
CONSTANTS
  PC <- MCPC_answer
  Cfg <- MCCfg
  Mons = {"r", "t", "a"}
  QQs = {3}
  ZZs = {54, 21}
  Datas = {66, 0}
  Winners = {3}
  NNMax = 1
  SNNMax = 0
  SubmitWhen = 0
  PBs = {181}
  SBs = {9}
  Junk = {66}
  LongTo = TRUE
  LongToAny = FALSE
  ReadErr = FALSE
  WriteErr = FALSE
  EchoFaults = FALSE
  ArbNone = TRUE
  LateEcho = FALSE
  EscQQ = FALSE
  OpenFail = FALSE
  Reconnect = FALSE
INIT Init
NEXT Next
VIEW View
INVARIANT MonOk
INVARIANT NoUb
INVARIANT ArbSane
