------------------------------- MODULE MqttGen -------------------------------
(* emits the worlds and sessions of MqttDomain.tla as ndjson case files for harness/grow_mqtt.cpp *)
EXTENDS MqttDomain, Json, IOUtils, SequencesExt
Tier == IOEnv.VF_TIER
ASSUME /\ ndJsonSerialize(IOEnv.VF_WORLDS, SetToSeq(Worlds(Tier)))
       /\ ndJsonSerialize(IOEnv.VF_SESSIONS, SetToSeq(Sessions(Tier)))
       /\ PrintT(<<"VF", "GEN", Cardinality(Worlds(Tier)), Cardinality(Sessions(Tier))>>)
VARIABLE gx
Init == gx = 0
Next == gx' = gx
=============================================================================
