------------------------------ MODULE HexArgs ------------------------------
(* Growth (no listed property): the payload of the `hex` command (MainLoop::parseHexMaster, also behind `read -h`,      *)
(* `write -h` and direct mode).  From the usage text "hex [-s QQ] [-n] ZZPBSBNNDD...: send arbitrary data" and the     *)
(* ChangeLog: the payload may be written in several blank separated tokens; it is a sequence of BYTES, two hex digits   *)
(* each, so every token holds whole bytes.  P: the telegram put on the bus is exactly QQ + the bytes the client wrote,   *)
(* and a payload with a token that is not a whole number of hex bytes (or a wrong NN) never reaches the bus.              *)
(* Two roles: VF_OUT set = generator (emits the cases), VF_RECS set = judge of the records of harness/grow_hexargs.cpp.  *)
EXTENDS Naturals, Sequences, FiniteSets, TLC, Json, IOUtils, SequencesExt

HexDigit(c) == c \in (48..57) \cup (97..102) \cup (65..70)
Val(c) == IF c <= 57 THEN c - 48 ELSE IF c >= 97 THEN c - 87 ELSE c - 55
TokenOk(t) == Len(t) % 2 = 0 /\ \A k \in DOMAIN t : HexDigit(t[k])
RECURSIVE Flat(_)
Flat(ts) == IF ts = <<>> THEN <<>> ELSE Head(ts) \o Flat(Tail(ts))
Bytes(t) == [k \in 1..(Len(t) \div 2) |-> 16 * Val(t[2 * k - 1]) + Val(t[2 * k])]
(* the telegram (without QQ) a well-formed payload encodes *)
WellFormed(ts) == /\ ts # <<>> /\ \A k \in DOMAIN ts : TokenOk(ts[k]) /\ ts[k] # <<>>
                  /\ LET b == Bytes(Flat(ts)) IN Len(b) >= 4 /\ b[4] = Len(b) - 4
Refused(a) == Len(a) >= 4 /\ SubSeq(a, 1, 4) = <<69, 82, 82, 58>>      \* "ERR:"
Ok(r) == IF WellFormed(r.t)
         THEN LET b == Bytes(Flat(r.t)) IN
              /\ Len(r.bus) = 1 /\ Len(r.bus[1]) >= Len(b) + 1 /\ SubSeq(r.bus[1], 2, Len(b) + 1) = b
              /\ ~Refused(r.a)
         ELSE r.bus = <<>> /\ Refused(r.a)
Sig(r) == IF WellFormed(r.t) THEN (IF r.bus = <<>> THEN "well-formed-payload-refused" ELSE "other-telegram-than-written")
          ELSE IF r.bus # <<>> THEN "telegram-the-client-never-encoded" ELSE "malformed-payload-not-refused"

(* ---- domain: every split of the payload into at most three tokens, of its upper-case form, of the payload with a  *)
(* ---- dangling nibble, with a wrong NN and with a non-hex character                                                *)
Base == <<48, 56, 98, 53, 48, 57, 48, 50, 48, 100, 48, 49>>            \* 08b509020d01 = read of slot 1
Upper == [k \in DOMAIN Base |-> IF Base[k] >= 97 THEN Base[k] - 32 ELSE Base[k]]
Dangling == SubSeq(Base, 1, 11)
WrongNN == [Base EXCEPT ![8] = 51]                                      \* NN = 03 with two data bytes
NonHex == [Base EXCEPT ![3] = 103]                                      \* 'g'
Splits(s, maxTok) ==
  { [k \in 1..(Cardinality(c) + 1) |->
       LET cs == SetToSortSeq(c, <) IN
       SubSeq(s, IF k = 1 THEN 1 ELSE cs[k - 1] + 1, IF k = Cardinality(c) + 1 THEN Len(s) ELSE cs[k])] :
    c \in {x \in SUBSET (1..(Len(s) - 1)) : Cardinality(x) < maxTok} }
Cases == Splits(Base, 3) \cup Splits(Upper, 2) \cup Splits(Dangling, 3) \cup Splits(WrongNN, 2) \cup Splits(NonHex, 2)

IsGen == "VF_OUT" \in DOMAIN IOEnv
ASSUME IsGen => /\ ndJsonSerialize(IOEnv.VF_OUT, [k \in 1..Cardinality(Cases) |-> [t |-> SetToSeq(Cases)[k]]])
                /\ PrintT(<<"VF", "GEN", Cardinality(Cases)>>)
Recs == IF IsGen THEN <<>> ELSE ndJsonDeserialize(IOEnv.VF_RECS)
N == Len(Recs)
(* the judged records are exactly the domain; both verdicts occur (vacuity) *)
ASSUME IsGen \/ /\ {Recs[k].t : k \in 1..N} = Cases /\ N = Cardinality(Cases)
                /\ \E k \in 1..N : WellFormed(Recs[k].t) /\ Len(Recs[k].t) = 3
                /\ \E k \in 1..N : ~WellFormed(Recs[k].t) /\ Len(Flat(Recs[k].t)) % 2 = 0 /\ \A j \in DOMAIN Recs[k].t : \A c \in DOMAIN Recs[k].t[j] : HexDigit(Recs[k].t[j][c])
VARIABLE i
Init == i = 0
Next == i < N /\ i' = i + 1
Judge == i = 0 \/ Ok(Recs[i]) \/ ~PrintT(<<"VF", "BAD", i, Sig(Recs[i])>>)
=============================================================================
