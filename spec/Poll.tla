-------------------------------- MODULE Poll --------------------------------
(* C17 - polling is starvation-free and proportional to priority.                                   *)
(*                                                                                                  *)
(* P  (observables only: which message getNextPoll returned, the public poll priorities, the        *)
(*    perturbing calls):  a monitor with  wait[m] = selections since m was selected last,           *)
(*    pert[m] = perturbations since then, and weighted selection counts on perturbation-free        *)
(*    stretches.  Bounds: WaitBound / PropBound below.                                              *)
(* S  two layers.  Abstract: the virtual-time scheduler (order, prio, lastPoll, gLast) with         *)
(*    arg-min selection (AbsTop).  Concrete: the std::vector inside MessagePriorityQueue with       *)
(*    libstdc++ push_heap / pop_heap sift semantics, the erase-from-the-middle of push()/remove()   *)
(*    and keys changed in place by Message::setPollPriority - only this layer can be bound to the   *)
(*    code, because after such operations the vector is no longer a heap.                           *)
(* The monitor and the step functions are plain operators (one definition, two uses): MCPoll.tla     *)
(* (MC_Poll*.cfg) explores S with the monitor attached; C17Graph.tla runs the same monitor on the    *)
(* graph extracted from the real MessageMap and compares every extracted edge with the concrete      *)
(* step function.                                                                                    *)
EXTENDS Integers, Sequences, FiniteSets, TLC

Max2(a, b) == IF a >= b THEN a ELSE b
Min2(a, b) == IF a <= b THEN a ELSE b
CeilDiv(a, b) == (a + b - 1) \div b
RECURSIVE SumSeq(_, _)
SumSeq(f, n) == IF n = 0 THEN 0 ELSE f[n] + SumSeq(f, n - 1)

-----------------------------------------------------------------------------
(* ------------------------------- P ------------------------------------- *)
(* kinds of observable events: "next" (a selection, with the selected message), perturbations        *)
PertKinds == {"setprio", "addback", "addfront", "conduse", "readd", "replace"}
(* "replace" (a definition with the same key read again, MessageMap::add(..., replace)): removal of the old instance plus a newly
   added poll message - like "readd" the message starts a new wait, with the priority of the new definition *)
(* "reload" (all messages new) and "otherclear" (another MessageMap instance cleared/reloaded/destroyed: no event of this map,
   its obligations run on unchanged) are handled separately *)

(* prio: sequence of public priorities (0 = not polled)                                              *)
Active(prio) == {m \in 1..Len(prio) : prio[m] > 0}
MaxPrio(prio) == LET A == Active(prio) IN IF A = {} THEN 0 ELSE CHOOSE p \in {prio[m] : m \in A} : \A m \in A : prio[m] <= p

(* (i) bounded wait: between two selections of m every other k is due about prio[m]/prio[k] times; *)
(*     every perturbation may cost one more round.                                                  *)
(*     Priorities may change while m waits: the bound uses the largest priority value m has had (mx)    *)
(*     and the smallest value every k has had (lo) in the run so far - a wait accumulated under        *)
(*     priority 7, or while k still had priority 1, is not late because a priority was changed a moment *)
(*     ago.  TLC refuted the first version, which used the current priorities (MC_Poll_hi.cfg).        *)
(*     Other messages may lag behind the virtual clock by up to hi (the largest priority seen in the    *)
(*     run; same reason as in (ii): after an in-place key change g_lastPollOrder can overtake queued    *)
(*     messages) while m - e.g. a message added at g_lastPollOrder + priority - is up to mx[m] ahead     *)
(*     of it: k is due at most ceil((mx[m] + hi) / lo[k]) + 1 times before m.  TLC refuted the version   *)
(*     without "+ hi" on the design with the repaired MessageMap::add (MC_Poll_readd_t.cfg: N=3,         *)
(*     wait 12 > 11 after setprio / re-add / front insertions left two messages 4 and 2 behind).        *)
WaitBound(m, prio, pert, mx, lo, hi) ==
  LET A == Active(prio) IN
  SumSeq([k \in 1..Len(prio) |-> IF k \in A THEN CeilDiv(mx[m] + hi, lo[k]) + 1 ELSE 0], Len(prio)) + Cardinality(A) * (1 + pert)
(* (ii) proportionality on a perturbation-free stretch: weighted counts stay together.  On a stretch    *)
(*      the weighted count of m is the advance of its virtual time, so two weighted counts differ by    *)
(*      at most (spread of the virtual times at the start) + (spread at the end).  hi = the largest     *)
(*      priority observed so far in the run: a perturbation can leave a message up to hi behind or hi   *)
(*      ahead of the virtual clock (start spread <= 2 hi), arg-min selection keeps the end spread       *)
(*      <= hi.  TLC refuted two earlier versions of this constant on the design: 2*max(current          *)
(*      priorities)+N (setprio 7 -> 3) and 2*hi+N (priority 7, then used by a condition => 5);          *)
(*      see MC_Poll_hi.cfg.                                                                              *)
PropBound(prio, hi) == 3 * hi + Cardinality(Active(prio))

(* monitor state.  K = number of perturbations (since m's last selection) up to which m's wait is     *)
(* judged; beyond it m is not judged until it is selected again (keeps the monitor finite, sound).    *)
MonInit(n) == [wait |-> TLCEval([m \in 1..n |-> 0]), pert |-> TLCEval([m \in 1..n |-> 0]), cnt |-> TLCEval([m \in 1..n |-> 0]), mx |-> TLCEval([m \in 1..n |-> 0]), lo |-> TLCEval([m \in 1..n |-> 0]), hi |-> 0]

(* run extremes of every message's priority (a re-added message is a new message) *)
MxStep(mon, prio, fresh) == TLCEval([m \in DOMAIN mon.mx |-> IF prio[m] = 0 \/ m = fresh THEN prio[m] ELSE Max2(mon.mx[m], prio[m])])
LoStep(mon, prio, fresh) == TLCEval([m \in DOMAIN mon.lo |-> IF prio[m] = 0 \/ m = fresh \/ mon.lo[m] = 0 THEN prio[m] ELSE Min2(mon.lo[m], prio[m])])
MinCnt(cnt, A) == IF A = {} THEN 0 ELSE CHOOSE c \in {cnt[m] : m \in A} : \A m \in A : cnt[m] >= c
(* a selection of sel; prio = priorities after the step.  The wait of a message that is currently not *)
(* judged (more than K perturbations since its last selection) is not counted: keeps the monitor finite *)
MonSelect(mon, sel, prio, K) ==
  LET A == Active(prio)
      w == [m \in DOMAIN mon.wait |-> IF m = sel \/ m \notin A \/ mon.pert[m] > K THEN 0 ELSE mon.wait[m] + 1]
      p == [m \in DOMAIN mon.pert |-> IF m = sel \/ m \notin A THEN 0 ELSE mon.pert[m]]
      c0 == [m \in DOMAIN mon.cnt |-> IF m \notin A THEN 0 ELSE IF m = sel THEN mon.cnt[m] + prio[m] ELSE mon.cnt[m]]
      lo == MinCnt(c0, A)
      c == [m \in DOMAIN c0 |-> IF m \in A THEN c0[m] - lo ELSE 0] IN
  [mon EXCEPT !.wait = TLCEval(w), !.pert = TLCEval(p), !.cnt = TLCEval(c), !.hi = Max2(mon.hi, MaxPrio(prio)),
             !.mx = MxStep(mon, prio, 0), !.lo = LoStep(mon, prio, 0)]
(* a perturbation (kind, who): the stretch restarts and the allowance of every OTHER message grows -    *)
(* the event may legitimately have put who in front of them.  It does not extend who's own wait        *)
(* budget: a priority change / (re-)insertion of a queued message never moves that message back        *)
(* (setPollPriority only ever pulls it forward: order := min(order, g_lastPollOrder + p); front/back   *)
(* insertion keeps its order), so who stays judged, with its wait, for any number of events applied    *)
(* to itself; its bound uses the largest priority it has had (mx).  A re-added message is a new        *)
(* message and starts a new wait.                                                                      *)
MonPerturb(mon, kind, who, prio, K) ==
  LET A == Active(prio)
      fresh(m) == m \notin A \/ (kind \in {"readd", "replace"} /\ m = who) IN
  [wait |-> TLCEval([m \in DOMAIN mon.wait |-> IF fresh(m) \/ (m # who /\ mon.pert[m] >= K) THEN 0 ELSE mon.wait[m]]),
   pert |-> TLCEval([m \in DOMAIN mon.pert |-> IF fresh(m) THEN 0 ELSE IF m = who THEN mon.pert[m] ELSE Min2(mon.pert[m] + 1, K + 1)]),
   cnt |-> TLCEval([m \in DOMAIN mon.cnt |-> 0]),
   mx |-> MxStep(mon, prio, IF kind \in {"readd", "replace"} THEN who ELSE 0), lo |-> LoStep(mon, prio, IF kind \in {"readd", "replace"} THEN who ELSE 0),
   hi |-> Max2(mon.hi, MaxPrio(prio))]

(* a reload of the map: every message is a new message *)
MonReload(mon, prio) ==
  [wait |-> TLCEval([m \in DOMAIN mon.wait |-> 0]), pert |-> TLCEval([m \in DOMAIN mon.pert |-> 0]), cnt |-> TLCEval([m \in DOMAIN mon.cnt |-> 0]),
   mx |-> prio, lo |-> prio, hi |-> Max2(mon.hi, MaxPrio(prio))]

WaitOk(mon, prio, K) == \A m \in Active(prio) : mon.pert[m] <= K => mon.wait[m] <= WaitBound(m, prio, mon.pert[m], MxStep(mon, prio, 0), LoStep(mon, prio, 0), Max2(mon.hi, MaxPrio(prio)))
PropOk(mon, prio) == \A m, k \in Active(prio) : mon.cnt[m] - mon.cnt[k] <= PropBound(prio, Max2(mon.hi, MaxPrio(prio)))
WaitWitness(mon, prio, K) == CHOOSE m \in Active(prio) : mon.pert[m] <= K /\ mon.wait[m] > WaitBound(m, prio, mon.pert[m], MxStep(mon, prio, 0), LoStep(mon, prio, 0), Max2(mon.hi, MaxPrio(prio)))

-----------------------------------------------------------------------------
(* ------------------------------- S ------------------------------------- *)
(* scheduler state s: [vec, ord, prio, lp, used, g, now]                                              *)
(* Message::isLessPollWeight: "a is polled later than b"                                              *)
Less(s, a, b) == \/ s.ord[a] > s.ord[b]
                 \/ s.ord[a] = s.ord[b] /\ s.prio[a] > s.prio[b]
                 \/ s.ord[a] = s.ord[b] /\ s.prio[a] = s.prio[b] /\ s.lp[a] > s.lp[b]

(* abstract layer: the message that should be polled next (arg-min); AbsTop is a set (ties)          *)
AbsTop(s) == {m \in Active(s.prio) : \A k \in Active(s.prio) : ~Less(s, m, k)}

(* libstdc++ std::__push_heap(first, holeIndex, topIndex, value) on a 1-based sequence              *)
RECURSIVE PushHeapAt(_, _, _, _, _)
PushHeapAt(s, v, hole, top, value) ==
  LET parent == hole \div 2 IN      \* 1-based parent of hole ((hole0 - 1) / 2 in 0-based terms)
  IF hole > top /\ Less(s, v[parent], value)
  THEN PushHeapAt(s, [v EXCEPT ![hole] = v[parent]], parent, top, value)
  ELSE [v EXCEPT ![hole] = value]
(* std::push_heap after push_back                                                                    *)
PushHeap(s, v) == IF Len(v) = 0 THEN v ELSE PushHeapAt(s, v, Len(v), 1, v[Len(v)])

(* std::__adjust_heap(first, holeIndex = 0, len, value): 0-based arithmetic on idx, v is 1-based     *)
RECURSIVE SiftDown(_, _, _, _)
SiftDown(s, v, second, len) ==      \* returns [v, hole] with 0-based hole
  IF second < (len - 1) \div 2
  THEN LET c0 == 2 * (second + 1)
           c == IF Less(s, v[c0 + 1], v[c0]) THEN c0 - 1 ELSE c0 IN
       SiftDown(s, [v EXCEPT ![second + 1] = v[c + 1]], c, len)
  ELSE IF len % 2 = 0 /\ second = (len - 2) \div 2
       THEN LET c0 == 2 * (second + 1) IN [v |-> [v EXCEPT ![second + 1] = v[c0]], hole |-> c0 - 1]
       ELSE [v |-> v, hole |-> second]
AdjustHeap(s, v, len, value) == LET r == SiftDown(s, v, 0, len) IN PushHeapAt(s, r.v, r.hole + 1, 1, value)
(* std::pop_heap + pop_back: the vector without its first element, re-arranged                       *)
PopHeap(s, v) ==
  LET n == Len(v) IN
  IF n <= 1 THEN <<>>
  ELSE LET value == v[n]
           v1 == [v EXCEPT ![n] = v[1]] IN
       SubSeq(AdjustHeap(s, v1, n - 1, value), 1, n - 1)

Erase(v, m) == SelectSeq(v, LAMBDA x : x # m)        \* entries are distinct
(* MessagePriorityQueue::push *)
QPush(s, m) == [s EXCEPT !.vec = PushHeap(s, Append(Erase(s.vec, m), m))]

(* MessageMap::addPollMessage *)
AddPollF(s, front, m) ==
  IF s.prio[m] > 0
  THEN QPush([s EXCEPT !.lp[m] = IF front THEN 0 ELSE Len(s.vec)], m)
  ELSE s
(* Message::setPollPriority; returns [s, ret] *)
CondPrio == 5
SetPrioF(s, m, p) ==
  IF p = s.prio[m] THEN [s |-> s, ret |-> FALSE]
  ELSE LET use == IF s.used[m] /\ (p = 0 \/ p > CondPrio) THEN CondPrio ELSE p
           ret == s.prio[m] = 0 /\ use > 0
           s1 == [s EXCEPT !.prio[m] = use] IN
       [s |-> IF ret \/ s.ord[m] > s.g + use THEN [s1 EXCEPT !.ord[m] = s.g + use] ELSE s1, ret |-> ret]
(* the call pattern of every caller: if (message->setPollPriority(p)) addPollMessage(false, message) *)
SetPrioCallF(s, m, p) == LET r == SetPrioF(s, m, p) IN IF r.ret THEN AddPollF(r.s, FALSE, m) ELSE r.s
(* SimpleCondition::resolve: setUsedByCondition + addPollMessage(true) *)
CondUseF(s, m) ==
  LET s1 == IF s.used[m] THEN s
            ELSE LET u == [s EXCEPT !.used[m] = TRUE] IN
                 IF s.prio[m] = 0 \/ s.prio[m] > CondPrio THEN SetPrioF(u, m, CondPrio).s ELSE u IN
  AddPollF(s1, TRUE, m)
(* MessageMap::getNextPoll; returns [s, sel] *)
NextF(s) ==
  IF Len(s.vec) = 0 THEN [s |-> s, sel |-> 0]
  ELSE LET ret == s.vec[1]
           s1 == [s EXCEPT !.vec = PopHeap(s, s.vec)]
           s2 == [s1 EXCEPT !.g = Max2(s.g, s.ord[ret]), !.ord[ret] = s.ord[ret] + s.prio[ret], !.lp[ret] = s.now] IN
       [s |-> QPush(s2, ret), sel |-> ret]
(* MessageMap::add of a new Message instance (constructed with poll order 0).  Repaired code: an      *)
(* instance with order 0 and a priority joins the poll cycle at g_lastPollOrder + priority.  pinned =   *)
(* TRUE selects the design before that repair (the instance keeps order 0 and has to catch up), kept   *)
(* for the design-level comparison (MC_Poll_readd_pinned.cfg).                                          *)
NewOrder(s, p0, pinned) == IF pinned \/ p0 = 0 THEN 0 ELSE s.g + p0
(* MessageMap::remove + reading the definition again; also MessageMap::add(..., replace = TRUE) of a    *)
(* definition with the same key and priority p0 (it removes the old instance first)                     *)
ReAddF(s, m, p0, pinned) ==
  LET s1 == [s EXCEPT !.vec = IF s.prio[m] > 0 THEN Erase(s.vec, m) ELSE s.vec,
                      !.ord[m] = NewOrder(s, p0, pinned), !.prio[m] = p0, !.lp[m] = 0, !.used[m] = FALSE] IN
  AddPollF(s1, FALSE, m)
TickF(s, d) == [s EXCEPT !.now = s.now + d]

T0 == 1000          \* clock values are >= T0, the "size" values stored by addPollMessage are < T0
(* MessageMap::clear() + all definitions read again (reload): every message is a new instance, added in  *)
(* definition order; g_lastPollOrder is a file-static and keeps its value                               *)
ReloadF(s, prios, pinned) ==
  LET n == Len(prios)
      blank == [s EXCEPT !.vec = <<>>, !.ord = TLCEval([m \in 1..n |-> 0]), !.prio = TLCEval([m \in 1..n |-> 0]),
                         !.lp = TLCEval([m \in 1..n |-> 0]), !.used = TLCEval([m \in 1..n |-> FALSE])]
      RECURSIVE Load(_, _)
      Load(x, i) == IF i > n THEN x
                    ELSE Load(AddPollF([x EXCEPT !.prio[i] = prios[i], !.ord[i] = NewOrder(x, prios[i], pinned)], FALSE, i), i + 1) IN
  Load(blank, 1)
SInitF(prios, pinned) ==
  LET n == Len(prios) IN
  ReloadF([vec |-> <<>>, ord |-> TLCEval([m \in 1..n |-> 0]), prio |-> TLCEval([m \in 1..n |-> 0]), lp |-> TLCEval([m \in 1..n |-> 0]),
           used |-> TLCEval([m \in 1..n |-> FALSE]), g |-> 0, now |-> T0], prios, pinned)
(* clearing / reloading / destroying ANOTHER MessageMap instance (as MainLoop::m_newlyDefinedMessages on  *)
(* every read/write -def): no effect on this map - it only shares the file-static g_lastPollOrder, which  *)
(* no operation on another map changes                                                                    *)
OtherClearF(s) == s

(* normal form: orders relative to the global minimum, clock values as dense ranks                   *)
(* the minimum is taken over g_lastPollOrder and the messages that are polled; a message without priority keeps   *)
(* its old order, recorded as (capped) distance behind that minimum - the same normal form as the harness key     *)
MinOrd(s) == LET A == {s.ord[m] : m \in Active(s.prio)} \cup {s.g} IN CHOOSE x \in A : \A y \in A : x <= y
Norm(s, capBase) ==
  LET b == MinOrd(s)
      times == {s.lp[m] : m \in {m \in DOMAIN s.lp : s.lp[m] >= T0}} \cup {s.now}
      rank(t) == Cardinality({u \in times : u < t}) IN
  [vec |-> s.vec,
   ord |-> [m \in DOMAIN s.ord |-> IF s.prio[m] = 0 /\ s.ord[m] - b < 0 - capBase THEN 0 - capBase - 1 ELSE s.ord[m] - b],
   prio |-> s.prio, used |-> s.used, g |-> s.g - b,
   base |-> Min2(b, capBase),
   lp |-> [m \in DOMAIN s.lp |-> IF s.lp[m] >= T0 THEN T0 + rank(s.lp[m]) ELSE s.lp[m]], now |-> T0 + rank(s.now)]

=============================================================================
