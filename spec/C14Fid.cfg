CONSTANTS
  OldResetHandling = FALSE
INIT Init
NEXT Next
INVARIANT Judge
