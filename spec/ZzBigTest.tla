---- MODULE ZzBigTest ----
EXTENDS WriteSafe, Json, IOUtils
VARIABLE x
Init == x = 1
Next == x < 100 /\ x' = x + 1
Recs == ndJsonDeserialize(IOEnv.VF_RECS)
Inv == Recs[x].rc < 5 /\ Recs[x].n >= 0 /\ Recs[x].d >= 0 /\ Recs[x].len >= 0
====
