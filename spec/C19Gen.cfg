
