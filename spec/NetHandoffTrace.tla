--------------------------- MODULE NetHandoffTrace ---------------------------
(* Trace validation of recorded concurrent histories of the real Network +     *)
(* Connection threads + MainLoop (harness/net_handoff.cpp) against P of        *)
(* NetHandoff.tla.  One TLC behaviour per history; events are consumed in the  *)
(* recorded order (one global atomic counter: an invocation is logged before   *)
(* the bytes completing the line are sent, a response after its block was      *)
(* received, an exec in the main loop thread while the bus is read); the       *)
(* linearization point of a request that does not touch the bus is an internal *)
(* step.  A history is accepted when all its events are explained and every    *)
(* line of a still open connection was answered (canonical accepting state).   *)
(* Event: <<connection, type, x, y, z>>.                                       *)
EXTENDS NetHandoff, Json, IOUtils

Hists == ndJsonDeserialize(IOEnv.VF_HISTS)
Diag == IOEnv.VF_DIAG = "1"

VARIABLES nh, npos, np
nvars == <<nh, npos, np>>
EvOf(h) == Hists[h].ev

NInit == nh \in 1..Len(Hists) /\ npos = 1 /\ np = PInit(Hists[nh].cnt, Hists[nh].val)

(* the set of P states after consuming event e in P state p (empty: P does not allow the event here) *)
After(p, e) ==
  LET c == e[1]  ty == e[2] IN
  CASE ty = "inv" -> IF c \in Conns /\ PInvOk(p, c, e[3]) THEN {PInv(p, c, e[3], e[4])} ELSE {}
    [] ty = "exec" /\ e[4] = 0 -> {p}     \* bus traffic of the daemon itself (scan), not a request
    [] ty = "exec" -> {PLin(p, k, TRUE) : k \in {k \in Conns : PLinOk(p, k, TRUE, e[4])}}
    [] ty = "resp" -> IF c \in Conns /\ PRespOk(p, c, e[3], e[4], e[5]) THEN {PResp(p, c, e[3])} ELSE {}
    [] ty = "push" -> IF c \in Conns /\ PPushOk(p, c, e[4], e[5]) THEN {PPush(p, c, e[4], e[5])} ELSE {}
    [] ty = "eof" -> IF c \in Conns /\ PEofOk(p, c) THEN {PClose(p, c, "eof")} ELSE {}
    [] ty = "close" -> IF c \in Conns THEN {PClose(p, c, "closed")} ELSE {}
    [] ty = "shut" -> IF c \in Conns /\ p.cst[c] = "open" THEN {PClose(p, c, "shut")} ELSE {}
    [] ty = "tick" -> {PTick(p)}
    [] ty = "senderr" -> {p}
    [] OTHER -> {}              \* blank, partial, hang, connfail: never allowed

NEvent == /\ npos > 0 /\ npos <= Len(EvOf(nh))
          /\ np' \in After(np, EvOf(nh)[npos])
          /\ npos' = npos + 1 /\ UNCHANGED nh
NLin(c) == /\ npos > 0 /\ npos <= Len(EvOf(nh))
           /\ PLinOk(np, c, FALSE, 0)
           /\ np' = PLin(np, c, FALSE)
           /\ UNCHANGED <<nh, npos>>
NDone == /\ npos > Len(EvOf(nh))
         /\ PFinalOk(np)
         /\ npos' = 0 /\ np' = PInit(Hists[nh].cnt, Hists[nh].val) /\ UNCHANGED nh
NNext == NEvent \/ (\E c \in Conns : NLin(c)) \/ NDone

Accepted == npos = 0 => PrintT(<<"VF", "ACC", nh>>)
(* diagnosis run on rejected histories only: the deepest position at which a branch got stuck names the offending event *)
Stuck == (Diag /\ npos > 0 /\ (IF npos <= Len(EvOf(nh)) THEN After(np, EvOf(nh)[npos]) = {} ELSE ~PFinalOk(np)))
           => LET c == IF npos <= Len(EvOf(nh)) THEN EvOf(nh)[npos][1] ELSE 0
                  q == IF c \in Conns THEN np.out[c] ELSE <<>> IN
              PrintT(<<"VF", "STUCK", nh, npos, IF q = <<>> THEN "-" ELSE Head(q).k, IF q = <<>> THEN 0 ELSE Head(q).t,
                       IF c \in Conns /\ ~NoDebt(np, c) THEN 1 ELSE 0>>)
=============================================================================
