INIT Init
NEXT Next
