INIT Init
NEXT Next
CONSTANT FIX = {}
