------------------------------- MODULE Access -------------------------------
(* C16 - access levels are enforced on the read, write, poll, hex and HTTP paths and in data sinks.        *)
(*                                                                                                          *)
(* Part P  (property level, written from the property text and the ebusd documentation of ACL files):       *)
(*   Granted, Levels, the session monitor PUsers/POk, the sink rule SinkOk.                                 *)
(* Part S  (code shaped model of Message::checkLevel, MessageMap::find, MainLoop::executeAuth/Read/Write/   *)
(*   Get): SStep.  S exists in two variants, mode "whole" (the pinned code: '*' grants only when it is the   *)
(*   whole list) and "token" (the repaired design).  MC_Access*.cfg explore S exhaustively against P.       *)
(* Part D  (domain): the small worlds and sessions that are replayed on the real daemon (C16Gen emits them, *)
(*   C16Judge judges what the real code did).                                                                *)
(*                                                                                                          *)
(* Texts (levels, level lists) are sequences of character codes.                                            *)
EXTENDS Naturals, Integers, Sequences, FiniteSets, TLC

A == 97      \* 'a'
B == 98      \* 'b'
SEMI == 59   \* ';'
STAR == 42   \* '*'

(***************************************************************************)
(* P: token membership                                                      *)
(***************************************************************************)
(* the set of tokens of a ';'-separated list (empty tokens included) *)
Tokens(s) ==
  LET cut == {0} \cup {k \in 1..Len(s) : s[k] = SEMI} \cup {Len(s) + 1}
  IN {SubSeq(s, a + 1, b - 1) : <<a, b>> \in {p \in cut \X cut : p[1] < p[2] /\ ~\E k \in cut : p[1] < k /\ k < p[2]}}

(* a message of level `level` is accessible with the level list `levels` *)
Granted(level, levels) == level = <<>> \/ <<STAR>> \in Tokens(levels) \/ level \in Tokens(levels)

(* the weaker reading under which '*' counts only when it is the whole list; used ONLY to name the class of a  *)
(* rejected record (signature "star-inside-list"), never to accept anything                                     *)
GrantedWholeStar(level, levels) == level = <<>> \/ levels = <<STAR>> \/ level \in Tokens(levels)

(***************************************************************************)
(* worlds                                                                   *)
(*   [lay, dsrc, d, users, msgs]                                            *)
(*   dsrc  "none" | "opt" (--accesslevel) | "acl" (line "*,secret,levels")  *)
(*   d     default level list                                               *)
(*   users <<[n |-> 1..2, l |-> level list, sep |-> 0|1]>>  (sep: one level *)
(*         per CSV column instead of one ';'-separated column)              *)
(*   msgs  <<[k |-> "r"|"w"|"u", c |-> circuit, n |-> name, lv |-> level]>>  *)
(* user numbers: 0 = nobody, 1,2 = ACL users u1,u2 (secret number = user    *)
(* number), 3 = a name that is not in the ACL; secret 9 = a wrong secret,   *)
(* 0 = no secret given                                                      *)
(***************************************************************************)
HasUser(w, u) == \E i \in DOMAIN w.users : w.users[i].n = u
Entry(w, u) == (CHOOSE i \in DOMAIN w.users : w.users[i].n = u)
Default(w) == IF w.dsrc = "none" THEN <<>> ELSE w.d
Levels(w, u) == IF u # 0 /\ HasUser(w, u) THEN w.users[Entry(w, u)].l ELSE Default(w)
SecretOk(w, u, s) == HasUser(w, u) /\ s = w.users[Entry(w, u)].sec     \* (secret numbers: normally that of the user; 4 = "s4")

(* Ambiguous configurations.  The documentation does not say which entry wins when the default levels are given both   *)
(* by --accesslevel (w.d) and by a '*' line of the ACL file (w.d2, dsrc = "both"), or when a user name occurs on two    *)
(* lines.  P accepts either candidate entry - ONE choice for the whole session, secret and levels of a duplicated user   *)
(* from the SAME line - and never a union or a mix.  Resolve gives the unambiguous world of a choice.                   *)
HasDup(w) == \E i, j \in DOMAIN w.users : i < j /\ w.users[i].n = w.users[j].n
Choices(w) == (IF w.dsrc = "both" THEN {"opt", "line"} ELSE {"x"}) \X (IF HasDup(w) THEN {"first", "last"} ELSE {"x"})
CodeChoice(w) == <<IF w.dsrc = "both" THEN "line" ELSE "x", IF HasDup(w) THEN "last" ELSE "x">>   \* what UserList does: later replaces
RECURSIVE KeepSeq(_, _, _)
KeepSeq(us, keep, k) == IF k > Len(us) THEN <<>> ELSE (IF k \in keep THEN <<us[k]>> ELSE <<>>) \o KeepSeq(us, keep, k + 1)
Resolve(w, ch) ==
  LET keep == {i \in DOMAIN w.users : IF ch[2] = "first" THEN ~\E j \in DOMAIN w.users : j < i /\ w.users[j].n = w.users[i].n
                                       ELSE ~\E j \in DOMAIN w.users : j > i /\ w.users[j].n = w.users[i].n}
  IN [w EXCEPT !.dsrc = IF @ = "both" THEN "opt" ELSE @,
               !.d = IF w.dsrc = "both" /\ ch[1] = "line" THEN w.d2 ELSE @,
               !.users = KeepSeq(w.users, keep, 1)]

Msgs(w) == DOMAIN w.msgs
Active(w, i) == w.msgs[i].k \in {"r", "w"}

(***************************************************************************)
(* commands  [op, m, u, s]   (m = slot the command text is derived from)     *)
(*  auth   auth USER SECRET          auth1  auth USER                        *)
(*  r      read NAME                 rf     read -f NAME                     *)
(*  rc     read -f -c CIRCUIT NAME   rp     read -p 2 -c CIRCUIT NAME        *)
(*  rh     read -f -h ZZPBSBNNID     rhc    read -f -c CIRCUIT -h ...        *)
(*  w      write -c CIRCUIT NAME 7   wh     write -h ...   whc  write -c C -h *)
(*  rhn    read -h ZZPBSBNNID        rcn    read -c CIRCUIT NAME   (cache ok) *)
(*  rm     read -m 0 NAME            rhm    read -m 0 -h ZZPBSBNNID          *)
(*  g gx gq gp gw gm  GET /data/CIRCUIT/NAME?[exact|required&maxage=0|poll=3 *)
(*           |write|maxage=300][&user=U][&secret=S] (a connection of its own) *)
(***************************************************************************)
AuthOps == {"auth", "auth1"}
ReadOps == {"r", "rf", "rc", "rp", "rh", "rhc", "rhn", "rcn", "rm", "rhm"}
WriteOps == {"w", "wh", "whc"}
HttpOps == {"g", "gx", "gq", "gp", "gw", "gm"}
(* things that happen beside the session's connection:                                                        *)
(*  xr   ANOTHER telnet connection: [auth U S,] read -f -c CIRCUIT NAME   (fills the cache when U is granted)   *)
(*  bus  another master reads the message on the bus; ebusd receives it passively and caches the value         *)
ExtOps == {"xr", "bus"}

(* the messages a command designates (a superset where the command is ambiguous) *)
Targets(w, c) ==
  LET t == w.msgs[c.m] IN
  CASE c.op \in {"r", "rf", "rm"} -> {i \in Msgs(w) : w.msgs[i].n = t.n /\ w.msgs[i].k \in {"r", "u"}}
    [] c.op \in {"rc", "rp", "rcn", "xr"} -> {i \in Msgs(w) : w.msgs[i].n = t.n /\ w.msgs[i].c = t.c /\ w.msgs[i].k \in {"r", "u"}}
    [] c.op \in {"rh", "rhc", "rhn", "rhm", "wh", "whc"} -> {c.m}
    [] c.op = "w"             -> {i \in Msgs(w) : w.msgs[i].n = t.n /\ w.msgs[i].c = t.c /\ w.msgs[i].k = "w"}
    [] c.op \in HttpOps       -> {i \in Msgs(w) : w.msgs[i].n = t.n /\ w.msgs[i].c = t.c
                                                  /\ (w.msgs[i].k \in {"r", "u"} \/ (c.op = "gw" /\ w.msgs[i].k = "w"))}
    [] OTHER                  -> {}

(* observation of one command (what the client and the bus saw):                                          *)
(*  rc  response class   val  slots whose value/entry the response discloses   bus  slot of every telegram  *)
(*  put on the bus (-1 = not attributable)   pr  poll priorities afterwards   q  bus requests queued       *)
(*  nb  bytes written to the device          usr session user as reported (used by S only)                 *)
SeqSet(s) == {s[k] : k \in DOMAIN s}
Changed(o, prevpr) == {i \in DOMAIN o.pr : o.pr[i] # prevpr[i]}
Acted(o, prevpr) == SeqSet(o.val) \cup SeqSet(o.bus) \cup Changed(o, prevpr)
Quiet(o, prevpr) == Acted(o, prevpr) = {} /\ o.q = 0 /\ o.nb = 0

(* grant table of a world under a grant predicate G(level, list): user |-> set of accessible messages.   *)
(* (evaluated once per world / record; everything below only intersects with it)                         *)
GrantTable(G(_, _), w) == [u \in 0..3 |-> {i \in Msgs(w) : G(w.msgs[i].lv, Levels(w, u))}]

(* P for one telnet read/write command executed for a client that may access the messages GU *)
TelnetOk(GU, w, c, o, prevpr) ==
  LET T == Targets(w, c)
      Gr == T \cap GU
  IN /\ Acted(o, prevpr) \subseteq Gr                       \* nothing is disclosed, sent or re-prioritised without a grant
     /\ Gr = {} => o.rc \in {"nf", "na", "err"} /\ o.q = 0 /\ o.nb = 0     \* some error answer, nothing queued or sent
     /\ (Gr = T /\ T # {}) =>
          /\ o.rc = "ok"
          /\ c.op \in ReadOps \cup {"xr"} => o.val # <<>>
          /\ c.op \in WriteOps => o.bus # <<>>
          /\ c.op = "rp" => \A t \in T : w.msgs[t].k = "r" => o.pr[t] = 2

(* P for one HTTP request served to a client that may access the messages GU *)
HttpWith(GU, w, c, o, prevpr) ==
  LET T == Targets(w, c)
      Gr == T \cap GU
      Must == IF c.op \in {"gq", "gm"} THEN {t \in Gr : w.msgs[t].k # "u"} ELSE Gr   \* 'required' may skip passive messages
      May == IF c.op = "gq" THEN Must ELSE Gr
  IN /\ o.rc = "h200"
     /\ Must \subseteq SeqSet(o.val) /\ SeqSet(o.val) \subseteq May
     /\ SeqSet(o.bus) \cup Changed(o, prevpr) \subseteq Gr
     /\ Gr = {} => o.q = 0 /\ o.nb = 0
     /\ c.op = "gp" => \A t \in Gr : Active(w, t) => o.pr[t] = 3
HttpOk(GT, w, c, o, prevpr) ==
  IF (c.u = 0 /\ c.s = 0) \/ SecretOk(w, c.u, c.s)
  THEN HttpWith(GT[c.u], w, c, o, prevpr)
  ELSE \/ o.rc \notin {"h200", "other"} /\ Quiet(o, prevpr) \* failed authentication: refused (403) ...
       \/ HttpWith(GT[0], w, c, o, prevpr)                  \* ... or served with the default levels only

(* The session monitor.  Its state is the set of users the connection may be acting for: exactly the last   *)
(* successfully authenticated one; after a FAILED auth the text leaves open whether an earlier successful    *)
(* authentication survives, so both readings stay possible until an observation decides.  {} = rejected.     *)
ZeroPr(w) == [i \in Msgs(w) |-> 0]
(* one step of the monitor: prev = users the connection may be acting for, ppr = poll priorities before *)
PStep(GT, w, prev, c, o, ppr) ==
  IF prev = {} THEN {}
  ELSE IF c.op \in AuthOps
    THEN IF c.op = "auth" /\ SecretOk(w, c.u, c.s)
         THEN (IF o.rc = "authok" /\ Quiet(o, ppr) THEN {c.u} ELSE {})
         ELSE (IF o.rc # "authok" /\ Quiet(o, ppr) THEN prev \cup {0} ELSE {})
  ELSE IF c.op \in HttpOps
    THEN (IF HttpOk(GT, w, c, o, ppr) THEN prev ELSE {})
  ELSE IF c.op = "xr"          \* a fresh connection: exactly the authenticated user, exactly the default levels otherwise
    THEN (IF TelnetOk(GT[IF SecretOk(w, c.u, c.s) THEN c.u ELSE 0], w, c, o, ppr) THEN prev ELSE {})
  ELSE IF c.op = "bus"         \* foreign traffic: ebusd itself sends nothing and changes no priority
    THEN (IF Quiet(o, ppr) THEN prev ELSE {})
  ELSE IF o.rc = "usage" /\ Quiet(o, ppr) THEN prev      \* the command form was refused as malformed
  ELSE {u \in prev : TelnetOk(GT[u], w, c, o, ppr)}

PUsers(GT, w, cmds, obs) ==
  LET U[k \in 0..Len(cmds)] ==
        IF k = 0 THEN {0}
        ELSE PStep(GT, w, U[k - 1], cmds[k], obs[k], IF k = 1 THEN ZeroPr(w) ELSE obs[k - 1].pr)
  IN U
POk(GT, w, cmds, obs) == PUsers(GT, w, cmds, obs)[Len(cmds)] # {}      \* GT = GrantTable(Granted, w)
(* first command at which the monitor rejects (0 = none) *)
PFirstBad(GT, w, cmds, obs) ==
  LET U == PUsers(GT, w, cmds, obs)
      bad == {k \in 1..Len(cmds) : U[k] = {}}
  IN IF bad = {} THEN 0 ELSE CHOOSE k \in bad : \A j \in bad : k <= j

(* data sinks: a sink configured with user `su` (0 = none configured) is told about, finds and lists exactly   *)
(* the messages granted by Levels(su)                                                                          *)
SinkOk(GT, w, su, upd, fnd, all) ==
  \A i \in Msgs(w) : LET g == i \in GT[su] IN
     /\ (upd[i] > 0) = g
     /\ (all[i] = 1) = g
     /\ (fnd[i] = 1) => g            \* find() by name may be shadowed by a message of the same name

(* layout 5: listing skips the variant that is not available; it still never lists anything without a grant *)
SinkOkCond(GT, w, su, upd, fnd, all) ==
  \A i \in Msgs(w) : LET g == i \in GT[su] IN
     /\ (upd[i] > 0) = g
     /\ (all[i] = 1) => g
     /\ (fnd[i] = 1) => g

(***************************************************************************)
(* S: the code-shaped model                                                 *)
(***************************************************************************)
(* `mode` is "whole" (pinned code) or "token" (repaired) *)
(* string::find(needle, from), 0-based, -1 = npos *)
Find(hay, needle, from) ==
  LET n == Len(needle)
      hits == {p \in from..(Len(hay) - n) : SubSeq(hay, p + 1, p + n) = needle}
  IN IF hits = {} THEN -1 ELSE CHOOSE p \in hits : \A q \in hits : p <= q

RECURSIVE SScan(_, _, _, _)
SScan(mode, level, ls, pos) ==
  LET len == Len(level)
      maxLen == Len(ls)
  IN IF pos = -1 \/ pos + len > maxLen THEN FALSE
     ELSE IF (pos = 0 \/ ls[pos] = SEMI) /\ (pos + len = maxLen \/ ls[pos + len + 1] = SEMI) THEN TRUE
     ELSE SScan(mode, level, ls, Find(ls, level, pos + len))

(* Message::checkLevel *)
SCheckLevel(mode, level, ls) ==
  IF level = <<>> THEN TRUE
  ELSE IF ls = <<>> THEN FALSE
  ELSE IF (mode = "whole" /\ ls = <<STAR>>) \/ (mode = "token" /\ <<STAR>> \in Tokens(ls)) THEN TRUE
  ELSE SScan(mode, level, ls, Find(ls, level, 0))

(* Message::hasLevel(levels) with includeEmpty = true *)
SHasLevel(mode, w, i, L) == IF w.msgs[i].lv = <<>> THEN TRUE ELSE SCheckLevel(mode, w.msgs[i].lv, L)

(* S state: [user, data, pr]; data = messages that hold a value (lastUpdateTime # 0; the clock stands still, so    *)
(* nothing ages).  Every completed telegram of a message invalidates all other messages of the same circuit+name.  *)
SInit(w) == [user |-> 0, data |-> {i \in Msgs(w) : w.msgs[i].k = "u"}, pr |-> ZeroPr(w)]

SObs(rc, val, bus, pr, usr) == [rc |-> rc, val |-> val, bus |-> bus, pr |-> pr, usr |-> usr]

(* getLevels(user): the entry of that name, else "" - an authenticated user always has an entry *)
SLevels(w, u) == IF HasUser(w, u) THEN w.users[Entry(w, u)].l ELSE IF u = 0 THEN Default(w) ELSE <<>>
(* per user: the messages hasLevel() accepts / findAll() lists with that user's levels *)
SHasTable(mode, w) == [u \in 0..3 |-> {i \in Msgs(w) : SHasLevel(mode, w, i, SLevels(w, u))}]
SListTable(mode, w) == [u \in 0..3 |-> {i \in Msgs(w) : SLevels(w, u) = <<STAR>> \/ SHasLevel(mode, w, i, SLevels(w, u))}]

(* MessageMap::find(circuit, name, levels, isWrite, isPassive) given the set HU hasLevel() accepts: 0 = nullptr *)
SFind(HU, w, circ, name, kind) ==
  LET cands == {i \in Msgs(w) : w.msgs[i].k = kind /\ w.msgs[i].n = name /\ (circ = "" \/ w.msgs[i].c = circ)}
  IN IF cands = {} THEN 0
     ELSE LET i == IF circ # "" THEN CHOOSE x \in cands : TRUE
                   ELSE IF \E x \in cands : w.msgs[x].c = "ca" THEN CHOOSE x \in cands : w.msgs[x].c = "ca"
                   ELSE CHOOSE x \in cands : TRUE      \* without circuit: the first one in circuit order
          IN IF i \in HU THEN i ELSE 0

SetPrio(pr, i, p) == [pr EXCEPT ![i] = p]
Same(w, i) == {j \in Msgs(w) : w.msgs[j].c = w.msgs[i].c /\ w.msgs[j].n = w.msgs[i].n}
Sent(w, data, i) == (data \ Same(w, i)) \cup {i}

(* one command: returns [st, o]; HT/LT = SHasTable/SListTable of the world *)
SStep(HT, LT, w, st, c) ==
  LET HU == HT[st.user]
      t == w.msgs[c.m]
      nf == [st |-> st, o |-> SObs("nf", <<>>, <<>>, st.pr, st.user)]
      na == [st |-> st, o |-> SObs("na", <<>>, <<>>, st.pr, st.user)]
      busRead(i, pr) == [st |-> [st EXCEPT !.data = Sent(w, @, i), !.pr = pr], o |-> SObs("ok", <<i>>, <<i>>, pr, st.user)]
      cached(i, pr) == [st |-> [st EXCEPT !.pr = pr], o |-> SObs("ok", <<i>>, <<>>, pr, st.user)]
      busWrite(i) == [st |-> [st EXCEPT !.data = Sent(w, @, i)], o |-> SObs("ok", <<>>, <<i>>, st.pr, st.user)]
  IN CASE c.op = "auth" ->
            IF SecretOk(w, c.u, c.s) THEN [st |-> [st EXCEPT !.user = c.u], o |-> SObs("authok", <<>>, <<>>, st.pr, c.u)]
            ELSE [st |-> st, o |-> SObs("authbad", <<>>, <<>>, st.pr, st.user)]
       [] c.op = "auth1" -> [st |-> st, o |-> SObs("usage", <<>>, <<>>, st.pr, st.user)]
       [] c.op \in {"r", "rp", "rcn"} ->
            LET circ == IF c.op = "r" THEN "" ELSE t.c
                msg == SFind(HU, w, circ, t.n, "r")
                pr == IF c.op = "rp" /\ msg # 0 THEN SetPrio(st.pr, msg, 2) ELSE st.pr
                cache == SFind(HU, w, circ, t.n, "u")
                cm == IF cache = 0 THEN msg ELSE IF msg # 0 /\ msg \in st.data /\ cache \notin st.data THEN msg ELSE cache
            IN IF cm # 0 /\ cm \in st.data THEN cached(cm, pr)
               ELSE IF msg = 0 /\ cache # 0 THEN [st |-> st, o |-> SObs("err", <<>>, <<>>, st.pr, st.user)]   \* no data stored
               ELSE IF msg = 0 THEN nf ELSE busRead(msg, pr)
       [] c.op \in {"rf", "rc", "rm"} ->
            LET msg == SFind(HU, w, IF c.op = "rc" THEN t.c ELSE "", t.n, "r")
            IN IF msg = 0 THEN nf ELSE busRead(msg, st.pr)
       [] c.op = "rhc" -> [st |-> st, o |-> SObs("usage", <<>>, <<>>, st.pr, st.user)]   \* executeRead refuses -h together with -c
       [] c.op \in {"rh", "rhm"} -> IF c.m \notin HU THEN na ELSE busRead(c.m, st.pr)
       [] c.op = "rhn" -> IF c.m \notin HU THEN na ELSE IF c.m \in st.data THEN cached(c.m, st.pr) ELSE busRead(c.m, st.pr)
       [] c.op = "xr" -> LET msg == SFind(HT[IF SecretOk(w, c.u, c.s) THEN c.u ELSE 0], w, t.c, t.n, "r")
                         IN IF msg = 0 THEN nf ELSE busRead(msg, st.pr)
       [] c.op = "bus" -> [st |-> [st EXCEPT !.data = Sent(w, @, c.m)], o |-> SObs("bus", <<>>, <<>>, st.pr, st.user)]
       [] c.op = "w" -> LET msg == SFind(HU, w, t.c, t.n, "w") IN IF msg = 0 THEN nf ELSE busWrite(msg)
       [] c.op \in {"wh", "whc"} -> IF c.m \notin HU THEN na ELSE busWrite(c.m)
       [] c.op \in HttpOps ->
            IF (c.u # 0 \/ c.s # 0) /\ ~SecretOk(w, c.u, c.s)
            THEN [st |-> st, o |-> SObs("h403", <<>>, <<>>, st.pr, st.user)]
            ELSE LET lst == Targets(w, c) \cap LT[c.u]                                           \* findAll
                     shown == CASE c.op = "gq" -> {i \in lst : w.msgs[i].k # "u"}
                                [] c.op = "gm" -> {i \in lst : w.msgs[i].k # "u" \/ i \in st.data}
                                [] OTHER -> lst
                     rd == CASE c.op = "gq" -> shown [] c.op = "gm" -> {i \in shown : i \notin st.data} [] OTHER -> {}
                     pr == IF c.op = "gp" THEN [i \in Msgs(w) |-> IF i \in lst /\ Active(w, i) THEN 3 ELSE st.pr[i]] ELSE st.pr
                     RECURSIVE sentAll(_, _)
                     sentAll(d, X) == IF X = {} THEN d ELSE LET x == CHOOSE y \in X : TRUE IN sentAll(Sent(w, d, x), X \ {x})
                 IN [st |-> [st EXCEPT !.data = sentAll(@, rd), !.pr = pr],
                     o |-> [rc |-> "h200", val |-> shown, bus |-> rd, pr |-> pr, usr |-> st.user, sets |-> TRUE]]

(* does an observation of the real code agree with what S predicts? (val/bus compared as sets) *)
SAgrees(so, o) ==
  /\ so.rc = o.rc /\ so.pr = o.pr
  /\ (IF "sets" \in DOMAIN so THEN so.val ELSE SeqSet(so.val)) = SeqSet(o.val)
  /\ (IF "sets" \in DOMAIN so THEN so.bus ELSE SeqSet(so.bus)) = SeqSet(o.bus)
SConforms(HT, LT, w, cmds, obs) ==       \* HT, LT = SHasTable / SListTable of w
  LET R[k \in 0..Len(cmds)] ==
        IF k = 0 THEN [st |-> SInit(w), ok |-> TRUE]
        ELSE LET p == R[k - 1]
                 x == SStep(HT, LT, w, p.st, cmds[k])
             IN [st |-> x.st, ok |-> p.ok /\ SAgrees(x.o, obs[k]) /\ (cmds[k].op \in HttpOps \cup ExtOps \/ x.o.usr = obs[k].usr)]
  IN R[Len(cmds)].ok

(* observation record as the harness writes it, from an S outcome (for S => P) *)
AsObs(so) ==
  LET toSeq(S) == IF S = {} THEN <<>> ELSE
                  LET RECURSIVE mk(_)
                      mk(X) == IF X = {} THEN <<>> ELSE LET x == CHOOSE y \in X : \A z \in X : y <= z IN <<x>> \o mk(X \ {x})
                  IN mk(S)
      v == IF "sets" \in DOMAIN so THEN toSeq(so.val) ELSE so.val
      b == IF "sets" \in DOMAIN so THEN toSeq(so.bus) ELSE so.bus
  IN [rc |-> so.rc, val |-> v, bus |-> b, pr |-> so.pr, q |-> Len(b), nb |-> 9 * Len(b), usr |-> so.usr]

(***************************************************************************)
(* D: domain of small worlds and sessions                                   *)
(***************************************************************************)
La == <<A>>
Lb == <<B>>
Lab == <<A, B>>
Lba == <<B, A>>
Laba == <<A, B, A>>
ListEmpty == <<>>
ListA == <<A>>
ListAbB == <<A, B, SEMI, B>>
ListStar == <<STAR>>
ListAStar == <<A, SEMI, STAR>>
ListAbaBa == <<A, B, A, SEMI, B, A>>
ListStarB == <<STAR, SEMI, B>>
ListPool == {ListEmpty, ListA, ListAbB, ListStar, ListAStar, ListAbaBa}
MsgLevels == {<<>>, La, Lb, Lab, Laba}

Usr(n, l, sep) == [n |-> n, l |-> l, sep |-> sep, sec |-> n]
UsrS(n, l, sec) == [n |-> n, l |-> l, sep |-> 0, sec |-> sec]
Acl(dsrc, d, users) == [dsrc |-> dsrc, d |-> d, d2 |-> <<>>, users |-> users]

AclQuick == {
  Acl("opt", ListA, <<Usr(1, ListAbB, 0), Usr(2, ListAStar, 1)>>),
  Acl("acl", ListAbB, <<Usr(1, ListStar, 0), Usr(2, ListAbaBa, 0)>>),
  Acl("none", <<>>, <<Usr(1, ListA, 0), Usr(2, ListAbB, 1)>>),
  Acl("opt", ListAbaBa, <<Usr(1, ListEmpty, 0)>>),
  Acl("acl", ListAStar, <<Usr(2, ListA, 0), Usr(1, ListAbaBa, 1)>>),
  Acl("opt", ListStar, <<Usr(1, ListAbaBa, 0), Usr(2, ListA, 0)>>),
  Acl("acl", ListEmpty, <<Usr(1, ListStarB, 0), Usr(2, ListAbB, 0)>>),
  Acl("none", <<>>, <<>>) }

(* thorough, in addition: every default source x default list, u1 and u2 (or u2 absent) with lists that differ from *)
(* each other and from the default - so that using the wrong entry is always visible                               *)
AclAll ==
  { Acl(ds[1], ds[2], IF l2 = <<0>> THEN <<Usr(1, l1, 0)>> ELSE <<Usr(1, l1, 0), Usr(2, l2, 1)>>) :
      ds \in ({<<"none", <<>>>>} \cup ({"opt", "acl"} \X ListPool)), l1 \in ListPool, l2 \in (ListPool \cup {<<0>>}) }
AclThorough == {a \in AclAll : /\ \A i \in DOMAIN a.users : a.users[i].l # a.d
                               /\ (Len(a.users) = 1 \/ a.users[1].l # a.users[2].l)}

Msg(k, c, n, lv) == [k |-> k, c |-> c, n |-> n, lv |-> lv]
(* layouts: 1 = read + write; 2 = + passive message of the same name (cache path); 3 = + same name in another circuit *)
MsgConfigsOver(lay, LV) ==
  CASE lay = 1 -> {<<Msg("r", "ca", "rd", x), Msg("w", "ca", "wr", y)>> : x \in LV, y \in LV}
    [] lay = 2 -> {<<Msg("r", "ca", "rd", x), Msg("w", "ca", "wr", Lb), Msg("u", "ca", "rd", z)>> : x \in LV, z \in LV}
    [] lay = 3 -> {<<Msg("r", "ca", "rd", x), Msg("w", "ca", "wr", Lab), Msg("r", "cb", "rd", z)>> : x \in LV, z \in LV}
MsgConfigs(lay) == MsgConfigsOver(lay, MsgLevels)

WorldsOver(acls, LV1, LV23) ==
  UNION { { [lay |-> lay, dsrc |-> a.dsrc, d |-> a.d, d2 |-> a.d2, users |-> a.users, msgs |-> m] :
              a \in acls, m \in MsgConfigsOver(lay, IF lay = 1 THEN LV1 ELSE LV23) } : lay \in 1..3 }
(* probing message sets for the large ACL family *)
ProbeMsgs == { [lay |-> 1, msgs |-> <<Msg("r", "ca", "rd", Lab), Msg("w", "ca", "wr", La)>>],
               [lay |-> 2, msgs |-> <<Msg("r", "ca", "rd", La), Msg("w", "ca", "wr", Lb), Msg("u", "ca", "rd", Laba)>>] }
(* ambiguous configurations (layout 4 = the read/write pair of layout 1 with its own sessions): default levels by option *)
(* AND by a '*' line with another (also an empty) list; a user on two lines with different lists and secrets (sink users  *)
(* are these users)                                                                                                     *)
AclAmbiguous == {
  [Acl("both", ListA, <<Usr(1, ListAbaBa, 0)>>) EXCEPT !.d2 = ListAbB],
  [Acl("both", ListAbB, <<Usr(1, ListA, 0)>>) EXCEPT !.d2 = ListEmpty],
  [Acl("both", ListEmpty, <<Usr(1, ListAbaBa, 0), Usr(2, ListA, 1)>>) EXCEPT !.d2 = ListA],
  Acl("none", <<>>, <<UsrS(1, ListA, 1), UsrS(1, ListAbB, 4), UsrS(2, ListAbaBa, 2)>>),
  Acl("opt", ListAbaBa, <<UsrS(1, ListAbB, 1), UsrS(2, ListA, 2), UsrS(1, ListEmpty, 4)>>),
  Acl("acl", ListEmpty, <<UsrS(1, ListAbB, 1), UsrS(1, ListA, 1)>>) }           \* same secret on both lines
AmbiguousWorlds ==
  { [lay |-> 4, dsrc |-> a.dsrc, d |-> a.d, d2 |-> a.d2, users |-> a.users, msgs |-> m] :
      a \in AclAmbiguous, m \in MsgConfigsOver(1, {<<>>, La, Lb, Lab}) }
(* layout 5 = conditional variants: two read messages of the SAME circuit and name with DIFFERENT levels, guarded by   *)
(* conditions [h1] / [h2] on the value of the passive message "hw1" / "hw2" (slot 3; the digit in its name is the      *)
(* value seen on the bus before any client connects, so variant 1 resp. 2 is the available one).  A by-name lookup     *)
(* designates both variants (Targets); P lets the client see or trigger only the granted ones, whichever is available. *)
CondWorlds ==
  { [lay |-> 5, dsrc |-> a.dsrc, d |-> a.d, d2 |-> a.d2, users |-> a.users,
     msgs |-> <<Msg("r", "ca", "rd", xy[1]), Msg("r", "ca", "rd", xy[2]), Msg("u", "ca", hw, <<>>)>>] :
      a \in AclQuick, xy \in {p \in {<<>>, La, Lab} \X {<<>>, La, Lab} : p[1] # p[2]}, hw \in {"hw1", "hw2"} }

(* quick: 8 ACLs x (all 25 level assignments of the read/write pair + 9 + 9 for the layouts with a twin);          *)
(* thorough: 8 ACLs x (25 + 25 + 25) and every ACL of AclThorough x the two probing message sets                 *)
Worlds(tier) ==
  IF tier = "thorough"
  THEN WorldsOver(AclQuick, MsgLevels, MsgLevels)
       \cup { [lay |-> pm.lay, dsrc |-> a.dsrc, d |-> a.d, d2 |-> a.d2, users |-> a.users, msgs |-> pm.msgs] : a \in AclThorough, pm \in ProbeMsgs }
       \cup AmbiguousWorlds \cup CondWorlds
  ELSE WorldsOver(AclQuick, MsgLevels, {<<>>, La, Lab}) \cup AmbiguousWorlds \cup CondWorlds

Cmd(op, m, u, s) == [op |-> op, m |-> m, u |-> u, s |-> s]
Battery5 == <<Cmd("r", 1, 0, 0), Cmd("rf", 1, 0, 0), Cmd("rc", 2, 0, 0), Cmd("rcn", 1, 0, 0), Cmd("rm", 2, 0, 0)>>
Battery(lay) ==
  <<Cmd("r", 1, 0, 0), Cmd("rf", 1, 0, 0), Cmd("rhn", 1, 0, 0), Cmd("rh", 1, 0, 0), Cmd("w", 2, 0, 0), Cmd("wh", 2, 0, 0),
    Cmd("rp", 1, 0, 0), Cmd("g", 1, 0, 0), Cmd("rc", 1, 0, 0), Cmd("g", 1, 2, 2), Cmd("rhc", 1, 0, 0), Cmd("whc", 2, 0, 0),
    Cmd("rcn", 1, 0, 0), Cmd("gm", 1, 0, 0)>>
  \o (IF lay = 3 THEN <<Cmd("rc", 3, 0, 0), Cmd("rh", 3, 0, 0), Cmd("rp", 3, 0, 0), Cmd("rhn", 3, 0, 0)>> ELSE <<>>)

(* every read form with and without -f / -m 0 for slot m; cache use is allowed in the forms of the first line *)
ReadForms(m) ==
  <<Cmd("rhn", m, 0, 0), Cmd("rcn", m, 0, 0), Cmd("r", m, 0, 0), Cmd("g", m, 0, 0), Cmd("gm", m, 0, 0), Cmd("rp", m, 0, 0),
    Cmd("rhm", m, 0, 0), Cmd("rm", m, 0, 0), Cmd("rh", m, 0, 0), Cmd("rf", m, 0, 0), Cmd("rc", m, 0, 0), Cmd("gq", m, 0, 0)>>
(* warm cache: the value of a levelled message is in the cache - put there by authorized clients on OTHER connections  *)
(* or by passive reception - when a client that never authenticated (or failed to, on a fresh connection: the monitor   *)
(* knows its user exactly) tries every read form: cold first, then after each way of warming.                           *)
WarmSession(lay, p) ==
  LET one(m) == <<Cmd("rhn", m, 0, 0)>>                                             \* cold cache
                \o <<Cmd("xr", m, 1, 1), Cmd("xr", m, 2, 2)>> \o ReadForms(m)        \* warmed by whoever is granted
                \o <<Cmd("bus", m, 0, 0)>> \o ReadForms(m)                           \* warmed by passive reception
                \o <<Cmd("xr", m, 1, 9), Cmd("xr", m, 3, 1), Cmd("rhn", m, 0, 0)>>    \* other connections that fail to authenticate
  IN p \o one(1) \o (IF lay = 3 THEN <<Cmd("bus", 3, 0, 0), Cmd("rhn", 3, 0, 0), Cmd("rcn", 3, 0, 0), Cmd("gm", 3, 0, 0)>> ELSE <<>>)
WarmPrefixes == {<<>>, <<Cmd("auth", 1, 1, 9)>>, <<Cmd("auth", 1, 3, 1)>>, <<Cmd("auth1", 1, 1, 0)>>}

AuthPrefixes(tier) ==
  {<<>>, <<Cmd("auth", 1, 1, 1)>>, <<Cmd("auth", 1, 2, 2)>>, <<Cmd("auth", 1, 1, 9)>>, <<Cmd("auth", 1, 1, 2)>>}
  \cup (IF tier = "thorough"
        THEN {<<Cmd("auth1", 1, 1, 0), Cmd("auth", 1, 1, 1), Cmd("auth", 1, 2, 9)>>}    \* (unknown user: see WarmPrefixes)
        ELSE {})

Creds(tier) == {<<0, 0>>, <<1, 1>>, <<2, 2>>, <<1, 9>>, <<1, 0>>, <<3, 1>>}
               \cup (IF tier = "thorough" THEN {<<0, 9>>, <<1, 2>>} ELSE {})

(* all HTTP requests of a layout in one session, in a fixed order *)
OpNo(op) == CASE op = "g" -> 1 [] op = "gx" -> 2 [] op = "gq" -> 4 [] op = "gp" -> 3 [] op = "gw" -> 5 [] op = "gm" -> 6 [] OTHER -> 0
CmdKey(c) == OpNo(c.op) * 1000 + c.m * 100 + c.u * 10 + c.s
RECURSIVE CmdsInOrder(_)
CmdsInOrder(S) == IF S = {} THEN <<>> ELSE
  LET x == CHOOSE y \in S : \A z \in S : CmdKey(y) <= CmdKey(z) IN <<x>> \o CmdsInOrder(S \ {x})
HttpSession(tier, lay) ==
  CmdsInOrder({Cmd(op, m, cr[1], cr[2]) : op \in HttpOps, m \in 1..(IF lay \in {1, 4} THEN 2 ELSE 3), cr \in Creds(tier)})

(* telnet: [auth prefix] battery [auth prefix] battery  (the second battery meets caches and poll priorities left by *)
(* the first user); HTTP: every request form x slot x credentials, then an authenticated telnet battery            *)
Sessions(tier) ==
  { [lay |-> lay, cmds |-> p \o Battery(lay) \o q \o Battery(lay)] :
      lay \in 1..3, p \in AuthPrefixes(tier), q \in AuthPrefixes(tier) \ {<<>>} }
  \cup { [lay |-> lay, cmds |-> HttpSession(tier, lay) \o <<Cmd("auth", 1, 1, 1)>> \o Battery(lay)] : lay \in 1..3 }
  \cup { [lay |-> lay, cmds |-> WarmSession(lay, p)] : lay \in 1..3, p \in WarmPrefixes }
  \cup { [lay |-> 4, cmds |-> p \o Battery(4)] :          \* ambiguous configurations: one battery per way of (not) logging in
          p \in {<<>>, <<Cmd("auth", 1, 1, 1)>>, <<Cmd("auth", 1, 1, 4)>>, <<Cmd("auth", 1, 1, 9)>>, <<Cmd("auth", 1, 2, 2)>>,
                 <<Cmd("auth", 1, 1, 1), Cmd("auth", 1, 1, 4)>>, <<Cmd("auth", 1, 1, 4), Cmd("auth", 1, 1, 1)>>} }
  \cup { [lay |-> 5, cmds |-> p \o Battery5 \o q \o Battery5] :     \* conditional variants: by-name telnet reads only
          p \in AuthPrefixes(tier), q \in {<<>>, <<Cmd("auth", 1, 1, 1)>>, <<Cmd("auth", 1, 2, 2)>>} }
  \cup { [lay |-> 4, cmds |-> CmdsInOrder({Cmd(op, m, cr[1], cr[2]) : op \in {"g", "gq", "gp"}, m \in 1..2,
                                                                      cr \in {<<0, 0>>, <<1, 1>>, <<1, 4>>, <<1, 9>>}})] }

SinkUsers == 0..3

(***************************************************************************)
(* lemmas about P itself (checked by ASSUME in the judge)                   *)
(***************************************************************************)
LemmaNoSubstring ==      \* a level that is a proper prefix / suffix / infix of a token is not granted by it
  /\ ~Granted(La, Lab) /\ ~Granted(Lb, Lab) /\ ~Granted(Lb, Laba) /\ ~Granted(Lab, Laba) /\ ~Granted(Lba, Laba)
  /\ ~Granted(Lab, ListA) /\ ~Granted(Laba, ListAbB) /\ ~Granted(La, ListAbaBa)
LemmaStarAnywhere == \A l \in MsgLevels : Granted(l, ListStar) /\ Granted(l, ListAStar) /\ Granted(l, ListStarB)
LemmaEmptyLevel == \A ls \in ListPool : Granted(<<>>, ls)
LemmaEmptyList == \A l \in MsgLevels \ {<<>>} : ~Granted(l, <<>>)
LemmaTokens == /\ Tokens(<<>>) = {<<>>} /\ Tokens(ListAbB) = {Lab, Lb} /\ Tokens(<<SEMI>>) = {<<>>}
               /\ Tokens(<<A, SEMI, SEMI, B>>) = {La, <<>>, Lb}
=============================================================================
