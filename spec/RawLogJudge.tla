------------------------------ MODULE RawLogJudge ------------------------------
(* Judges the records harness/rawlog.cpp wrote from the real ProtocolHandler::notifyDeviceData:                          *)
(*   text modes   after every call the lines written so far satisfy all clauses of P (RawLog!Clause, flush limit 64)      *)
(*                - against the documented echo rule; a record that only fits the rule "repeat" (what the pinned code     *)
(*                implements) gets its own class; anything else names the failing clause                                 *)
(*                - the final lines are those of the S automaton, as built or with the echo flag (S fidelity)             *)
(*   bytes modes  the lines spell every symbol of every call in order                                                     *)
(* VF_FAMILY: all (complete domain) | replay                                                                             *)
EXTENDS RawLogDomain, TLC, Json, IOUtils, SequencesExt
Thorough == IOEnv.VF_TIER = "thorough"
Family == IOEnv.VF_FAMILY
Recs == ndJsonDeserialize(IOEnv.VF_RECS)
N == Len(Recs)
K == 64
VARIABLE rlj_pos
Init == rlj_pos = 0
Next == \/ /\ rlj_pos = 0 /\ rlj_pos' \in {1 + K * s : s \in 0..((N - 1) \div K)}
        \/ /\ rlj_pos > 0 /\ (rlj_pos % K) # 0 /\ rlj_pos < N /\ rlj_pos' = rlj_pos + 1

OKV == <<"ok", 0>>
Events(r) == Filler(r.pre) \o r.ev
(* first call boundary at which a clause fails, as <<clause, boundary>> *)
RECURSIVE FirstBad(_, _, _, _)
FirstBad(r, ev, k, rule) ==
  IF k > Len(r.ends) THEN OKV
  ELSE LET c == Clause(SubSeq(ev, 1, r.ends[k]), SubSeq(r.lines, 1, r.cnt[k]), 64, rule) IN
       IF c # "ok" THEN <<c, k>> ELSE FirstBad(r, ev, k + 1, rule)
TextVerdict(r) ==
  LET ev == Events(r)
      shape == Len(r.ends) = Len(r.cnt) /\ (r.ends = <<>> \/ (r.ends[Len(r.ends)] = Len(ev) /\ r.cnt[Len(r.cnt)] = Len(r.lines)))
                /\ \A k \in 1..Len(r.cnt) : r.cnt[k] <= Len(r.lines) /\ (k > 1 => r.cnt[k - 1] <= r.cnt[k])
      doc == FirstBad(r, ev, 1, "once")
      built == FirstBad(r, ev, 1, "repeat")
  IN IF ~shape THEN <<"harness", 0>>
     ELSE IF doc = OKV THEN (IF Run(ev, 64, FALSE).log # r.lines /\ Run(ev, 64, TRUE).log # r.lines THEN <<"S-differs", 0>> ELSE OKV)
     ELSE IF built = OKV THEN <<"R-echo-repeat", doc[2]>>
     ELSE <<"R-" \o built[1], built[2]>>

RECURSIVE BytesAll(_, _, _, _)
BytesAll(lines, k, spaced, acc) ==
  IF k > Len(lines) THEN [ok |-> TRUE, toks |-> acc]
  ELSE LET d == DecodeBytesLine(lines[k], spaced) IN IF ~d.ok THEN [ok |-> FALSE, toks |-> acc] ELSE BytesAll(lines, k + 1, spaced, acc \o d.toks)
BytesVerdict(r) ==
  LET ev == Events(r)
      d == BytesAll(r.lines, 1, r.mode = "fbytes", <<>>)
  IN IF ~d.ok THEN <<"B-malformed", 0>>
     ELSE IF d.toks # ev THEN <<"B-differs", Len(d.toks)>>
     ELSE IF r.mode = "fbytes" /\ Len(r.lines) # r.pre + Len(r.ends) THEN <<"B-lines", Len(r.lines)>>
     ELSE IF r.mode = "lbytes" /\ Len(r.lines) # Len(ev) THEN <<"B-lines", Len(r.lines)>>
     ELSE OKV
Verdict(r) == IF r.mode \in {"file", "log"} THEN TextVerdict(r) ELSE BytesVerdict(r)
Judge == rlj_pos = 0 \/ LET v == Verdict(Recs[rlj_pos]) IN v = OKV \/ ~PrintT(<<"VF", "BAD", rlj_pos, v>>)

(* domain completeness: the records are the enumerated case list, case by case in the order it was emitted *)
Seqs == [n \in 1..6 |-> SetToSeq(SeqsUpTo(n))]
Dom == IF Family = "all" THEN CaseListA(Blocks(Thorough), 1, Seqs) ELSE <<>>
ASSUME Family = "all" => Len(Dom) = N
ASSUME Family = "all" => \A k \in 1..N : Case(Recs[k].mode, Recs[k].pre, Recs[k].chunk, Recs[k].ev) = Dom[k]
ASSUME PrintT(<<"VF", "DOMAIN", Family, N>>)
=============================================================================
