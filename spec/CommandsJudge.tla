---------------------------- MODULE CommandsJudge ----------------------------
(* judges what the in-process daemon answered to the generated read / write / find sessions against the monitor of  *)
(* Commands.tla (P), and notes where it differs from the decisions as coded (S, mode "pinned").                      *)
EXTENDS Commands, Json, IOUtils
Tier == IOEnv.VF_TIER
Recs == ndJsonDeserialize(IOEnv.VF_RECS)
Wd == ndJsonDeserialize(IOEnv.VF_WORLDS)
Sd == ndJsonDeserialize(IOEnv.VF_SESSIONS)
N == Len(Recs)
K == 32
ASSUME \/ Tier = "replay"
       \/ /\ {Wd[k] : k \in 1..Len(Wd)} = Worlds(Tier) /\ Len(Wd) = Cardinality(Worlds(Tier))
          /\ {Sd[k] : k \in 1..Len(Sd)} = Sessions(Tier) /\ Len(Sd) = Cardinality(Sessions(Tier))
          /\ {<<Recs[k].w, Recs[k].s>> : k \in 1..N} = {p \in (1..Len(Wd)) \X (1..Len(Sd)) : Wd[p[1]].fam = Sd[p[2]].fam}
VARIABLE i
Init == i = 0
Next == \/ /\ i = 0 /\ i' \in {1 + K * s : s \in 0..((N - 1) \div K)}
        \/ /\ i > 0 /\ (i % K) # 0 /\ i < N /\ i' = i + 1
Shape(r) == Len(r.o) = Len(Sd[r.s].cmds) /\ \A k \in 1..Len(r.o) : Len(r.o[k].pr) = Len(Wd[r.w].msgs) /\ Len(r.o[k].dat) = Len(Wd[r.w].msgs)
PBadLax(lax, r) == IF Shape(r) THEN PRun(lax, Wd[r.w], Sd[r.s].cmds, r.o).bad ELSE 1
PBad(r) == PBadLax({}, r)
(* class of a rejection: the single documented-vs-coded difference that explains it, else "other" *)
Class(r) == IF PBadLax({"dst"}, r) = 0 THEN "cached-value-of-other-destination"
            ELSE IF PBadLax({"inp"}, r) = 0 THEN "cached-value-of-other-parameters"
            ELSE IF PBadLax({"pasv"}, r) = 0 THEN "over-age-passive-value-instead-of-active-read"
            ELSE IF PBadLax({"dst", "inp", "pasv"}, r) = 0 THEN "several-cache-differences"
            ELSE "other"
SBad(r) == IF Shape(r) THEN SRun("pinned", Wd[r.w], Sd[r.s].cmds, r.o).bad ELSE 1
DriftNote(r) == LET k == SBad(r) IN k = 0 \/ PrintT(<<"VF", "DRIFT", i, k>>)
Judge == i = 0 \/ (DriftNote(Recs[i]) /\ (PBad(Recs[i]) = 0 \/ ~PrintT(<<"VF", "BAD", i, PBad(Recs[i]), Class(Recs[i])>>)))
=============================================================================
