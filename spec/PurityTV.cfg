INIT Init
NEXT Next
INVARIANT Accept
