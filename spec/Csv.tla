------------------------------ MODULE Csv ------------------------------
(* P for C19: the configuration (CSV) format.                                               *)
(*  (i)  Quote / SplitLine: quoted fields may hold separators and doubled quotes.            *)
(*  (ii) abstract message definitions, the columns of their configuration line (default      *)
(*       column set: type,circuit,name,comment,qq,zz,pbsb,id,*name,part,type,divisor/values, *)
(*       unit,comment), the attributes a loaded definition must have.                        *)
(* Written from the CSV rules and the documented ebusd configuration format, not from the    *)
(* code.  Texts are sequences of character codes.                                            *)
EXTENDS Naturals, Integers, Sequences, FiniteSets, SequencesExt

COMMA == 44   DQ == 34   SEMI == 59   SQ == 39   SP == 32   ca == 97   COLON == 58   EQ == 61   LF == 10

RECURSIVE JoinWith(_, _)
JoinWith(ss, sep) == IF ss = <<>> THEN <<>>
                     ELSE IF Len(ss) = 1 THEN ss[1] ELSE ss[1] \o sep \o JoinWith(Tail(ss), sep)
Map(f(_), s) == [k \in 1..Len(s) |-> f(s[k])]
Has(s, c) == \E k \in 1..Len(s) : s[k] = c

RECURSIVE TrimL(_), TrimR(_)
TrimL(s) == IF s # <<>> /\ s[1] = SP THEN TrimL(Tail(s)) ELSE s
TrimR(s) == IF s # <<>> /\ s[Len(s)] = SP THEN TrimR(SubSeq(s, 1, Len(s) - 1)) ELSE s
Trim(s) == TrimR(TrimL(s))
TrimNormal(s) == Trim(s) = s

(***************************************************************************)
(* (i) quoting and splitting                                                *)
(***************************************************************************)
RECURSIVE Doubled(_)
Doubled(s) == IF s = <<>> THEN <<>> ELSE (IF s[1] = DQ THEN <<DQ, DQ>> ELSE <<s[1]>>) \o Doubled(Tail(s))
Quoted(s) == <<DQ>> \o Doubled(s) \o <<DQ>>
NeedsQuote(s) == Has(s, COMMA) \/ Has(s, DQ) \/ ~TrimNormal(s)
Quote(s) == IF NeedsQuote(s) THEN Quoted(s) ELSE s            \* the canonical (minimal) writing
QuoteForms(s) == {Quoted(s)} \cup (IF NeedsQuote(s) THEN {} ELSE {s})

(* reference reader of one line.  ReadField returns <<text, index of the separator ending it (or Len+1), ok>> *)
RECURSIVE ReadQuoted(_, _, _), ReadPlain(_, _, _)
ReadQuoted(l, k, acc) ==
  IF k > Len(l) THEN <<acc, k, FALSE>>                                      \* quote never closed: not specified
  ELSE IF l[k] = DQ THEN
         (IF k + 1 <= Len(l) /\ l[k + 1] = DQ THEN ReadQuoted(l, k + 2, acc \o <<DQ>>)
          ELSE IF k + 1 > Len(l) \/ l[k + 1] = COMMA THEN <<acc, k + 1, TRUE>>
          ELSE <<acc, k + 1, FALSE>>)                                       \* text after the closing quote: not specified
  ELSE ReadQuoted(l, k + 1, acc \o <<l[k]>>)
ReadPlain(l, k, acc) ==
  IF k > Len(l) \/ l[k] = COMMA THEN <<acc, k, TRUE>> ELSE ReadPlain(l, k + 1, acc \o <<l[k]>>)
ReadField(l, k) == IF k <= Len(l) /\ l[k] = DQ THEN ReadQuoted(l, k + 1, <<>>) ELSE ReadPlain(l, k, <<>>)

RECURSIVE SplitFrom(_, _)
SplitFrom(l, k) == LET f == ReadField(l, k) IN
                   IF ~f[3] THEN [ok |-> FALSE, fields |-> <<>>]
                   ELSE IF f[2] > Len(l) THEN [ok |-> TRUE, fields |-> <<f[1]>>]
                   ELSE LET r == SplitFrom(l, f[2] + 1) IN [ok |-> r.ok, fields |-> <<f[1]>> \o r.fields]
SplitLine(l) == SplitFrom(l, 1)

RECURSIVE FormLists(_)
FormLists(fs) == IF fs = <<>> THEN {<<>>} ELSE {<<q>> \o r : q \in QuoteForms(Head(fs)), r \in FormLists(Tail(fs))}
Lines(fs) == {JoinWith(ql, <<COMMA>>) : ql \in FormLists(fs)}

(* outer blanks of a field are not significant in this format: equality of fields is up to Trim; *)
(* a line whose fields are all empty is a blank line (no row)                                    *)
TrimAll(fs) == Map(Trim, fs)
AllEmpty(fs) == \A k \in 1..Len(fs) : Trim(fs[k]) = <<>>
SameFields(out, fs) == IF AllEmpty(fs) THEN out = <<>> \/ TrimAll(out) = TrimAll(fs) ELSE TrimAll(out) = TrimAll(fs)

TextAlpha == {ca, COMMA, DQ, SEMI, SQ, SP}
TextsUpTo(n) == UNION {[1..k -> TextAlpha] : k \in 0..n}
FieldLists(thorough) ==
  {<<>>} \cup {<<x>> : x \in TextsUpTo(3)}
  \cup (IF thorough THEN {<<x, y>> : x \in TextsUpTo(3), y \in TextsUpTo(3)}
        ELSE {<<x, y>> : x \in TextsUpTo(2), y \in TextsUpTo(2)}
             \cup {<<x, y>> : x \in TextsUpTo(3), y \in TextsUpTo(1)} \cup {<<x, y>> : x \in TextsUpTo(1), y \in TextsUpTo(3)})
  \cup {<<x, y, z>> : x \in TextsUpTo(IF thorough THEN 2 ELSE 1), y \in TextsUpTo(IF thorough THEN 2 ELSE 1),
                      z \in TextsUpTo(IF thorough THEN 2 ELSE 1)}

LemmaQuoteSplit(lists) == \A fs \in lists : fs # <<>> => \A l \in Lines(fs) :
                             LET r == SplitLine(l) IN r.ok /\ r.fields = fs

(***************************************************************************)
(* (ii) abstract definitions                                                 *)
(***************************************************************************)
Digit(n) == <<48 + n>>
RECURSIVE Dec(_)
Dec(n) == IF n < 0 THEN <<45>> \o Dec(0 - n) ELSE IF n < 10 THEN Digit(n) ELSE Dec(n \div 10) \o Digit(n % 10)
HexDigit(n) == IF n < 10 THEN 48 + n ELSE 87 + n
Hex2(b) == <<HexDigit(b \div 16), HexDigit(b % 16)>>
RECURSIVE HexOf(_)
HexOf(bs) == IF bs = <<>> THEN <<>> ELSE Hex2(Head(bs)) \o HexOf(Tail(bs))
Lower(s) == [k \in 1..Len(s) |-> IF s[k] \in 65..90 THEN s[k] + 32 ELSE s[k]]
Upper(s) == [k \in 1..Len(s) |-> IF s[k] \in 97..122 THEN s[k] - 32 ELSE s[k]]

(* data types used: <<id text as written without length, adjustable?, length (bytes, or bits for bit types),  *)
(* numeric?, built-in divisor, bit type?>>; from the ebusd data type list                                     *)
T(id, adj, len, num, div, bits) == [id |-> id, adj |-> adj, len |-> len, num |-> num, div |-> div, bits |-> bits]
Types == <<
  T(<<85,67,72>>, FALSE, 1, TRUE, 1, FALSE),          \* 1 UCH
  T(<<68,50,67>>, FALSE, 2, TRUE, 16, FALSE),         \* 2 D2C
  T(<<85,73,78>>, FALSE, 2, TRUE, 1, FALSE),          \* 3 UIN
  T(<<83,84,82>>, TRUE, 2, FALSE, 0, FALSE),          \* 4 STR:2
  T(<<72,69,88>>, TRUE, 3, FALSE, 0, FALSE),          \* 5 HEX:3
  T(<<73,71,78>>, TRUE, 1, FALSE, 0, FALSE),          \* 6 IGN:1
  T(<<66,73,51>>, TRUE, 2, TRUE, 1, TRUE),            \* 7 BI3:2  (two bits starting at bit 3)
  T(<<66,68,65>>, FALSE, 4, FALSE, 0, FALSE),         \* 8 BDA
  T(<<72,68,65,58,51>>, FALSE, 3, FALSE, 0, FALSE),   \* 9 HDA:3
  T(<<66,84,73>>, FALSE, 3, FALSE, 0, FALSE),         \* 10 BTI
  T(<<83,67,72>>, FALSE, 1, TRUE, 1, FALSE),          \* 11 SCH
  T(<<85,76,71>>, FALSE, 4, TRUE, 1, FALSE),          \* 12 ULG
  T(<<83,84,82>>, TRUE, 10, FALSE, 0, FALSE),         \* 13 STR:10   (lengths where decimal and hex writing differ)
  T(<<72,69,88>>, TRUE, 16, FALSE, 0, FALSE),         \* 14 HEX:16
  T(<<73,71,78>>, TRUE, 12, FALSE, 0, FALSE)          \* 15 IGN:12
>>
BaseTypes == 1..12                                     \* the types family B runs over
TypeText(ty) == LET t == Types[ty] IN IF t.adj THEN t.id \o <<COLON>> \o Dec(t.len) ELSE t.id
ByteLen(ty) == IF Types[ty].bits THEN 1 ELSE Types[ty].len
BitLen(ty) == IF Types[ty].bits THEN Types[ty].len ELSE 8 * Types[ty].len

(* field: pk = payload kind 0 plain, 1 divisor, 2 value list, 3 constant, 4 verified constant *)
F(name, part, ty, pk, div, vals, cval, unit, comment) ==
  [name |-> name, part |-> part, ty |-> ty, pk |-> pk, div |-> div, vals |-> vals, cval |-> cval, unit |-> unit, comment |-> comment]
(* message: w write, p passive, chain = <<  <<id bytes after PBSB, length>> ... >>, length -1 for a single id *)
M(w, p, prio, circuit, name, comment, qq, zz, pbsb, chain, fields) ==
  [w |-> w, p |-> p, prio |-> prio, circuit |-> circuit, name |-> name, comment |-> comment, qq |-> qq, zz |-> zz,
   pbsb |-> pbsb, chain |-> chain, fields |-> fields]

IsMasterAddr(a) == (a \div 16) \in {0, 1, 3, 7, 15} /\ (a % 16) \in {0, 1, 3, 7, 15}
ToMasterOrBroadcast(m) == m.zz = 254 \/ (m.zz >= 0 /\ IsMasterAddr(m.zz))
DefaultPart(m) == IF ToMasterOrBroadcast(m) \/ m.w = 1 THEN 1 ELSE 2         \* 1 = m, 2 = s

ValidField(f) == /\ f.pk \in 0..4
                 /\ (f.pk \in {1, 2}) => Types[f.ty].num
                 /\ (f.pk = 1) => ~Types[f.ty].bits /\ f.div \notin {0, 1} /\ (f.div < 0 => Types[f.ty].div = 1)
                 /\ (f.pk \in {3, 4}) => f.cval # <<>>
                 /\ TrimNormal(f.unit) /\ TrimNormal(f.comment)
ValidMsg(m) == /\ (m.p = 1 \/ m.w = 1) => m.prio = 0
               /\ m.qq = -1 \/ IsMasterAddr(m.qq)
               /\ Len(m.chain) >= 1 /\ (Len(m.chain) > 1 => m.p = 0 /\ \A k \in 1..Len(m.chain) : m.chain[k][2] \in 0..24)
               /\ (Len(m.chain) = 1 => m.chain[1][2] = -1)
               /\ \A k \in 1..Len(m.chain) : Len(m.chain[k][1]) = Len(m.chain[1][1])
               /\ \A k \in 1..Len(m.fields) : ValidField(m.fields[k]) /\ (ToMasterOrBroadcast(m) => m.fields[k].part = 1)
               /\ TrimNormal(m.comment)

(* ---- the columns of the configuration line (unquoted values) ---- *)
TypeCol(m) == IF m.p = 1 THEN (IF m.w = 1 THEN <<117, 119>> ELSE <<117>>)
              ELSE IF m.w = 1 THEN <<119>> ELSE <<114>> \o (IF m.prio > 0 THEN Digit(m.prio) ELSE <<>>)
AddrCol(a) == IF a < 0 THEN <<>> ELSE Hex2(a)
IdCol(m) == IF Len(m.chain) = 1 THEN HexOf(m.chain[1][1])
            ELSE JoinWith([k \in 1..Len(m.chain) |-> HexOf(m.chain[k][1]) \o <<COLON>> \o Dec(m.chain[k][2])], <<SEMI>>)
ValuesCol(f) == CASE f.pk = 0 -> <<>>
                  [] f.pk = 1 -> Dec(f.div)
                  [] f.pk = 2 -> JoinWith([k \in 1..Len(f.vals) |-> Dec(f.vals[k][1]) \o <<EQ>> \o f.vals[k][2]], <<SEMI>>)
                  [] f.pk = 3 -> <<EQ>> \o f.cval
                  [] f.pk = 4 -> <<EQ, EQ>> \o f.cval
FieldCols(f) == <<f.name, IF f.part = 1 THEN <<109>> ELSE <<115>>, TypeText(f.ty), ValuesCol(f), f.unit, f.comment>>
RECURSIVE AllFieldCols(_)
AllFieldCols(fs) == IF fs = <<>> THEN <<>> ELSE FieldCols(Head(fs)) \o AllFieldCols(Tail(fs))
MsgCols(m) == <<TypeCol(m), m.circuit, m.name, m.comment, AddrCol(m.qq), AddrCol(m.zz), HexOf(m.pbsb), IdCol(m)>>
Cols(m) == MsgCols(m) \o (IF m.fields = <<>> THEN << <<>> >> ELSE AllFieldCols(m.fields))

DumpLine(m) == JoinWith(Map(Quote, Cols(m)), <<COMMA>>)
Header == <<116,121,112,101,44,99,105,114,99,117,105,116,44,110,97,109,101,44,99,111,109,109,101,110,116,44,113,113,44,
            122,122,44,112,98,115,98,44,105,100,44,42,110,97,109,101,44,112,97,114,116,44,116,121,112,101,44,100,105,118,
            105,115,111,114,47,118,97,108,117,101,115,44,117,110,105,116,44,99,111,109,109,101,110,116>>
(* "type,circuit,name,comment,qq,zz,pbsb,id,*name,part,type,divisor/values,unit,comment" *)

(* a second way a user may write the same definition: everything quoted, hex in upper case, passive read as *)
(* "ur", the part left out where it is the default, first line a comment instead of the header              *)
AltCols(m) ==
  LET fc(f) == <<f.name, IF f.part = DefaultPart(m) THEN <<>> ELSE (IF f.part = 1 THEN <<77>> ELSE <<83>>),
                 TypeText(f.ty), ValuesCol(f), f.unit, f.comment>>
      RECURSIVE all(_)
      all(fs) == IF fs = <<>> THEN <<>> ELSE fc(Head(fs)) \o all(Tail(fs))
  IN <<IF m.p = 1 /\ m.w = 0 THEN <<117, 114>> ELSE TypeCol(m), m.circuit, m.name, m.comment, Upper(AddrCol(m.qq)),
       Upper(AddrCol(m.zz)), Upper(HexOf(m.pbsb)), Upper(IdCol(m))>> \o all(m.fields)
AltLine(m) == JoinWith(Map(Quoted, AltCols(m)), <<COMMA>>)
AltHeader == <<35, 32, 116, 121, 112, 101>>          \* "# type"

RECURSIVE JoinLines(_)
JoinLines(ls) == IF ls = <<>> THEN <<>> ELSE Head(ls) \o <<LF>> \o JoinLines(Tail(ls))
DumpText(D) == JoinLines(<<Header>> \o [k \in 1..Len(D) |-> DumpLine(D[k])])
AltText(D) == JoinLines(<<AltHeader>> \o [k \in 1..Len(D) |-> AltLine(D[k])])

(* ---- the attributes a loaded message must show ---- *)
FieldAttr(f) == [name |-> f.name, part |-> f.part, tid |-> Types[f.ty].id, len |-> ByteLen(f.ty), bits |-> BitLen(f.ty),
                 div |-> IF ~Types[f.ty].num THEN 0
                         ELSE IF f.pk # 1 THEN Types[f.ty].div
                         ELSE IF f.div < 0 THEN f.div ELSE f.div * Types[f.ty].div,
                 kind |-> IF f.pk = 2 THEN 2 ELSE IF f.pk \in {3, 4} THEN 3 ELSE 1,
                 vals |-> IF f.pk = 2 THEN f.vals ELSE <<>>,
                 cval |-> IF f.pk \in {3, 4} THEN f.cval ELSE <<>>, cver |-> IF f.pk = 4 THEN 1 ELSE 0,
                 unit |-> f.unit, comment |-> f.comment]
MsgAttr(m) == [w |-> m.w, p |-> m.p, prio |-> m.prio, circuit |-> m.circuit, name |-> m.name, comment |-> m.comment,
               qq |-> m.qq, zz |-> m.zz,
               ids |-> [k \in 1..Len(m.chain) |-> <<m.pbsb \o m.chain[k][1], m.chain[k][2]>>],
               fields |-> [k \in 1..Len(m.fields) |-> FieldAttr(m.fields[k])]]

(* lemma: the canonical line of a definition is read back by the reference reader as its columns *)
LemmaDumpSplit(Ds) == \A D \in Ds : \A k \in 1..Len(D) :
                         LET r == SplitLine(DumpLine(D[k])) IN r.ok /\ r.fields = Cols(D[k])

(***************************************************************************)
(* the enumerated definition sets                                           *)
(***************************************************************************)
tA == <<ca>>   tF == <<102>>   tG == <<103>>   tN == <<110>>   tC == <<99, 105, 114>>   tC2 == <<104, 99>>
Kw == <<107, 87>>            \* "kW"
CleanTexts(n) == {s \in TextsUpTo(n) : TrimNormal(s)}

PlainF(name, part, ty) == F(name, part, ty, 0, 0, <<>>, <<>>, <<>>, <<>>)
BaseMsg(w, p, prio, fields) == M(w, p, prio, tC, tN, <<>>, -1, 8, <<181, 9>>, << <<<<13>>, -1>> >>, fields)

Vals2 == << <<0, <<111, 102, 102>> >>, <<1, <<111, 110>> >>, <<3, <<97, 32, 98>> >> >>     \* 0=off;1=on;3=a b

(* A: message level shapes *)
KindsA == {<<0, 0, 0>>, <<0, 0, 1>>, <<0, 0, 9>>, <<1, 0, 0>>, <<0, 1, 0>>, <<1, 1, 0>>}    \* <<w, p, prio>>
QqA == {-1, 16, 255}
ZzA == {-1, 8, 21, 254, 16}
ChainsA == { << <<<<>>, -1>> >>, << <<<<13>>, -1>> >>, << <<<<13, 40, 0>>, -1>> >>,
             << <<<<1>>, 8>>, <<<<2>>, 2>> >>, << <<<<0, 1>>, 5>>, <<<<0, 2>>, 16>>, <<<<0, 3>>, 3>> >> }
FieldsA(m0) == { <<>>, <<PlainF(tF, DefaultPart(m0), 1)>>,
                 <<PlainF(tF, 1, 1), PlainF(<<>>, IF ToMasterOrBroadcast(m0) THEN 1 ELSE 2, 3)>> }
FamilyA == {m \in {M(k[1], k[2], k[3], tC, tN, tA, qq, zz, <<181, 9>>, ch, <<>>) : k \in KindsA, qq \in QqA, zz \in ZzA, ch \in ChainsA}
              : ValidMsg(m)}
SetsA == UNION {{<<[m EXCEPT !.fields = fs]>> : fs \in FieldsA(m)} : m \in FamilyA}

(* B: field level shapes *)
PayloadsB(ty) == {<<0, 0, <<>>, <<>>>>, <<3, 0, <<>>, <<49>>>>, <<4, 0, <<>>, <<49>>>>}
                 \cup (IF Types[ty].num THEN {<<2, 0, Vals2, <<>>>>} ELSE {})
                 \cup (IF Types[ty].num /\ ~Types[ty].bits THEN {<<1, 10, <<>>, <<>>>>, <<1, 2, <<>>, <<>>>>} ELSE {})
                 \cup (IF Types[ty].num /\ ~Types[ty].bits /\ Types[ty].div = 1 THEN {<<1, -10, <<>>, <<>>>>} ELSE {})
FieldsB == UNION {{F(nm, part, ty, pl[1], pl[2], pl[3], pl[4], un, <<>>) :
                     nm \in {<<>>, tF}, part \in {1, 2}, pl \in PayloadsB(ty), un \in {<<>>, Kw}} : ty \in BaseTypes}
SetsB == {<<BaseMsg(w, 0, 0, <<f>>)>> : w \in {0, 1}, f \in {g \in FieldsB : ValidField(g)}}

(* C: texts in message comment, unit, field comment *)
MsgC(c, u, fc) == M(0, 0, 0, tC, tN, c, -1, 8, <<181, 9>>, << <<<<13>>, -1>> >>,
                    <<F(tF, 2, 1, 0, 0, <<>>, <<>>, u, fc), F(tG, 2, 3, 1, 10, <<>>, <<>>, u, fc)>>)
SetsC(n) == {<<MsgC(t, <<>>, <<>>)>> : t \in CleanTexts(n)} \cup {<<MsgC(<<>>, t, <<>>)>> : t \in CleanTexts(n)}
            \cup {<<MsgC(<<>>, <<>>, t)>> : t \in CleanTexts(n)} \cup {<<MsgC(t, t, t)>> : t \in CleanTexts(n)}

(* D: several definitions in one file: same name with different directions, several circuits, *)
(*    lines with different numbers of field groups                                            *)
Named(m, c, n, id) == [m EXCEPT !.circuit = c, !.name = n, !.chain = << <<id, -1>> >>]
SetsD ==
  LET r0 == BaseMsg(0, 0, 3, <<PlainF(tF, 2, 1)>>)
      w0 == BaseMsg(1, 0, 0, <<PlainF(tF, 1, 1)>>)
      u0 == BaseMsg(0, 1, 0, <<PlainF(tF, 1, 1), PlainF(tG, 2, 2)>>)
      uw0 == Named(BaseMsg(1, 1, 0, <<>>), tC, tG, <<14>>)
      big == BaseMsg(0, 0, 0, <<PlainF(tF, 2, 1), F(tG, 2, 2, 1, 10, <<>>, <<>>, Kw, tA), F(<<>>, 2, 6, 0, 0, <<>>, <<>>, <<>>, <<>>),
                                F(tA, 2, 7, 2, 0, Vals2, <<>>, <<>>, <<>>), F(tN, 1, 4, 4, 0, <<>>, <<120, 121>>, <<>>, <<>>)>>)
      ch == M(0, 0, 0, tC2, tA, tA, -1, 8, <<181, 9>>, << <<<<1>>, 8>>, <<<<2>>, 2>> >>, <<PlainF(tF, 2, 4)>>)
  IN { <<r0, w0>>, <<r0, w0, u0>>, <<r0, u0, uw0, w0>>, <<w0, r0>>, <<Named(r0, tC2, tN, <<15>>), r0>>,
       <<Named(r0, tC, tA, <<16>>), r0, Named(w0, tC2, tA, <<17>>)>>,
       <<big>>, <<Named(big, tC, tG, <<18, 1>>), w0>>, <<ch, r0>>, <<Named(big, tC2, tG, <<19>>), ch, u0, w0>> }

(* E: number bases.  Every column that is written in hex (QQ, ZZ, PBSB, ID bytes of single and chained ids, in the   *)
(*    first part, in later parts and in the common prefix) carries bytes of the three classes < 0x0a, 0x0a..0x63,     *)
(*    >= 0x64; every column written in decimal (chain lengths, field lengths, divisors, value list keys) carries      *)
(*    values >= 10 and >= 16 - so that a decimal/hex mix-up in either direction changes the text or its meaning       *)
ChainsE == {
  << <<<<13, 40, 0>>, 16>>, <<<<13, 41, 0>>, 16>>, <<<<13, 42, 0>>, 16>> >>,        \* 0d2800:16;0d2900:16;0d2a00:16
  << <<<<14, 1>>, 8>>, <<<<14, 162>>, 6>> >>,                                        \* 0e01:8;0ea2:6
  << <<<<162, 13, 5>>, 10>>, <<<<162, 13, 100>>, 17>>, <<<<162, 13, 10>>, 24>> >>,  \* a20d05:10;a20d64:17;a20d0a:24
  << <<<<5>>, 10>>, <<<<99>>, 16>>, <<<<100>>, 9>>, <<<<255>>, 1>> >>,              \* 05:10;63:16;64:9;ff:1
  << <<<<9, 10>>, 16>>, <<<<10, 9>>, 10>> >>,                                        \* 090a:16;0a09:10
  << <<<<16>>, 16>>, <<<<10>>, 10>> >> }                                             \* 10:16;0a:10
IdsE == { <<10>>, <<16>>, <<99, 100>>, <<255, 16, 9>>, <<9, 10, 99, 100>> }
PbsbE == { <<7, 4>>, <<10, 99>>, <<100, 16>>, <<181, 9>> }
QqE == {3, 15, 16, 55, 113, 255}                            \* 03 0f 10 37 71 ff
ZzE == {8, 10, 21, 80, 100, 154, 254}                       \* 08 0a 15 50 64 9a fe
Vals3 == << <<9, tA>>, <<10, tF>>, <<16, tG>>, <<100, tN>>, <<254, <<97, 32, 98>> >> >>   \* 9=a;10=f;16=g;100=n;254=a b
SetsE ==
  LET strF(m0) == <<F(tF, DefaultPart(m0), 4, 0, 0, <<>>, <<>>, <<>>, <<>>)>>
      chainMsgs == {M(w, 0, 0, tC, tN, <<>>, -1, 8, pbsb, ch, <<>>) : w \in {0, 1}, ch \in ChainsE, pbsb \in {<<181, 9>>, <<100, 16>>}}
      idMsgs == {M(k[1], k[2], k[3], tC, tN, <<>>, -1, 8, pbsb, << <<id, -1>> >>, <<>>) :
                   k \in {<<0, 0, 0>>, <<1, 0, 0>>, <<0, 1, 0>>}, id \in IdsE, pbsb \in PbsbE}
      adrMsgs == {M(k[1], k[2], k[3], tC, tN, <<>>, qq, zz, <<181, 9>>, << <<<<13>>, -1>> >>, <<>>) :
                   k \in {<<0, 0, 5>>, <<0, 1, 0>>, <<1, 1, 0>>}, qq \in QqE, zz \in ZzE}
      numFields == {F(tF, 2, 13, 0, 0, <<>>, <<>>, <<>>, <<>>), F(tF, 1, 13, 0, 0, <<>>, <<>>, <<>>, <<>>),
                    F(tF, 2, 14, 0, 0, <<>>, <<>>, <<>>, <<>>), F(tF, 2, 15, 0, 0, <<>>, <<>>, <<>>, <<>>),
                    F(tF, 1, 15, 0, 0, <<>>, <<>>, <<>>, <<>>), F(<<>>, 2, 1, 2, 0, Vals3, <<>>, <<>>, <<>>),
                    F(tF, 1, 3, 2, 0, Vals3, <<>>, Kw, tA)}
                   \cup {F(tF, pt, ty, 1, d, <<>>, <<>>, <<>>, <<>>) : pt \in {1, 2}, ty \in {1, 3, 12}, d \in {16, 100, 1000, -16, -100}}
                   \cup {F(tF, 2, 2, 1, d, <<>>, <<>>, <<>>, <<>>) : d \in {16, 100, 1000}}
      chA == M(0, 0, 0, tC, tA, <<>>, 16, 80, <<100, 16>>, << <<<<162, 13, 5>>, 10>>, <<<<162, 13, 100>>, 17>> >>,
               <<F(tF, 2, 13, 0, 0, <<>>, <<>>, <<>>, <<>>), F(tG, 2, 1, 2, 0, Vals3, <<>>, <<>>, <<>>)>>)
      chB == M(1, 0, 0, tC2, tG, tA, 113, 100, <<10, 99>>, << <<<<16>>, 16>>, <<<<10>>, 10>> >>,
               <<F(tF, 1, 3, 1, 100, <<>>, <<>>, Kw, <<>>)>>)
      sgl == M(0, 1, 0, tC, tF, <<>>, 255, 154, <<7, 4>>, << <<<<99, 100>>, -1>> >>, <<F(tN, 1, 15, 0, 0, <<>>, <<>>, <<>>, <<>>)>>)
  IN {<<[m EXCEPT !.fields = strF(m)]>> : m \in chainMsgs} \cup {<<m>> : m \in chainMsgs}
     \cup {<<m>> : m \in idMsgs} \cup {<<[m EXCEPT !.fields = strF(m)]>> : m \in {x \in idMsgs : x.pbsb = <<100, 16>>}}
     \cup {<<m>> : m \in {x \in adrMsgs : ValidMsg(x)}}
     \cup {<<BaseMsg(w, 0, 0, <<f>>)>> : w \in {0, 1}, f \in numFields}
     \cup {<<chA, chB, sgl>>, <<sgl, chB>>, <<chB, chA>>}

DefSets(thorough) == SetsA \cup SetsB \cup SetsC(IF thorough THEN 4 ELSE 3) \cup SetsD \cup SetsE
=============================================================================
