------------------------------ MODULE CodecIndex ------------------------------
(* Domain completeness across shards for C05/C06: the list of all families      *)
(* (one line per family, as written by the harness and verified against the     *)
(* records shard by shard in C05Judge/C06Judge) must cover what the type table  *)
(* of Codec.tla and the property's quantifier require.                          *)
EXTENDS Codec, Json, IOUtils

Fams == ndJsonDeserialize(IOEnv.VF_FAMS)
Thorough == IOEnv.VF_TIER = "thorough"
WithJson == IOEnv.VF_MODE = "c05"

Has(t, l, d, f, m, doms) == \E k \in 1..Len(Fams) : LET h == Fams[k] IN
   h.t = t /\ h.l = l /\ h.d = d /\ h.f = f /\ h.m = m /\ h.v = 0 /\ h.dom \in doms
(* the JSON format differs from the text format only in quoting and the null token: it may be run on a sample *)
Sampled == {"s16", "s16l", "min", "times"}
Both(t, l, d, doms) == Has(t, l, d, 0, 1, doms) /\ (WithJson => Has(t, l, d, 1, 1, doms \cup Sampled))
Need(c, what) == c \/ ~PrintT(<<"VF", "MISSING", what>>)

Dom16 == IF Thorough THEN {"all16"} ELSE {"all16", "s16", "s16l"}
PlainNum == {t \in TypeIds : Types[t].k = "num" /\ "DAY" \notin Types[t].fl /\ "EXP" \notin Types[t].fl}
Divs(t) == LET T == Types[t] IN
           CASE T.bits = 8  -> {0, 10, 100} \cup (IF T.div = 1 THEN {-10} ELSE {})
             [] T.bits = 16 -> {0, 10, 100, 1000} \cup (IF T.div = 1 THEN {-10} ELSE {})
             [] OTHER       -> {0, 10, -10}
DomOf(t) == LET T == Types[t] IN
            CASE T.bits = 8 -> {"all8"} [] T.bits = 16 -> Dom16 [] T.bits = 24 -> {"w24"} [] OTHER -> {"w32"}

ASSUME \A t \in TypeIds : Need(\E k \in 1..Len(Fams) : Fams[k].t = t, <<"type", t>>)
ASSUME \A t \in PlainNum : \A d \in Divs(t) :
         Need(Has(t, 0, d, 0, 1, DomOf(t)) /\ (WithJson /\ d = 0 => Has(t, 0, d, 1, 1, DomOf(t) \cup Sampled)), <<"num", t, d>>)
ASSUME \A t \in {x \in TypeIds : Types[x].k = "bits"} :
         \A n \in (IF Types[t].bits = 1 THEN {0} ELSE 0..Types[t].bits) : Need(Both(t, n, 0, {"all8"}), <<"bits", t, n>>)
(* calendar coverage does not depend on the tier: every day 2000-2099 of every date type (the registered duplicates *)
(* BDA:4/HDA:4 may be thinned in the quick tier), every DAY value, every day of DTM's range                          *)
ASSUME \A t \in {x \in TypeIds : Types[x].k = "date"} :
         Need(Has(t, 0, 0, 0, 1, IF Thorough \/ t \notin {"BDA:4", "HDA:4"} THEN {"days"} ELSE {"days", "somedays"})
              /\ Has(t, 0, 0, 0, 1, {"bnd"}), <<"date", t>>)
ASSUME Need(Has("DAY", 0, 0, 0, 1, {"all16"}) /\ Has("DTM", 0, 0, 0, 1, {"dtm"}), "day/dtm")
ASSUME \A t \in {"BTM", "HTM", "VTM"} : Need(Both(t, 0, 0, Dom16), <<"time", t>>)
ASSUME Need(Both("MIN", 0, 0, IF Thorough THEN {"all16"} ELSE {"all16", "min"}), "MIN")
ASSUME \A t \in {"TTM", "TTH", "TTQ"} : Need(Both(t, 0, 0, {"all8"}), <<"time", t>>)
ASSUME \A t \in {"BTI", "HTI", "VTI"} :
         Need(Has(t, 0, 0, 0, 1, IF Thorough THEN {"alltimes"} ELSE {"alltimes", "times"}) /\ Has(t, 0, 0, 0, 1, {"bnd"}), <<"time", t>>)
ASSUME \A t \in {"STR", "NTS", "HEX"} : \A l \in {0, 1, 2, 31, 255} :
         Need(Both(t, l, 0, {"all8", "strings"}), <<"string", t, l>>)
ASSUME Need(Has("TEM_P", 0, 0, 0, 1, Dom16) /\ Has("TEM_P", 0, 0, 0, 0, Dom16), "TEM_P")
ASSUME \A t \in {"BDY", "HDY"} : Need(Both(t, 0, 0, {"all8"}), <<"weekday", t>>)
ASSUME Need(\E k \in 1..Len(Fams) : Fams[k].v # 0 /\ Types[Fams[k].t].k = "bits", "list on bits")
       /\ Need(\E k \in 1..Len(Fams) : Fams[k].v # 0 /\ Types[Fams[k].t].bits = 16, "list on 16 bit")
(* fields decoded as the second field of a message (one field set, one output stream), text and JSON *)
ASSUME WithJson => \A t \in {"EXP", "EXR", "FLT", "UCH", "BCD", "BDA:3"} : \A f \in {5, 6} :
         Need(\E k \in 1..Len(Fams) : Fams[k].t = t /\ Fams[k].f = f /\ Fams[k].dom = "pairs", <<"pairs", t, f>>)
ASSUME PrintT(<<"VF", "FAMILIES", Len(Fams)>>)

VARIABLE dummy
Init == dummy = 0
Next == UNCHANGED dummy
=============================================================================
