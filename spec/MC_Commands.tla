---------------------------- MODULE MC_Commands ----------------------------
(* Design level: TLC explores the cache / age / selection decisions of read, write and find (Commands!SStep) against  *)
(* the monitor of Commands.tla for sessions of any length: commands of a small alphabet with clock ticks {0,1,299,301} *)
(* in between, up to MaxDepth commands.  Time is kept relative (ages are capped at 401 s, the largest -m value is 400) and the telegram counters *)
(* modulo 3, so the state space is finite.                                                                            *)
(*   MC_Commands.cfg        Mode = "doc"     (decisions as documented)  - McOk must hold                              *)
(*   MC_CommandsPinned.cfg  Mode = "pinned"  (decisions as coded)       - TLC finds the cached-value differences        *)
EXTENDS Commands
CONSTANT Mode
VARIABLES mw, ms, mp, mok, mdepth
mvars == <<mw, ms, mp, mok, mdepth>>
CONSTANT MaxDepth
NOW == 1000
CAP == NOW - 401

McWorlds == { World(1, <<D_temp, D_ptemp, D_btemp>>, 0), World(2, <<D_temp, D_wtemp, D_ptemp>>, 0),
              World(3, <<D_par, D_two>>, 0), World(4, <<D_any, D_temp, D_ptemp0>>, 0), World(5, <<D_temp, D_ptemp>>, 1) }
McCmds(w) ==
  LET names == {w.msgs[i].n : i \in Msgs(w)}
      reads == {[Rd(n) EXCEPT !.cache = ca, !.c = ci, !.d = d, !.i = inp] :
                  n \in names, ca \in {"", "f", "m1", "m400"}, ci \in {<<>>, T_ca}, d \in {0, 24},
                  inp \in (IF T_par \in names THEN {<<>>, <<53>>, <<54>>} ELSE {<<>>})}
      writes == {Wr(w.msgs[i].c, w.msgs[i].n, v) : i \in {j \in Msgs(w) : w.msgs[j].k = "w"}, v \in {<<57>>, <<51, 48, 48>>}}
      buses == {Bus(i, <<95>>) : i \in {j \in Msgs(w) : w.msgs[j].k # "w" /\ Len(w.msgs[j].sf) = 1 /\ w.msgs[j].mf = <<>> /\ w.nosig = 0}}
      finds == {Fnd(<<>>), [Fnd(<<>>) EXCEPT !.fd = 1], [Fnd(<<>>) EXCEPT !.fa = 1, !.fd = 1]}
  IN {[c EXCEPT !.tk = t] : c \in reads \cup writes \cup buses \cup finds, t \in Ticks}

(* bring a state back to NOW after tk seconds passed *)
ShiftS(w, s, tk) == [s EXCEPT !.e = [i \in Msgs(w) |-> IF ~s.e[i].has THEN SNoDat ELSE [s.e[i] EXCEPT !.t = IF @ - tk < CAP THEN CAP ELSE @ - tk]],
                              !.cnt = [i \in Msgs(w) |-> s.cnt[i] % 3]]
ShiftP(w, p, tk) == [p EXCEPT !.d = [i \in Msgs(w) |-> IF ~p.d[i].may THEN NoDat ELSE [p.d[i] EXCEPT !.t = IF @ - tk < CAP THEN CAP ELSE @ - tk]],
                              !.cnt = [i \in Msgs(w) |-> p.cnt[i] % 3]]
McInit == /\ mw \in McWorlds
          /\ ms = ShiftS(mw, SInit(mw), -NOW)
          /\ mp = ShiftP(mw, PInit(mw), -NOW)
          /\ mok = TRUE /\ mdepth = 0
McNext == \E c \in McCmds(mw) :
            LET now == NOW + c.tk
                x == SStep(Mode, mw, ms, now, c)
                o == [a |-> x.a, bus |-> x.bus, pr |-> x.st.pr, dat |-> [i \in Msgs(mw) |-> IF x.st.e[i].has THEN 1 ELSE 0]]
                ok == CmdOk({}, mw, mp, now, c, o, ms.pr)
            IN /\ mok /\ mdepth < MaxDepth /\ mdepth' = mdepth + 1 /\ mw' = mw
               /\ ms' = ShiftS(mw, x.st, c.tk)
               /\ mp' = ShiftP(mw, PUpd(mw, mp, now, c, o), c.tk)
               /\ mok' = ok
               /\ (ok \/ PrintT(<<"VF", "MC-REJECT", mw.fam, mdepth + 1, c.tk, c.op, c.cache, c.d, Len(c.i), Len(o.bus)>>))
McOk == mok
(* the monitor's "surely cached" is never wrong about the coded cache, "may be cached" never misses it *)
McCacheTracked == \A i \in Msgs(mw) : (mp.d[i].sure => ms.e[i].has) /\ (ms.e[i].has => mp.d[i].may)
=============================================================================
