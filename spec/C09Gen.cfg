INIT Init
NEXT Next
