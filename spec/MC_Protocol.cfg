\* one active master-slave request 31 15 b5 09 01 a9 (escaped data byte) among passive traffic; NN <= 1
CONSTANTS
  PC <- MCPC_request
  Cfg <- MCCfg
  Mons = {"r", "s", "t", "q"}
  QQs = {3}
  ZZs = {254, 21}
  Datas = {66}
  Winners = {3}
  NNMax = 1
  SNNMax = 1
  SubmitWhen = 1
  PBs = {181}
  SBs = {9}
  Junk = {66}
  LongTo = TRUE
  LongToAny = FALSE
  ReadErr = FALSE
  WriteErr = FALSE
  EchoFaults = FALSE
  ArbNone = TRUE
  LateEcho = FALSE
  EscQQ = FALSE
  OpenFail = FALSE
  Reconnect = FALSE
INIT Init
NEXT Next
VIEW View
INVARIANT MonOk
INVARIANT NoUb
INVARIANT ArbSane
