------------------------------- MODULE MsgMatch -------------------------------
(* C08 - a telegram is matched to the right message definition.                 *)
(*                                                                              *)
(* P  MatchRef / Allowed : written from the property text and the documented    *)
(*    lookup modes (message.h: "anyDestination: true to only return messages    *)
(*    without a particular destination"; docs: a definition without ZZ is a     *)
(*    template that is only matchable once derived for an address).             *)
(* S  SLoad / SFind      : transcription of Message::createKey (3 overloads),   *)
(*    MessageMap::add (duplicate detection, m_maxIdLength,                      *)
(*    m_maxBroadcastIdLength), MessageMap::find (descending probe with the      *)
(*    source/read/write variants), Message::checkId, ChainedMessage::checkId.   *)
(* Domain operators (definition universes, telegram derivation) are shared by   *)
(* the generator C08Gen and the judge C08Judge.                                 *)
EXTENDS EbusSymbols, Integers

ANY  == SYN          \* "no address given" in a definition (0xAA)
NONE == 0            \* find returned nullptr
SCAN == -1           \* find returned the built-in scan message

(* ------------------------------------------------------------------------ *)
(* Definitions.  d = [ids  : non-empty sequence of ID byte sequences (after  *)
(*                           PB SB; one per chain part, all of equal length),*)
(*                    pb, sb, dir \in {"r","w","u","uw"}, src, dst,          *)
(*                    cond \in {0,1} (1: guarded by the condition of the     *)
(*                    case, available iff the condition is true)]            *)
(* Telegram t = [qq, zz, pb, sb, data]   (NN = Len(data))                    *)
(* ------------------------------------------------------------------------ *)
IdLen(d)   == Len(d.ids[1])
Chained(d) == Len(d.ids) > 1
Class(d)   == IF d.dir \in {"u", "uw"} THEN "p" ELSE d.dir
PrefixOf(p, s) == Len(p) <= Len(s) /\ \A k \in 1..Len(p) : p[k] = s[k]

WellFormedDef(d) ==
  /\ Len(d.ids) >= 1 /\ \A k \in 1..Len(d.ids) : Len(d.ids[k]) = Len(d.ids[1])
  /\ d.dir \in {"r", "w", "u", "uw"} /\ d.cond \in {0, 1}
  /\ (d.src = ANY \/ IsMaster(d.src))
  /\ (Chained(d) => Class(d) # "p")

(* ------------------------------- P ----------------------------------- *)
IdOk(d, t)       == \E k \in 1..Len(d.ids) : PrefixOf(d.ids[k], t.data)
DstOk(d, t, any) == IF any THEN d.dst = ANY ELSE d.dst = t.zz
SrcOk(d, t)      == Class(d) = "p" => (d.src = ANY \/ d.src = t.qq)
Avail(d, ct)     == d.cond = 0 \/ ct

(* candidates irrespective of the requested direction *)
Cand(defs, loaded, ct, t, any, oa) ==
  {k \in 1..Len(defs) : /\ loaded[k] = 1
                        /\ (oa => Avail(defs[k], ct))
                        /\ defs[k].pb = t.pb /\ defs[k].sb = t.sb
                        /\ DstOk(defs[k], t, any)
                        /\ IdOk(defs[k], t)
                        /\ SrcOk(defs[k], t)}
MatchRefOf(defs, cand, want) == {k \in cand : Class(defs[k]) \in want}
MatchRef(defs, loaded, ct, t, any, oa, want) == MatchRefOf(defs, Cand(defs, loaded, ct, t, any, oa), want)
Best(defs, M) == {k \in M : \A j \in M : IdLen(defs[j]) <= IdLen(defs[k])}

(* documented special case: in anyDestination mode 07 04 with NN = 0 is the scan message *)
ScanCase(t, any) == any /\ t.pb = 7 /\ t.sb = 4 /\ t.data = <<>>

AllowedOf(defs, cand, t, any, want, res) ==
  LET M == MatchRefOf(defs, cand, want) IN
  IF ScanCase(t, any) THEN res = SCAN \/ res \in Best(defs, M)
  ELSE IF M = {} THEN res = NONE
  ELSE res \in Best(defs, M)

(* why a result is rejected (signature of a violation) *)
Reason(defs, loaded, ct, t, any, oa, want, res) ==
  LET cand == Cand(defs, loaded, ct, t, any, oa)
      M == MatchRefOf(defs, cand, want) IN
  IF res = NONE THEN "missed-matching-definition"
  ELSE IF res = SCAN THEN "scan-message-returned"
  ELSE IF res \notin 1..Len(defs) THEN "unknown-result"
  ELSE LET d == defs[res] IN
       IF loaded[res] # 1 THEN "returned-rejected-definition"
       ELSE IF d.pb # t.pb \/ d.sb # t.sb THEN "pbsb-mismatch"
       ELSE IF ~DstOk(d, t, any) THEN "destination-mismatch"
       ELSE IF ~IdOk(d, t) THEN "id-mismatch"
       ELSE IF ~SrcOk(d, t) THEN "source-mismatch"
       ELSE IF Class(d) \notin want THEN "direction-mismatch"
       ELSE IF oa /\ ~Avail(d, ct) THEN "unavailable-returned"
       ELSE IF \E j \in M : Chained(defs[j]) /\ IdLen(defs[j]) > IdLen(d) THEN "longer-chained-id-shadowed"
       ELSE "not-longest-id"

(* ------------------------------- S ----------------------------------- *)
(* 64 bit key as a record: len (3 bits), src (5 bits), dst, pb, sb, f = the  *)
(* four low bytes into which the ID bytes are XOR-folded.                    *)
XorB(a, b) == IF a = b THEN 0 ELSE IF a = 0 THEN b ELSE IF b = 0 THEN a ELSE Xor(a, b)   \* Xor with shortcuts
FoldStep(f, byte, j) == [f EXCEPT ![(j % 4) + 1] = XorB(@, byte)]     \* j = 0-based index of the byte within the ID
RECURSIVE FoldBytes(_, _, _)
FoldBytes(f, bytes, j) ==
  IF bytes = <<>> THEN f ELSE FoldBytes(FoldStep(f, Head(bytes), j), Tail(bytes), j + 1)
Fold(bytes) == FoldBytes(<<0, 0, 0, 0>>, bytes, 0)
(* folds of all prefixes of the telegram data: FoldsOf(t, n)[l + 1] = fold of the first l bytes (dataAt: 0 beyond the end) *)
RECURSIVE FoldsFrom(_, _, _, _)
FoldsFrom(t, n, l, f) ==
  IF l = n THEN <<f>> ELSE <<f>> \o FoldsFrom(t, n, l + 1, FoldStep(f, IF l + 1 <= Len(t.data) THEN t.data[l + 1] ELSE 0, l))
FoldsOf(t, n) == FoldsFrom(t, n, 0, <<0, 0, 0, 0>>)

RECURSIVE CommonPrefixLen(_, _, _)
CommonPrefixLen(ids, k, pl) ==   \* Message::create: chainPrefixLength
  IF k > Len(ids) THEN pl
  ELSE LET mism == {p \in 1..pl : ids[k][p] # ids[1][p]} IN
       CommonPrefixLen(ids, k + 1, IF mism = {} THEN pl ELSE (CHOOSE p \in mism : \A q \in mism : p <= q) - 1)
PrefixLen(d) == IF Chained(d) THEN CommonPrefixLen(d.ids, 2, IdLen(d)) ELSE IdLen(d)
KeyId(d) == SubSeq(d.ids[1], 1, PrefixLen(d))          \* m_id without PB SB

DefKey(d) ==    \* Message::createKey(id, isWrite, isPassive, srcAddress, dstAddress)
  [len |-> PrefixLen(d) % 8,
   src |-> IF Class(d) = "p" THEN MasterNumber(d.src) ELSE IF d.dir = "w" THEN 31 ELSE 30,
   dst |-> d.dst, pb |-> d.pb, sb |-> d.sb, f |-> Fold(KeyId(d))]

DataAt(t, i) == IF i <= Len(t.data) THEN t.data[i] ELSE 0     \* SymbolString::dataAt (1-based here)
TelKey0(t, len, any) ==   \* without the folded ID bytes
  [len |-> len % 8, src |-> MasterNumber(t.qq), dst |-> IF any THEN SYN ELSE t.zz, pb |-> t.pb, sb |-> t.sb, f |-> <<0, 0, 0, 0>>]
TelKey(t, len, any) ==   \* Message::createKey(master, maxIdLength, anyDestination) / the re-keying in find
  [len |-> len % 8, src |-> MasterNumber(t.qq), dst |-> IF any THEN SYN ELSE t.zz, pb |-> t.pb, sb |-> t.sb,
   f |-> Fold([i \in 1..len |-> DataAt(t, i)])]

(* Message::checkId(master) / ChainedMessage::checkId(master) *)
CheckId(d, t) ==
  /\ Len(t.data) >= IdLen(d)
  /\ PrefixOf(KeyId(d), t.data)
  /\ (Chained(d) =>
        \E k \in 1..Len(d.ids) : /\ IdLen(d) > PrefixLen(d)       \* "found" stays false for an empty suffix
                                 /\ \A p \in (PrefixLen(d) + 1)..IdLen(d) : d.ids[k][p] = t.data[p])

(* a.checkId(b) for two definitions (duplicate detection) *)
CheckIdDef(a, b) ==
  IF ~Chained(a) THEN /\ IdLen(a) = IdLen(b)
                      /\ PrefixOf(KeyId(a), KeyId(b))                \* b.checkIdPrefix(a.m_id)
  ELSE /\ IdLen(a) = IdLen(b) /\ Chained(b)
       /\ PrefixOf(KeyId(a), KeyId(b))
       /\ \E i \in 1..Len(a.ids), j \in 1..Len(b.ids) :
            /\ IdLen(a) > PrefixLen(a)
            /\ \A p \in (PrefixLen(a) + 1)..IdLen(a) : a.ids[i][p] = b.ids[j][p]

(* MessageMap::add for the definitions in add order; conditions are unresolved *)
(* while loading, so a conditional definition is "not available" then.         *)
(* state: keys (of all definitions), loaded flags, order = m_messagesByKey     *)
(* insertion order, maxId = m_maxIdLength, maxBc = m_maxBroadcastIdLength      *)
RECURSIVE KeysOf(_, _)
KeysOf(defs, k) == IF k > Len(defs) THEN <<>> ELSE <<DefKey(defs[k])>> \o KeysOf(defs, k + 1)
RECURSIVE SLoadFrom(_, _, _)
SLoadFrom(defs, k, acc) ==
  IF k > Len(defs) THEN acc
  ELSE LET d == defs[k]
           key == acc.keys[k]
           hits == SelectSeq(acc.order, LAMBDA j : acc.keys[j] = key /\ CheckIdDef(defs[j], d) /\ defs[j].cond = 0)
           dup == hits # <<>> /\ (d.cond = 0 \/ defs[hits[1]].cond = 0)
       IN IF dup THEN SLoadFrom(defs, k + 1, [acc EXCEPT !.loaded = Append(@, 0)])
          ELSE SLoadFrom(defs, k + 1,
                 [keys |-> acc.keys, loaded |-> Append(acc.loaded, 1), order |-> Append(acc.order, k),
                  maxId |-> IF IdLen(d) > acc.maxId THEN IdLen(d) ELSE acc.maxId,
                  maxBc |-> IF d.dst = BROADCAST /\ IdLen(d) > acc.maxBc THEN IdLen(d) ELSE acc.maxBc])
SLoad(defs) == SLoadFrom(defs, 1, [keys |-> KeysOf(defs, 1), loaded |-> <<>>, order |-> <<>>, maxId |-> 0, maxBc |-> 0])

(* getFirstAvailable(bucket, &master, onlyAvailable) *)
SLookup(defs, st, ct, key, t, oa) ==
  LET hits == SelectSeq(st.order, LAMBDA j : /\ st.keys[j] = key /\ CheckId(defs[j], t)
                                             /\ (oa => Avail(defs[j], ct)))
  IN IF hits = <<>> THEN NONE ELSE hits[1]

(* the probes of one iteration of the loop in MessageMap::find: <<passive, read, write>> *)
SProbe(defs, st, ct, t, any, oa, maxLen, idLength, folds) ==
  LET len == IF idLength = maxLen THEN (IF Len(t.data) < maxLen THEN Len(t.data) ELSE maxLen) ELSE idLength
      key == [TelKey0(t, len, any) EXCEPT !.f = folds[len + 1]]
      p1 == SLookup(defs, st, ct, key, t, oa)
      p2 == IF key.src # 0 THEN SLookup(defs, st, ct, [key EXCEPT !.src = 0], t, oa) ELSE NONE
  IN <<IF p1 # NONE THEN p1 ELSE p2,
       SLookup(defs, st, ct, [key EXCEPT !.src = 30], t, oa),
       SLookup(defs, st, ct, [key EXCEPT !.src = 31], t, oa)>>

RECURSIVE SFindFrom(_, _, _)
SFindFrom(table, want, idLength) ==      \* table[idLength + 1] = SProbe(...)
  LET pr == table[idLength + 1] IN
  IF "p" \in want /\ pr[1] # NONE THEN pr[1]
  ELSE IF "r" \in want /\ pr[2] # NONE THEN pr[2]
  ELSE IF "w" \in want /\ pr[3] # NONE THEN pr[3]
  ELSE IF idLength = 0 THEN NONE
  ELSE SFindFrom(table, want, idLength - 1)

SMaxLen(st, t, any) == IF any \/ t.zz # BROADCAST THEN st.maxId ELSE st.maxBc
RECURSIVE STableFrom(_, _, _, _, _, _, _, _, _)
STableFrom(defs, st, ct, t, any, oa, maxLen, l, folds) ==     \* a concrete tuple (evaluated once)
  IF l > maxLen THEN <<>>
  ELSE <<SProbe(defs, st, ct, t, any, oa, maxLen, l, folds)>> \o STableFrom(defs, st, ct, t, any, oa, maxLen, l + 1, folds)
STable(defs, st, ct, t, any, oa) ==
  LET maxLen == SMaxLen(st, t, any) IN STableFrom(defs, st, ct, t, any, oa, maxLen, 0, FoldsOf(t, maxLen))
SFindT(st, t, any, table, want) ==
  IF any /\ t.data = <<>> /\ t.pb = 7 /\ t.sb = 4 THEN SCAN
  ELSE SFindFrom(table, want, SMaxLen(st, t, any))
SFind(defs, st, ct, t, any, oa, want) == SFindT(st, t, any, STable(defs, st, ct, t, any, oa), want)

(* ------------------------------ domain -------------------------------- *)
Bits == {0, 1}
IdsOfLen(n) == [1..n -> Bits]
IdsUpTo(n) == UNION {IdsOfLen(k) : k \in 0..n}
Flip(b) == 1 - b
Mutate(id, j) == [id EXCEPT ![j] = Flip(@)]

DirSrcs == {<<"r", ANY>>, <<"w", ANY>>, <<"u", ANY>>, <<"u", 16>>, <<"uw", ANY>>, <<"uw", 16>>}
Dsts == {ANY, 8, 254, 16}
Attrs == DirSrcs \X Dsts            \* <<<<dir, src>>, dst>>
PB0 == 181  SB0 == 9                \* B5 09
NDef(id, attr, cond) == [ids |-> <<id>>, pb |-> PB0, sb |-> SB0, dir |-> attr[1][1], src |-> attr[1][2],
                         dst |-> attr[2], cond |-> cond]
(* chain shapes over a prefix p *)
ChainIds(p, shape) ==
  CASE shape = 1 -> <<p \o <<0>>, p \o <<1>>>>
    [] shape = 2 -> <<p \o <<0, 0>>, p \o <<0, 1>>, p \o <<1, 1>>>>
    [] shape = 3 -> <<p \o <<0, 0>>, p \o <<1, 0>>>>
CDef(p, shape, dir, dst, cond) == [ids |-> ChainIds(p, shape), pb |-> PB0, sb |-> SB0, dir |-> dir, src |-> ANY,
                                   dst |-> dst, cond |-> cond]

(* telegrams derived from a definition by keep / truncate / extend / mutate *)
DataVariants(id) ==
  {id} \cup (IF id = <<>> THEN {} ELSE {SubSeq(id, 1, Len(id) - 1)})
       \cup {id \o <<b>> : b \in Bits}
       \cup {Mutate(id, j) : j \in 1..Len(id)}
AltZZ(z) == IF z \in {ANY, 8, 16} THEN 254 ELSE 8
(* source addresses: masters with even and odd master numbers below and above 16 (00 = #1, 10 = #2, 31 = #8,   *)
(* 03 = #11, FF = #25: first and last master number included); the source bits of the key are shared with the active read/write markers             *)
QQAll == {0, 16, 49, 3, 255}
TelsOfDef(d, qqs) ==
  LET zz0 == IF d.dst = ANY THEN 8 ELSE d.dst
      datas == UNION {DataVariants(d.ids[k]) : k \in 1..Len(d.ids)}
  IN {[qq |-> q, zz |-> z, pb |-> d.pb, sb |-> d.sb, data |-> x] : q \in qqs, z \in {zz0, AltZZ(d.dst)}, x \in datas}
     \cup {[qq |-> q, zz |-> zz0, pb |-> d.pb, sb |-> d.sb + 1, data |-> d.ids[1]] : q \in qqs}
     \cup {[qq |-> q, zz |-> zz0, pb |-> d.pb, sb |-> d.sb, data |-> x] :           \* every source for the exact and an extended ID
            q \in QQAll, x \in UNION {{d.ids[k], d.ids[k] \o <<0>>} : k \in 1..Len(d.ids)}}
QQsOf(defs) ==      \* even and odd master number (+ a non-matching one); sets of 3 get the odd ones through QQAll only
  (IF \E k \in 1..Len(defs) : defs[k].src # ANY THEN {16, 49} ELSE {16}) \cup (IF Len(defs) <= 2 THEN {3} ELSE {})
Tels(defs) == UNION {TelsOfDef(defs[k], QQsOf(defs)) : k \in 1..Len(defs)}

Wants == SUBSET {"r", "w", "p"}
(* the 8 requested-direction sets in the order used by the harness: bit 4 = read, 2 = write, 1 = passive *)
WantOf(m) == (IF (m \div 4) % 2 = 1 THEN {"r"} ELSE {}) \cup (IF (m \div 2) % 2 = 1 THEN {"w"} ELSE {})
             \cup (IF m % 2 = 1 THEN {"p"} ELSE {})
=============================================================================
