------------------------------ MODULE BusHandler ------------------------------
(* The request side of BusHandler (src/ebusd/bushandler.cpp): poll requests, scan requests, the grab table and  *)
(* the seen-address / scan-result bookkeeping.                                                                    *)
(*                                                                                                                *)
(*  Part 1  the world: the message definitions the daemon was started with (the CSV text the harness loads)      *)
(*  Part 2  P  - monitors over OBSERVABLE events (what any correct ebusd may do; property C04 for poll / scan    *)
(*               requests + the bookkeeping statements), written from the property text, not from the code       *)
(*  Part 3  S  - a code-shaped model: PollRequest::prepare/notify, ScanRequest::prepare/notify, poll scheduling   *)
(*               in notifyProtocolStatus(ps_empty), startScan / scanAndWait / prepareScan, setScanResult /        *)
(*               setScanFinished, notifyProtocolMessage (ident bookkeeping, grab table), seen flags; the protocol *)
(*               handler is abstracted to its queue discipline (its own S is spec/Protocol.tla)                   *)
(*                                                                                                                *)
(* Users: MC_BusHandler (TLC explores S and runs the P monitors on the events S emits: S => P),                  *)
(*        BhGraph (P monitors on the transition graph extracted from the real objects: P-on-G),                   *)
(*        BhFidelity (every observed notify / scheduling / message record against the S operators: drift).        *)
(*                                                                                                                *)
(* Events (JSON objects, field "e" names the kind; emitted by harness/c04_bushandler.cpp at the interfaces          *)
(* between the real DirectProtocolHandler and the real BusHandler / request objects):                             *)
(*  new      rid del wait req        a request object was handed to ProtocolHandler::addRequest                   *)
(*  rejected rid res                 addRequest refused it                                                         *)
(*  ntf      rid res slave restart pre post st fl sr run     BusRequest::notify was called and returned restart    *)
(*           pre/post = the request before/after; st = stored answers <<message, part, data, fresh>>;              *)
(*           fl = seen-flag changes <<addr, before, after>>; sr = scan result changes; run = running scans          *)
(*  del      rid                     the request object was deleted                                                *)
(*  fin      rid                     the waiting client took it from the finished queue                            *)
(*  msg      dir m s grabon grab gtotal st fl sr run         notifyProtocolMessage and what it changed             *)
(*  seen     a fl ..                 notifyProtocolSeenAddress                                                     *)
(*  pse      lastpoll pq created msg lastpoll2               notifyProtocolStatus(ps_empty): poll scheduling        *)
(*  scancall res ..   swcall a   swret a res have text ..    client calls startScan / scanAndWait                   *)
(*  obs      nextq finq cur live flags results running nosignal step   what is visible at the end of every edge     *)
(*  bad      what a                  the harness saw something that must never happen (write after delete, crash)   *)
EXTENDS Integers, Sequences, FiniteSets, TLC, IOUtils

Muted == {IF k \in DOMAIN IOEnv THEN IOEnv[k] ELSE "" :
             k \in {"VF_MUTE1", "VF_MUTE2", "VF_MUTE3", "VF_MUTE4", "VF_MUTE5", "VF_MUTE6", "VF_MUTE7", "VF_MUTE8"}}

(***************************************************************************)
(* Part 1: the world.                                                      *)
(***************************************************************************)
OWN == 49            \* own master address 0x31
ANY == 170           \* SYN: "any destination" of a definition
OK == 0  CONTINUE == 1  EMPTY == 2
ERRTIMEOUT == -5  ERREOF == -7  ERRNOTFOUND == -6  ERRDUP == -16  ERRBUSLOST == -18  ERRCRC == -20  ERRNAK == -22  ERRNOSIGNAL == -23
SEEN == 1  SCANINIT == 2  SCANDONE == 4  LOADINIT == 8  LOADDONE == 16

(* message templates: 1 = pollable single, 2 = pollable chained (two parts), 3 = identification (07 04), 4 = additional scan message *)
(* each part: <<PB, SB, ID bytes...>>; a message is identified as template * 1000 + destination                                       *)
Parts(t) == CASE t = 1 -> << <<181, 9, 13, 1>> >>
              [] t = 2 -> << <<181, 9, 13, 2>>, <<181, 9, 13, 3>> >>
              [] t = 3 -> << <<7, 4>> >>
              [] t = 4 -> << <<181, 9, 36>> >>
              [] OTHER -> <<>>
NParts(t) == Len(Parts(t))
TplOf(mid) == mid \div 1000
DstOf(mid) == mid % 1000
Mid(t, dst) == t * 1000 + dst
(* the master telegram (without CRC) of part k (0-based) of template t sent to dst *)
Tel(t, k, dst) == LET p == Parts(t)[k + 1] IN <<OWN, dst, p[1], p[2], Len(p) - 2>> \o SubSeq(p, 3, Len(p))
IsMasterAddr(a) == LET hi == a \div 16  lo == a % 16 IN hi \in {0, 1, 3, 7, 15} /\ lo \in {0, 1, 3, 7, 15}
MasterOfSlave(a) == IF IsMasterAddr((a + 251) % 256) THEN (a + 251) % 256 ELSE ANY    \* slave = master + 5

Bits(x) == {i \in 0..7 : (x \div (2 ^ i)) % 2 = 1}
SubFlags(x, y) == Bits(x) \subseteq Bits(y)
HasBit(x, b) == \E i \in 0..7 : 2 ^ i = b /\ i \in Bits(x)
OrBit(x, b) == IF HasBit(x, b) THEN x ELSE x + b

SeqHas(sq, x) == \E i \in 1..Len(sq) : sq[i] = x

(***************************************************************************)
(* Part 2: P.                                                              *)
(* One monitor record; RIDS are the names the harness gives to live request *)
(* objects (reused after the object is gone).                               *)
(*  st  free -> queued -(ntf restart)-> queued -(ntf final)-> final         *)
(*      final -(del, self-deleting)-> free                                   *)
(*      final -(fin, waited)-> taken -(del)-> free ;  rejected -(del)-> free *)
(***************************************************************************)
RIDS == 1..4
PInit == [st |-> [r \in RIDS |-> "free"], kd |-> [r \in RIDS |-> "req"], dl |-> [r \in RIDS |-> 0], wt |-> [r \in RIDS |-> 0],
          pm |-> [r \in RIDS |-> 0], pk |-> [r \in RIDS |-> 0],
          sl |-> [r \in RIDS |-> <<>>], sa |-> [r \in RIDS |-> <<>>], sg |-> [r \in RIDS |-> 0], sk |-> [r \in RIDS |-> 0],
          sf |-> [r \in RIDS |-> {}], rr |-> [r \in RIDS |-> 0],
          off |-> {},      \* requests whose poll / scan specific rules were already broken (reported once, not judged further)
          chk |-> {}, tk |-> 0, fl |-> {}, bad |-> ""]

Fail(m, sig) == IF m.bad = "" /\ sig \notin Muted THEN [m EXCEPT !.bad = sig] ELSE m
Sig(m, r, what) == "C04:" \o m.kd[r] \o ":" \o what
FlagOf(m, a) == IF \E p \in m.fl : p[1] = a THEN (CHOOSE p \in m.fl : p[1] = a)[2] ELSE 0

(* seen-address flags only grow: every reported change <<addr, before, after>> *)
FlagChanges(m, e) ==
  IF "fl" \notin DOMAIN e THEN m
  ELSE IF \E i \in 1..Len(e.fl) : ~SubFlags(e.fl[i][2], e.fl[i][3]) THEN Fail(m, "C04:seen:flag-cleared")
  ELSE m

PNew(m, e) ==
  LET r == e.rid IN
  IF r \notin RIDS THEN Fail(m, "C04:harness:more-live-requests-than-monitored")
  ELSE LET k == e.req.k
           m0 == IF m.st[r] # "free" THEN Fail(m, "C04:harness:request-name-reused-while-live") ELSE m
           m1 == [m0 EXCEPT !.st[r] = "queued", !.kd[r] = IF k \in {"poll", "scan"} THEN k ELSE "req", !.dl[r] = e.del, !.wt[r] = e.wait, !.rr[r] = 0,
                            !.off = @ \ {r}]
       IN IF k = "poll" THEN
            LET t == TplOf(e.req.msg)  d == DstOf(e.req.msg) IN
            IF NParts(t) = 0 \/ e.req.master # Tel(t, 0, d) THEN Fail(m1, "C04:poll:first-telegram-is-not-part-0")
            ELSE [m1 EXCEPT !.pm[r] = e.req.msg, !.pk[r] = 0]
          ELSE IF k = "scan" THEN
            IF e.req.slaves = <<>> \/ e.req.all = <<>> \/ e.req.master # Tel(e.req.all[1], 0, e.req.slaves[1])
            THEN Fail(m1, "C04:scan:first-telegram-is-not-the-first-message-to-the-first-address")
            ELSE [m1 EXCEPT !.sl[r] = e.req.slaves, !.sa[r] = e.req.all, !.sg[r] = 1, !.sk[r] = 0, !.sf[r] = {}]
          ELSE m1

(* a poll request: parts 0..n-1 in order, each answer stored exactly once where it belongs, restart while parts remain *)
PollNtf(m, e) ==
  LET r == e.rid  t == TplOf(m.pm[r])  d == DstOf(m.pm[r])  k == m.pk[r]  n == NParts(t) IN
  IF e.res = OK THEN
    IF Len(e.st) = 0 THEN Fail(m, "C04:poll:answer-not-stored")
    ELSE IF ~(Len(e.st) = 1 /\ e.st[1][1] = m.pm[r] /\ e.st[1][2] = k /\ e.st[1][3] = e.slave /\ e.st[1][4] = 1)
      THEN Fail(m, "C04:poll:answer-stored-in-the-wrong-place")
    ELSE IF k + 1 < n THEN
      IF e.restart # 1 THEN Fail(m, "C04:poll:chain-abandoned-with-parts-remaining")
      ELSE IF e.post.master # Tel(t, k + 1, d) THEN Fail(m, "C04:poll:parts-out-of-order")
      ELSE [m EXCEPT !.pk[r] = k + 1]
    ELSE IF e.restart # 0 THEN Fail(m, "C04:poll:restarted-after-the-last-part") ELSE m
  ELSE
    IF Len(e.st) # 0 THEN Fail(m, "C04:poll:data-stored-for-a-failed-request")
    ELSE IF e.restart = 1 THEN   \* a retry policy is not prescribed, but the telegram must be a part of this message
      LET ks == {j \in 0..(n - 1) : e.post.master = Tel(t, j, d)} IN
      IF ks = {} THEN Fail(m, "C04:poll:restart-with-a-foreign-telegram") ELSE [m EXCEPT !.pk[r] = CHOOSE j \in ks : TRUE]
    ELSE m

(* a scan request: addresses in list order, per address the messages in list order, every address left exactly once *)
ScanLeave(m, e, state) ==
  LET r == e.rid  a == m.sl[r][1]  rest == Tail(m.sl[r])
      m1 == [m EXCEPT !.sf[r] = @ \cup {<<a, state>>}, !.sl[r] = rest, !.chk = IF state = "done" THEN @ \cup {a} ELSE @] IN
  IF \E p \in m.sf[r] : p[1] = a THEN Fail(m, "C04:scan:address-got-a-second-final-state")
  ELSE IF e.restart = 1 THEN
    IF rest = <<>> \/ e.post.master # Tel(m.sa[r][1], 0, rest[1]) THEN Fail(m1, "C04:scan:next-address-out-of-order")
    ELSE [m1 EXCEPT !.sg[r] = 1, !.sk[r] = 0]
  ELSE IF rest # <<>> /\ e.res # ERRNOSIGNAL THEN Fail(m1, "C04:scan:finished-with-unscanned-addresses")
  ELSE m1

ScanNtf(m, e) ==
  LET r == e.rid  a == e.pre.master[2]  all == m.sa[r]  g == m.sg[r]  k == m.sk[r]
      n == NParts(all[g]) IN
  IF m.sl[r] = <<>> \/ a # m.sl[r][1] THEN Fail(m, "C04:scan:telegram-to-an-unexpected-address")
  ELSE IF e.restart = 0 /\ e.run[2] # e.run[1] - 1 THEN Fail(m, "C04:scan:finished-scan-not-uncounted-exactly-once")
  ELSE IF e.restart = 1 /\ e.run[2] # e.run[1] THEN Fail(m, "C04:scan:running-count-changed-before-the-end")
  ELSE IF \E i \in 1..Len(e.sr) : e.sr[i][1] # a THEN Fail(m, "C04:scan:result-recorded-for-another-address")
  ELSE IF e.res = OK THEN
    IF k + 1 < n THEN
      IF e.restart # 1 \/ e.post.master # Tel(all[g], k + 1, a) THEN Fail(m, "C04:scan:chained-scan-message-abandoned")
      ELSE [m EXCEPT !.sk[r] = k + 1]
    ELSE IF g < Len(all) THEN
      IF e.restart # 1 \/ e.post.master # Tel(all[g + 1], 0, a) THEN Fail(m, "C04:scan:remaining-scan-messages-skipped")
      ELSE [m EXCEPT !.sg[r] = g + 1, !.sk[r] = 0, !.chk = @ \cup {a}]
    ELSE ScanLeave(m, e, "done")
  ELSE
    IF \E i \in 1..Len(e.sr) : Len(e.sr[i][5]) > 0 THEN Fail(m, "C04:scan:result-recorded-for-a-failed-telegram")
    ELSE IF e.restart = 1 /\ e.post.master[2] = a THEN   \* staying at the address after an error: only forward in its message list
      LET gs == {j \in g..Len(all) : \E kk \in 0..(NParts(all[j]) - 1) : e.post.master = Tel(all[j], kk, a)} IN
      IF gs = {} THEN Fail(m, "C04:scan:address-restarted-after-an-error")
      ELSE LET j == CHOOSE x \in gs : TRUE IN [m EXCEPT !.sg[r] = j, !.sk[r] = CHOOSE kk \in 0..(NParts(all[j]) - 1) : e.post.master = Tel(all[j], kk, a)]
    ELSE ScanLeave(m, e, "error")

PNtf(m, e) ==
  LET r == e.rid IN
  IF r \notin RIDS THEN Fail(m, "C04:req:notify-on-unknown-request")
  ELSE IF m.st[r] # "queued" THEN Fail(m, Sig(m, r, IF m.st[r] = "free" THEN "notified-after-delete" ELSE "notified-after-the-final-notify"))
  ELSE LET m1 == [m EXCEPT !.st[r] = IF e.restart = 1 THEN "queued" ELSE "final",
                           !.rr[r] = IF e.pre.k = "scan" THEN e.post.res ELSE e.res]
           m2 == IF r \in m.off \/ e.pre.k # m.kd[r] THEN m1
                 ELSE IF m.kd[r] = "poll" THEN PollNtf(m1, e) ELSE IF m.kd[r] = "scan" THEN ScanNtf(m1, e) ELSE m1 IN
       FlagChanges(IF m2.bad # m1.bad THEN [m2 EXCEPT !.off = @ \cup {r}] ELSE m2, e)

PDel(m, e) ==
  LET r == e.rid IN
  IF r \notin RIDS THEN m
  ELSE IF m.st[r] = "final" /\ m.dl[r] = 1 /\ m.wt[r] = 1 THEN   \* the handler deleted what a client is waiting for: it is never released
    Fail([m EXCEPT !.st[r] = "free", !.off = @ \ {r}], Sig(m, r, "waited-request-deleted-by-the-handler"))
  ELSE IF (m.st[r] = "final" /\ m.dl[r] = 1) \/ m.st[r] \in {"taken", "rejected"}
    THEN [m EXCEPT !.st[r] = "free", !.kd[r] = "req", !.dl[r] = 0, !.wt[r] = 0, !.pm[r] = 0, !.pk[r] = 0, !.sl[r] = <<>>, !.sa[r] = <<>>,
                   !.sg[r] = 0, !.sk[r] = 0, !.sf[r] = {}, !.rr[r] = IF m.tk = r THEN @ ELSE 0, !.off = @ \ {r}]   \* canonical: nothing is remembered of a gone request
  ELSE Fail([m EXCEPT !.st[r] = "free", !.kd[r] = "req", !.dl[r] = 0, !.wt[r] = 0, !.pm[r] = 0, !.pk[r] = 0, !.sl[r] = <<>>, !.sa[r] = <<>>,
                     !.sg[r] = 0, !.sk[r] = 0, !.sf[r] = {}, !.rr[r] = 0, !.off = @ \ {r}],
            Sig(m, r, CASE m.st[r] = "queued" -> "deleted-while-pending"
                        [] m.st[r] = "final" -> "deleted-before-the-waiter-took-it"
                        [] OTHER -> "deleted-twice"))
PFin(m, e) ==
  LET r == e.rid IN
  IF r \notin RIDS THEN m
  ELSE IF m.st[r] = "final" /\ m.wt[r] = 1 THEN [m EXCEPT !.st[r] = "taken", !.tk = r]
  ELSE Fail(m, Sig(m, r, "waiter-released-without-completion"))

(* the grab table counts each reported telegram exactly once and keeps its last data *)
PMsg(m, e) ==
  LET m1 == FlagChanges(m, e) IN
  IF e.grabon = 0 THEN IF Len(e.grab) # 0 THEN Fail(m1, "C04:grab:table-changed-while-disabled") ELSE m1
  ELSE IF ~(Len(e.grab) = 1 /\ e.grab[1][2] = 1 /\ e.gtotal = 1) THEN Fail(m1, "C04:grab:telegram-not-counted-exactly-once")
  ELSE IF e.grab[1][3] # e.m \/ e.grab[1][4] # e.s THEN Fail(m1, "C04:grab:last-data-not-kept")
  ELSE m1

(* a client waiting in scanAndWait is released with the result of its own request *)
PSwRet(m, e) ==
  LET m1 == FlagChanges(m, e) IN
  IF m.tk = 0 THEN m1
  ELSE IF m.st[m.tk] # "free" THEN Fail(m1, "C04:scan:waited-request-not-deleted-by-its-owner")
  ELSE IF e.res # m.rr[m.tk] THEN Fail(m1, "C04:scan:waiter-got-another-result")
  ELSE [m1 EXCEPT !.tk = 0, !.rr[m.tk] = 0]

(* end of an edge: nothing pending is lost, nothing finished is left behind, counters and flags agree *)
PObs(m, e) ==
  LET inq(r) == SeqHas(e.nextq, r) \/ e.cur = r
      lost == {r \in RIDS : m.st[r] = "queued" /\ ~inq(r)}
      stuck == {r \in RIDS : m.st[r] = "queued" /\ e.step = 1 /\ e.nosignal = 1}
      undel == {r \in RIDS : m.st[r] = "final" /\ m.dl[r] = 1}
      orphan == {r \in RIDS : m.st[r] = "final" /\ m.dl[r] = 0 /\ m.wt[r] = 0}
      gone == {r \in RIDS : m.st[r] = "final" /\ m.dl[r] = 0 /\ m.wt[r] = 1 /\ ~SeqHas(e.finq, r)}
      zombie == {r \in RIDS : m.st[r] \in {"free", "final", "taken"} /\ inq(r)}
      pendingScans == Cardinality({r \in RIDS : m.st[r] = "queued" /\ m.kd[r] = "scan"})
      flagOf(a) == IF \E i \in 1..Len(e.flags) : e.flags[i][1] = a THEN e.flags[CHOOSE i \in 1..Len(e.flags) : e.flags[i][1] = a][2] ELSE 0
      resOf(a) == IF \E i \in 1..Len(e.results) : e.results[i][1] = a THEN e.results[CHOOSE i \in 1..Len(e.results) : e.results[i][1] = a][2] ELSE 0
      m1 == [m EXCEPT !.chk = {}, !.fl = {<<e.flags[i][1], e.flags[i][2]>> : i \in 1..Len(e.flags)}] IN
  IF lost # {} THEN Fail(m1, Sig(m, CHOOSE r \in lost : TRUE, "pending-request-not-queued"))
  ELSE IF SeqHas(e.nextq, -2) \/ e.cur = -2 \/ SeqHas(e.finq, -2) THEN Fail(m1, "C04:req:deleted-request-still-queued")
  ELSE IF zombie # {} THEN Fail(m1, Sig(m, CHOOSE r \in zombie : TRUE, "completed-request-still-queued"))
  ELSE IF undel # {} THEN Fail(m1, Sig(m, CHOOSE r \in undel : TRUE, "not-deleted-after-the-final-notify"))
  ELSE IF orphan # {} THEN Fail(m1, Sig(m, CHOOSE r \in orphan : TRUE, "finished-request-without-owner"))
  ELSE IF gone # {} THEN Fail(m1, Sig(m, CHOOSE r \in gone : TRUE, "finished-request-lost"))
  ELSE IF stuck # {} THEN Fail(m1, Sig(m, CHOOSE r \in stuck : TRUE, "pending-after-signal-loss"))
  ELSE IF e.running # pendingScans THEN Fail(m1, "C04:scan:running-count-differs-from-pending-scans")
  ELSE IF \E p \in m.fl : ~SubFlags(p[2], flagOf(p[1])) THEN Fail(m1, "C04:seen:flag-cleared")
  ELSE IF \E a \in m.chk : ~HasBit(flagOf(a), SCANDONE) \/ ~HasBit(flagOf(a), SCANINIT) \/ resOf(a) = 0
    THEN Fail(m1, "C04:scan:answered-address-without-result")
  ELSE m1

PEv(m, e) ==
  CASE e.e = "new" -> PNew(m, e)
    [] e.e = "rejected" -> IF e.rid \in RIDS THEN [m EXCEPT !.st[e.rid] = "rejected"] ELSE m
    [] e.e = "ntf" -> PNtf(m, e)
    [] e.e = "del" -> PDel(m, e)
    [] e.e = "fin" -> PFin(m, e)
    [] e.e = "msg" -> PMsg(m, e)
    [] e.e = "swret" -> PSwRet(m, e)
    [] e.e = "obs" -> PObs(m, e)
    [] e.e = "bad" -> Fail(m, "C04:req:" \o e.what)
    [] e.e \in {"seen", "scancall"} -> FlagChanges(m, e)
    [] OTHER -> m

RECURSIVE PFold(_, _, _)
PFold(m, evs, k) == IF k > Len(evs) THEN m ELSE PFold(PEv(m, evs[k]), evs, k + 1)

(***************************************************************************)
(* Part 3: S.                                                              *)
(* Data of the scripted slaves (what is on the wire is the environment's).  *)
(***************************************************************************)
Answer(t, k, alt) == CASE t = 1 -> <<1, IF alt THEN 34 ELSE 17>>
                       [] t = 2 -> IF k = 0 THEN <<1, 51>> ELSE <<1, 68>>
                       [] t = 3 -> <<10, 181, 66, 65, 73, 48, 48, 2, 4, 150, 2>>
                       [] t = 4 -> <<1, 85>>
                       [] OTHER -> <<0>>
(* decoded texts are abstracted to their lengths: identification 25 characters, additional message 3 *)
TextLen(t) == IF t = 3 THEN 25 ELSE 3

(* ---- PollRequest::notify: [restart, idx (after), store] from (message, idx, result) *)
SPollNotify(mid, idx, res) ==
  IF res = OK /\ idx + 1 < NParts(TplOf(mid))
  THEN [restart |-> 1, idx |-> idx + 1, master |-> Tel(TplOf(mid), idx + 1, DstOf(mid)), store |-> TRUE]
  ELSE [restart |-> 0, idx |-> idx, master |-> Tel(TplOf(mid), idx, DstOf(mid)), store |-> res = OK]

(* ---- ScanRequest::notify on the request record rq = [slaves, all, left, msg, idx, nidx, res, master]; run = m_runningScans *)
(* returns the request afterwards, the restart decision, the counter, and what setScanResult recorded                        *)
SScanNotify(rq, res, run) ==
  LET a == rq.master[2]
      t == TplOf(rq.msg)
      msg1 == IF res = OK /\ DstOf(rq.msg) = ANY THEN Mid(t, a) ELSE rq.msg           \* derived / per-address message on success
      more == res = OK /\ rq.idx + 1 < NParts(t)
      res1 == res                                                                     \* storeLastData / decodeLastData succeed on these data
      text == IF res = OK /\ ~more THEN <<rq.nidx + rq.idx, TextLen(t)>> ELSE <<>>  \* setScanResult(a, nidx + idx, text)
      pop == res1 < OK \/ rq.left = <<>>
      slaves1 == IF pop /\ rq.slaves # <<>> THEN Tail(rq.slaves) ELSE rq.slaves
      left1 == IF res1 < OK THEN <<>> ELSE rq.left
      fin == slaves1 = <<>> \/ res1 = ERRNOSIGNAL
      left2 == IF left1 = <<>> THEN rq.all ELSE left1 IN
  \* prepare() assigns its own result to m_result: after every restart the request's result is OK again
  IF more THEN [rq |-> [rq EXCEPT !.msg = msg1, !.idx = @ + 1, !.master = Tel(t, rq.idx + 1, a), !.res = OK], restart |-> 1, run |-> run, text |-> <<>>, init |-> a]
  ELSE IF fin THEN [rq |-> [rq EXCEPT !.msg = msg1, !.slaves = slaves1, !.left = left1, !.res = res1], restart |-> 0,
                    run |-> IF run > 0 THEN run - 1 ELSE 0, text |-> text, init |-> a]
  ELSE [rq |-> [rq EXCEPT !.msg = Mid(left2[1], ANY), !.idx = 0, !.slaves = slaves1, !.left = Tail(left2), !.res = OK,
                          !.master = Tel(left2[1], 0, slaves1[1])],
        restart |-> 1, run |-> run, text |-> text, init |-> a]

(* ---- poll scheduling in notifyProtocolStatus(ps_empty).  pq = <<message, poll order, age of last update>>,..; ages: -1 never, 0..2 *)
(* interval = 1 s.  Returns the set of admissible outcomes <<created message or 0, age of m_lastPoll afterwards>>: the choice  *)
(* among messages of equal poll order is MessageMap's (property C17).                                                              *)
SPollSchedule(lastpoll, pq) ==
  IF ~(lastpoll = -1 \/ lastpoll > 1) THEN {<<0, lastpoll>>}
  ELSE IF pq = <<>> THEN {<<0, lastpoll>>}
  ELSE LET lo == CHOOSE x \in {pq[i][2] : i \in 1..Len(pq)} : \A i \in 1..Len(pq) : x <= pq[i][2] IN
       {<<IF pq[i][3] = -1 \/ pq[i][3] > 1 THEN pq[i][1] ELSE 0, 0>> : i \in {j \in 1..Len(pq) : pq[j][2] = lo}}

(* ---- prepareScan for startScan(full = false): the slaves that were seen themselves or whose master was seen, ascending *)
SScanSlaves(flagOf(_)) ==
  LET cand == {a \in 1..255 : a \notin {169, 170} /\ ~IsMasterAddr(a) /\
                 (HasBit(flagOf(a), SEEN) \/ (MasterOfSlave(a) # ANY /\ HasBit(flagOf(MasterOfSlave(a)), SEEN)))}
      RECURSIVE Asc(_)
      Asc(S) == IF S = {} THEN <<>> ELSE LET x == CHOOSE y \in S : \A z \in S : y <= z IN <<x>> \o Asc(S \ {x}) IN
  Asc(cand)

(***************************************************************************)
(* S as a state machine (explored by MC_BusHandler).  Constants:            *)
(*   SLAVES     the slave addresses seen before the first step (scan list)   *)
(*   POLLS      the pollable messages                                        *)
(*   HASX       an additional scan message is defined                        *)
(*   BUSLOST    retries after a lost arbitration                             *)
(*   FIXED      TRUE: startScan creates a self-deleting request (repaired);  *)
(*              FALSE: as the pinned code does (see SStartScan)              *)
(*   MUT        a seeded design error (vacuity guard of P), "" = none        *)
(***************************************************************************)
CONSTANTS SLAVES, POLLS, HASX, BUSLOST, FIXED, MUT, WAITADDR

NoReq == [k |-> "none"]
SInit == [q |-> <<>>, fq |-> <<>>, req |-> [r \in RIDS |-> NoReq], sig |-> FALSE,
          lastpoll |-> -1, rot |-> POLLS,                       \* poll queue abstracted to round robin (equal priorities)
          upd |-> [p \in {POLLS[i] : i \in 1..Len(POLLS)} |-> -1],
          run |-> 0, flags |-> [a \in {SLAVES[i] : i \in 1..Len(SLAVES)} |-> SEEN],
          results |-> [a \in {SLAVES[i] : i \in 1..Len(SLAVES)} |-> <<>>],
          known |-> {},                                         \* addresses whose identification was stored (getLastChangeTime # 0)
          waiter |-> 0]
FreeRid(s) == CHOOSE r \in RIDS : s.req[r].k = "none" /\ \A x \in RIDS : s.req[x].k = "none" => r <= x
SFlag(s, a) == IF a \in DOMAIN s.flags THEN s.flags[a] ELSE 0
AgeUp(x) == IF x = -1 THEN -1 ELSE IF x >= 2 THEN 2 ELSE x + 1
Tick(s) == [s EXCEPT !.lastpoll = AgeUp(@), !.upd = [p \in DOMAIN @ |-> AgeUp(@[p])]]

ReqJson(rq) == IF rq.k = "poll" THEN [k |-> "poll", msg |-> rq.msg, idx |-> rq.idx, master |-> rq.master]
               ELSE [k |-> "scan", slaves |-> rq.slaves, all |-> rq.all, left |-> rq.left, msg |-> rq.msg, idx |-> rq.idx,
                     nidx |-> rq.nidx, res |-> rq.res, master |-> rq.master]
NewEv(r, rq) == [e |-> "new", rid |-> r, del |-> rq.del, wait |-> rq.wait, req |-> ReqJson(rq)]
ObsEv(s, step) == [e |-> "obs", nextq |-> s.q, finq |-> s.fq, cur |-> 0, step |-> IF step THEN 1 ELSE 0,
                   flags |-> LET D == DOMAIN s.flags
                                 RECURSIVE L(_)
                                 L(S) == IF S = {} THEN <<>> ELSE LET x == CHOOSE y \in S : TRUE IN <<<<x, s.flags[x]>>>> \o L(S \ {x}) IN L(D),
                   results |-> LET D == {a \in DOMAIN s.results : s.results[a] # <<>>}
                                   RECURSIVE L(_)
                                   RECURSIVE Sum(_)
                                   Sum(sq) == IF sq = <<>> THEN 0 ELSE Head(sq) + Sum(Tail(sq))
                                   L(S) == IF S = {} THEN <<>> ELSE LET x == CHOOSE y \in S : TRUE IN <<<<x, Sum(s.results[x])>>>> \o L(S \ {x}) IN L(D),
                   running |-> s.run, nosignal |-> IF s.sig THEN 0 ELSE 1]

(* setScanResult(a, index, text): texts are kept as lengths; 0 = empty slot *)
SetResult(res, a, idx, len) ==
  LET old == res[a]
      n == IF idx + 1 > Len(old) THEN idx + 1 ELSE Len(old) IN
  [res EXCEPT ![a] = [i \in 1..n |-> IF i = idx + 1 THEN len ELSE IF i <= Len(old) THEN old[i] ELSE 0]]

(* ---- formatScanResult(slave, ..): nothing for an address without an entry; else the address (two hex digits) and all its texts *)
RECURSIVE SumSeq(_)
SumSeq(sq) == IF sq = <<>> THEN 0 ELSE Head(sq) + SumSeq(Tail(sq))
SFormatScanResult(hasEntry, lens) == IF hasEntry THEN [have |-> 1, len |-> 2 + SumSeq(lens)] ELSE [have |-> 0, len |-> 0]

(* ---- GrabbedMessage::setLastData: the entry of the telegram's key keeps the last data and counts one more *)
SGrab(entry, master, slave) == [cnt |-> entry.cnt + 1, m |-> master, s |-> slave]

(* ---- notifyProtocolMessage for a telegram ebusd sent itself (md_send): identification bookkeeping + grab table *)
SMsg(s, master, slave) ==
  LET a == master[2]
      ident == master[3] = 7 /\ master[4] = 4 /\ a \in DOMAIN s.flags
      first == ident /\ a \notin s.known
      s1 == IF first THEN [s EXCEPT !.flags[a] = OrBit(OrBit(@, SCANINIT), SCANDONE), !.results = SetResult(@, a, 0, TextLen(3)), !.known = @ \cup {a}] ELSE s
      polled == {p \in DOMAIN s.upd : \E k \in 0..(NParts(TplOf(p)) - 1) : master = Tel(TplOf(p), k, DstOf(p))}
      s2 == [s1 EXCEPT !.upd = [p \in DOMAIN @ |-> IF p \in polled /\ NParts(TplOf(p)) = 1 THEN 0 ELSE @[p]]]
      grabDelta == IF MUT = "grab-twice" THEN 2 ELSE 1 IN
  [s |-> s2,
   evs |-> << [e |-> "msg", dir |-> 1, m |-> master, s |-> slave, grabon |-> 1, grab |-> << <<0, grabDelta, master, slave>> >>, gtotal |-> grabDelta,
               fl |-> IF first THEN << <<a, SFlag(s, a), SFlag(s1, a)>> >> ELSE <<>>] >>]

(* ---- BusRequest::notify of request r with result res (the handler calls it; what follows is the handler's part: *)
(* re-queue on restart, delete a self-deleting request, otherwise park it in the finished queue)                     *)
SNotify(s, r, res, slave, drain) ==
  LET rq == s.req[r] IN
  IF rq.k = "poll" THEN
    LET o == SPollNotify(rq.msg, rq.idx, res)
        restart == IF MUT = "poll-no-restart" THEN 0 ELSE IF MUT = "poll-restart-last" /\ res = OK THEN 1 ELSE o.restart
        idx1 == IF MUT = "poll-skip-part" /\ o.restart = 1 THEN rq.idx ELSE o.idx
        rq1 == [rq EXCEPT !.idx = idx1, !.master = Tel(TplOf(rq.msg), idx1, DstOf(rq.msg)), !.retries = 0]
        sUpd == IF res = OK /\ (rq.idx + 1 = NParts(TplOf(rq.msg))) THEN [s EXCEPT !.upd[rq.msg] = 0] ELSE s
        ev1 == [e |-> "ntf", rid |-> r, res |-> res, slave |-> slave, restart |-> restart, pre |-> ReqJson(rq), post |-> ReqJson(rq1),
                st |-> IF o.store /\ MUT # "poll-no-store" THEN << <<rq.msg, rq.idx, slave, 1>> >> ELSE <<>>, fl |-> <<>>, sr |-> <<>>, run |-> <<s.run, s.run>>] IN
    IF restart = 1 /\ ~drain THEN [s |-> [sUpd EXCEPT !.req[r] = rq1, !.q = Append(@, r)], evs |-> <<ev1>>]
    ELSE IF MUT = "poll-leak" THEN [s |-> [sUpd EXCEPT !.req[r] = rq1, !.fq = Append(@, r)], evs |-> <<ev1>>]
    ELSE [s |-> [sUpd EXCEPT !.req[r] = NoReq], evs |-> <<ev1, [e |-> "del", rid |-> r]>>]
  ELSE
    LET a == rq.master[2]
        o == SScanNotify(rq, res, s.run)
        run1 == IF MUT = "scan-finish-twice" /\ o.restart = 0 /\ s.run > 1 THEN s.run - 2 ELSE IF MUT = "scan-never-finished" THEN s.run ELSE o.run
        flagsI == [s.flags EXCEPT ![a] = OrBit(@, SCANINIT)]
        flags1 == IF o.text # <<>> THEN [flagsI EXCEPT ![a] = OrBit(@, SCANDONE)] ELSE flagsI
        results1 == IF o.text # <<>> THEN SetResult(s.results, a, o.text[1], o.text[2]) ELSE s.results
        rq1 == [o.rq EXCEPT !.retries = 0]
        restart == IF MUT = "scan-no-restart" THEN 0 ELSE o.restart
        ev1 == [e |-> "ntf", rid |-> r, res |-> res, slave |-> slave, restart |-> restart, pre |-> ReqJson(rq), post |-> ReqJson(rq1),
                st |-> <<>>, fl |-> IF flags1[a] # s.flags[a] THEN << <<a, s.flags[a], flags1[a]>> >> ELSE <<>>,
                sr |-> IF results1[a] # s.results[a] THEN << <<a, s.results[a], results1[a], IF o.text # <<>> THEN o.text[1] ELSE 0,
                                                               [i \in 1..(IF o.text # <<>> THEN o.text[2] ELSE 0) |-> 0]>> >> ELSE <<>>,
                run |-> <<s.run, run1>>]
        s1 == [s EXCEPT !.run = run1, !.flags = flags1, !.results = results1, !.req[r] = rq1] IN
    IF restart = 1 /\ ~drain THEN [s |-> [s1 EXCEPT !.q = Append(@, r)], evs |-> <<ev1>>]
    ELSE IF rq.del = 1 THEN [s |-> [s1 EXCEPT !.req[r] = NoReq], evs |-> <<ev1, [e |-> "del", rid |-> r]>>]
    ELSE [s |-> [s1 EXCEPT !.fq = Append(@, r)], evs |-> <<ev1>>]

(* drain on signal loss: every queued request is notified with ERR_NO_SIGNAL (the return value is ignored) *)
RECURSIVE SDrain(_, _)
SDrain(s, evs) ==
  IF s.q = <<>> THEN [s |-> s, evs |-> evs]
  ELSE LET r == Head(s.q)
           o == SNotify([s EXCEPT !.q = Tail(@)], r, ERRNOSIGNAL, <<>>, TRUE) IN
       SDrain(o.s, evs \o o.evs)

(* the waiting client (scanAndWait) takes its request from the finished queue, reads the result and deletes the request *)
SWaiter(s, evs) ==
  IF s.waiter # 0 /\ SeqHas(s.fq, s.waiter) THEN
    LET r == s.waiter IN
    [s |-> [s EXCEPT !.fq = SelectSeq(@, LAMBDA x : x # r), !.req[r] = NoReq, !.waiter = 0],
     evs |-> evs \o <<[e |-> "fin", rid |-> r], [e |-> "del", rid |-> r], [e |-> "swret", a |-> WAITADDR, res |-> s.req[r].res]>>]
  ELSE [s |-> s, evs |-> evs]

(* ---- notifyProtocolStatus(ps_empty): create the next poll request *)
SPsEmpty(s) ==
  IF s.rot = <<>> \/ ~(s.lastpoll = -1 \/ s.lastpoll > 1) THEN [s |-> s, evs |-> <<>>]
  ELSE LET p == Head(s.rot)
           s1 == [s EXCEPT !.rot = Append(Tail(@), p), !.lastpoll = 0] IN
       IF ~(s.upd[p] = -1 \/ s.upd[p] > 1) THEN [s |-> s1, evs |-> <<>>]
       ELSE LET r == FreeRid(s)
                rq == [k |-> "poll", del |-> 1, wait |-> 0, msg |-> p, idx |-> 0, master |-> Tel(TplOf(p), 0, DstOf(p)), retries |-> 0] IN
            [s |-> [s1 EXCEPT !.req[r] = rq, !.q = Append(@, r)], evs |-> <<NewEv(r, rq)>>]

(* ---- one bus cycle.  out: "ok" "ok1" the addressed slave answers; "err" time-out / NAK / CRC error; "lost" arbitration lost; *)
(* "loss" the signal disappears; "idle" nobody sends                                                                              *)
SCycle(s0, out) ==
  LET s == Tick(s0) IN
  IF ~s.sig THEN
    IF out = "loss" THEN LET d == SDrain(s, <<>>) w == SWaiter(d.s, d.evs) IN [s |-> w.s, evs |-> Append(w.evs, ObsEv(w.s, TRUE))]
    ELSE [s |-> [s EXCEPT !.sig = TRUE], evs |-> <<ObsEv([s EXCEPT !.sig = TRUE], TRUE)>>]
  ELSE
    LET pe == IF s.q = <<>> THEN SPsEmpty(s) ELSE [s |-> s, evs |-> <<>>]
        s1 == pe.s IN
    IF s1.q = <<>> \/ out = "idle" THEN
      IF out = "loss" THEN [s |-> [s1 EXCEPT !.sig = FALSE], evs |-> Append(pe.evs, ObsEv([s1 EXCEPT !.sig = FALSE], TRUE))]
      ELSE [s |-> s1, evs |-> Append(pe.evs, ObsEv(s1, TRUE))]
    ELSE
      LET r == Head(s1.q)
          rq == s1.req[r]
          s2 == [s1 EXCEPT !.q = Tail(@)] IN
      IF out = "lost" /\ rq.retries < BUSLOST THEN
        LET s3 == [s2 EXCEPT !.req[r].retries = @ + 1, !.q = Append(@, r)] IN [s |-> s3, evs |-> Append(pe.evs, ObsEv(s3, TRUE))]
      ELSE IF out \in {"ok", "ok1"} THEN
        LET t == TplOf(rq.msg)
            slave == Answer(t, rq.idx, out = "ok1")
            mo == SMsg(s2, rq.master, slave)
            no == SNotify(Tick(mo.s), r, OK, slave, FALSE)
            w == SWaiter(no.s, pe.evs \o mo.evs \o no.evs) IN
        [s |-> w.s, evs |-> Append(w.evs, ObsEv(w.s, TRUE))]
      ELSE IF out = "loss" THEN
        LET no == SNotify(s2, r, ERRTIMEOUT, <<>>, FALSE)     \* setState(bs_noSignal, ..): the current request first (a restart is honoured),
            d == SDrain(no.s, pe.evs \o no.evs)               \* then everything queued - including that restart - gets ERR_NO_SIGNAL
            w == SWaiter([d.s EXCEPT !.sig = FALSE], d.evs) IN
        [s |-> w.s, evs |-> Append(w.evs, ObsEv(w.s, TRUE))]
      ELSE
        LET no == SNotify(s2, r, IF out = "lost" THEN ERRBUSLOST ELSE ERRTIMEOUT, <<>>, FALSE)
            w == SWaiter(no.s, pe.evs \o no.evs) IN
        [s |-> w.s, evs |-> Append(w.evs, ObsEv(w.s, TRUE))]

(* ---- startScan(false, "*") / prepareScan(SYN, ...).  In the pinned code the loop over all slave addresses reuses the *)
(* parameter `slave`, which is 0 afterwards, so `slave == SYN` is false when the request is constructed: the request of  *)
(* a full scan is NOT self-deleting although nobody waits for it (FIXED = FALSE models that)                             *)
SStartScan(s) ==
  IF s.run > 0 THEN [s |-> s, evs |-> <<[e |-> "scancall", res |-> ERRDUP, fl |-> <<>>], ObsEv(s, FALSE)>>]
  ELSE LET slaves == SScanSlaves(LAMBDA a : SFlag(s, a))
           all == IF HASX THEN <<3, 4>> ELSE <<3>> IN
       IF slaves = <<>> THEN [s |-> s, evs |-> <<[e |-> "scancall", res |-> EMPTY, fl |-> <<>>], ObsEv(s, FALSE)>>]
       ELSE LET r == FreeRid(s)
                rq == [k |-> "scan", del |-> IF FIXED THEN 1 ELSE 0, wait |-> 0, slaves |-> slaves, all |-> all, left |-> Tail(all),
                       msg |-> Mid(all[1], ANY), idx |-> 0, nidx |-> 0, res |-> OK, master |-> Tel(all[1], 0, slaves[1]), retries |-> 0]
                s1 == [s EXCEPT !.results = [a \in DOMAIN @ |-> <<>>], !.run = @ + 1, !.req[r] = rq, !.q = Append(@, r)] IN
            [s |-> s1, evs |-> <<NewEv(r, rq), [e |-> "scancall", res |-> OK, fl |-> <<>>], ObsEv(s1, FALSE)>>]

(* ---- scanAndWait(a, loadScanConfig = false, reload = false) up to the point where the client blocks *)
SScanAndWait(s, a) ==
  LET reload == a \notin s.known
      all == (IF reload THEN <<3>> ELSE <<>>) \o (IF HASX THEN <<4>> ELSE <<>>) IN
  IF all = <<>> THEN [s |-> s, evs |-> <<[e |-> "swret", a |-> a, res |-> OK], ObsEv(s, FALSE)>>]
  ELSE LET r == FreeRid(s)
           rq == [k |-> "scan", del |-> 0, wait |-> 1, slaves |-> <<a>>, all |-> all, left |-> Tail(all), msg |-> Mid(all[1], ANY), idx |-> 0,
                  nidx |-> IF reload THEN 0 ELSE 1, res |-> OK, master |-> Tel(all[1], 0, a), retries |-> 0]
           res1 == IF reload THEN [s.results EXCEPT ![a] = <<>>] ELSE [s.results EXCEPT ![a] = IF Len(@) > 1 THEN SubSeq(@, 1, 1) ELSE @]
           s1 == [s EXCEPT !.results = res1, !.run = @ + 1, !.req[r] = rq, !.q = Append(@, r), !.waiter = r] IN
       [s |-> s1, evs |-> <<NewEv(r, rq), ObsEv(s1, FALSE)>>]
=============================================================================
