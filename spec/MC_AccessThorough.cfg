CONSTANTS
  StarMode = "token"
  McTier = "thorough"
INIT McInit
NEXT McNext
INVARIANT SImpliesP
INVARIANT SUserTracked
