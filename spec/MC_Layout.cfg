\* S (pinned tree) => P, all sequence lengths; disagreements are reported with -continue
CONSTANT SGuardAfter = FALSE
INIT MCInit
NEXT MCNext
INVARIANT MCConforms
