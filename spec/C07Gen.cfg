INIT Init
NEXT Next
