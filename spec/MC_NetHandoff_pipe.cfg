CONSTANTS Variant = "pipe" Bug = "none"
SPECIFICATION FairSpec
INVARIANT McOk
INVARIANT McNoDangle
PROPERTY McLive
