CONSTANT Mode = "pinned"
CONSTANT MaxDepth = 3
INIT McInit
NEXT McNext
INVARIANT McOk
INVARIANT McCacheTracked
