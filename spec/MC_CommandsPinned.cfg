CONSTANT Mode = "pinned"
INIT McInit
NEXT McNext
INVARIANT McOk
INVARIANT McCacheTracked
