------------------------------ MODULE MC_DeviceEnhanced ------------------------------
(* S => P for C14 by pure model checking: the code-shaped model of EnhancedDevice (part S of            *)
(* DeviceEnhanced) is driven by EVERY byte stream up to MaxLen bytes over Alphabet under EVERY            *)
(* chunking (a byte may arrive before or after any recv call) and every interleaving with                 *)
(* startArbitration, the 3 s clock step and reopen; the P monitor EnhMon runs in lock-step on the         *)
(* events S produces.  No code is involved: the result is a statement about the design, it exposes the   *)
(* design-level defects, and it is a vacuity guard for P (S is known to be faithful by C14Fid).           *)
EXTENDS DeviceEnhanced

CONSTANTS Alphabet, MaxLen, Arbs, Distinct   \* Distinct: a plain byte value is never pending twice (unambiguous witnesses)

VARIABLES d, t, cont, mon, nb, lastIn
vars == <<d, t, cont, mon, nb, lastIn>>
View == <<d, t, cont, mon, nb>>

(* two initial states: a new, closed device; and one that was opened and has seen the adapter's answer to INIT *)
Init == /\ cont = FALSE /\ nb = 0
        /\ \/ d = DevNew /\ t = TrNew /\ mon = MonInit /\ lastIn = "NEW"
           \/ /\ d = [DevNew EXCEPT !.rt = 0, !.xf = 1] /\ t = [TrNew EXCEPT !.valid = TRUE]
              /\ mon = [MonInit EXCEPT !.closed = FALSE] /\ lastIn = "SETTLED"

Apply(s, tok) == /\ d' = s.d /\ t' = s.t /\ mon' = MonStep(mon, s.ev) /\ lastIn' = tok

InSeq(x, q) == \E i \in 1..Len(q) : q[i] = x
Arrive(b) == /\ t.valid /\ nb < MaxLen
             /\ ~(Distinct /\ b < 128 /\ (InSeq(b, t.buf) \/ InSeq(b, t.wire)))
             /\ d' = d /\ t' = [t EXCEPT !.wire = Append(@, b)] /\ cont' = cont /\ nb' = nb + 1
             /\ mon' = MonStep(mon, <<<<"arr", b>>>>) /\ lastIn' = <<"A", b>>
Recv  == LET s == EnhRecvF(d, t, IF cont THEN 0 ELSE 10) IN Apply(s, "R") /\ cont' = s.cont /\ nb' = nb
Start(a) == t.valid /\ Apply(EnhStartF(d, t, a), <<"SA", a>>) /\ UNCHANGED <<cont, nb>>
Clock == /\ t.valid /\ d.rt = 0 /\ d' = [d EXCEPT !.rt = 1] /\ lastIn' = "CLK" /\ UNCHANGED <<t, cont, mon, nb>>
Open  == ~t.valid /\ Apply(EnhOpenF(d, t), "OPEN") /\ cont' = FALSE /\ nb' = nb

Next == \/ \E b \in Alphabet : Arrive(b)
        \/ Recv
        \/ \E a \in Arbs : Start(a)
        \/ Clock
        \/ Open

MonOk == mon.bad = "" \/ ~PrintT(<<"VF", "MON", mon.bad>>)
=============================================================================
