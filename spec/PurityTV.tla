------------------------------ MODULE PurityTV ------------------------------
(* Validates the trace recorded by harness/c12_purity.cpp against the memo automaton of Purity. *)
(* The trace is: the result of every operation in a freshly started process, then one event per *)
(* history (the result of its last operation inside a process that executed the prefix), then   *)
(* one event per load permutation.  An event that is not enabled is reported and skipped.       *)
EXTENDS Purity, Json, IOUtils

Fresh == ndJsonDeserialize(IOEnv.VF_FRESH)
Recs == ndJsonDeserialize(IOEnv.VF_RECS)       \* a shard of the history / load records
Events == Fresh \o Recs
AllOps == OpIds \cup {LoadOp(s) : s \in 1..Len(LoadSets)}

VARIABLES pmemo, ppos, pbad
Init == pmemo = [o \in AllOps |-> Unknown] /\ ppos = 0 /\ pbad = FALSE
Next == /\ ppos < Len(Events)
        /\ ppos' = ppos + 1
        /\ LET e == Events[ppos + 1] IN
           IF Enabled(pmemo, e.op, e.res)
           THEN pmemo' = Record(pmemo, e.op, e.res) /\ pbad' = FALSE
           ELSE pmemo' = pmemo /\ pbad' = TRUE
(* A rejected event is reported through the VF line (the invariant itself stays true: TLC would *)
(* otherwise print the whole behaviour - tens of thousands of states - for every rejection).  *)
Accept == ~pbad \/ PrintT(<<"VF", "BAD", ppos - Len(Fresh), Events[ppos].op>>)

(* the fresh-process part seeds the memo with exactly one result per operation *)
ASSUME Len(Fresh) = Len(Ops) /\ \A k \in 1..Len(Fresh) : Fresh[k].op = k /\ Fresh[k].h = <<k>> /\ Fresh[k].src = "fresh"
ASSUME \A k \in 1..Len(Recs) : Recs[k].op \in AllOps /\ (Recs[k].src = "hist" => Recs[k].op = Recs[k].h[Len(Recs[k].h)])
ASSUME PrintT(<<"VF", "SHARD", Len(Recs)>>)
=============================================================================
