CONSTANT SGuardAfter = FALSE
CONSTANT FullLen = 3
CONSTANT OneLen = 4
CONSTANT OneKinds = {1,2,3,4,5,6,7,8,9,10,11,12,13,14,15}
INIT Init
NEXT Next
INVARIANT Judge
