CONSTANT SGuardAfter = FALSE
CONSTANT Tier = "quick"
INIT Init
NEXT Next
INVARIANT Judge
