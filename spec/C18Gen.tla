------------------------------ MODULE C18Gen ------------------------------
(* Emits the C18 cases (spec -> implementation direction): the model file system, the TCP      *)
(* argument lists with all their client encodings, token level URIs, topic templates.          *)
EXTENDS ReqParse, TLC, Json, IOUtils

Thorough == IOEnv.VF_TIER = "thorough"
TokN == 4
TplN == 5

ASSUME LemmaEncodable
ASSUME LemmaEncodeRead({<<>>} \cup {<<x>> : x \in ArgsUpTo(3)} \cup {<<x, y>> : x \in ArgsUpTo(2), y \in ArgsUpTo(2)})
ASSUME LemmaDecodeLiteral /\ LemmaDecodeOnce /\ LemmaLenient
ASSUME LemmaUnambiguous(IF Thorough THEN 5 ELSE 4)
ASSUME FilesInside \cap {f \in FilesInside : \E i \in 1..Len(f) : HasSub(f[i], <<DOT, DOT>>)} = {<< <<46,46,46>>, IndexHtml>>}

FsCases == SetToSeq({[k |-> "fs", w |-> "in", path |-> JoinWith(f, <<SL>>), body |-> MarkIn(f)] : f \in FilesInside}
                    \cup {[k |-> "fs", w |-> "out", path |-> JoinWith(f, <<SL>>), body |-> MarkOut(f)] : f \in FilesOutside})
IdCases == <<[k |-> "ids", triples |-> SetToSeq(Triples)]>>
TcpCases == SetToSeq({[k |-> "tcp", args |-> a, lines |-> SetToSeq(TcpLines(a, Thorough))] : a \in TcpLists(Thorough)})
UriCases == SetToSeq({[k |-> "uri", u |-> u] : u \in TokenUris(TokN, TRUE)})
TokCases == <<[k |-> "tokens", list |-> SetToSeq(UriTokens)]>>     \* for the seeded random longer URIs
TplCases == SetToSeq({[k |-> "tpl", parts |-> t, texts |-> SetToSeq({Render(t, TRUE), Render(t, FALSE)})] : t \in Templates(TplN)})

ASSUME ndJsonSerialize(IOEnv.VF_OUT, FsCases \o IdCases \o TokCases \o TcpCases \o UriCases \o TplCases)
ASSUME PrintT(<<"VF", "GEN", Len(FsCases), Len(TcpCases), Len(UriCases), Len(TplCases)>>)
=============================================================================
