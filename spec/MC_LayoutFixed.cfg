\* S with the proposed fix => P, all sequence lengths, plus the abstraction-map lemma
CONSTANT SGuardAfter = TRUE
INIT MCInit
NEXT MCNext
INVARIANT MCConforms
INVARIANT MCRefinement
