------------------------------ MODULE ScanSelectDomain ------------------------------
(* The enumerated domain of the scan selection check: a grammar of file names, families of small worlds (directory   *)
(* entries x identification x address), names for the file-name reader, MASTER/SLAVE texts.  TLC enumerates it       *)
(* completely (ScanSelectGen emits it as cases, ScanSelectJudge asserts that the records cover it).                   *)
(* The x_... definitions are text literals spelled as character codes (written by the authoring script).             *)
EXTENDS ScanSelect, SequencesExt

x_BAI00 == <<66, 65, 73, 48, 48>>   \* "BAI00"
x_SW0102 == <<83, 87, 48, 49, 48, 50>>   \* "SW0102"
x_SW0103 == <<83, 87, 48, 49, 48, 51>>   \* "SW0103"
x_HW0304 == <<72, 87, 48, 51, 48, 52>>   \* "HW0304"
x_HW0305 == <<72, 87, 48, 51, 48, 53>>   \* "HW0305"
x_bai00 == <<98, 97, 105, 48, 48>>   \* "bai00"
x_bai0 == <<98, 97, 105, 48>>   \* "bai0"
x_bai == <<98, 97, 105>>   \* "bai"
x_ba == <<98, 97>>   \* "ba"
x_bax == <<98, 97, 120>>   \* "bax"
x_bai01 == <<98, 97, 105, 48, 49>>   \* "bai01"
x_bailon == <<98, 97, 105, 108, 111, 110>>   \* "bailon"
x_hc == <<104, 99>>   \* "hc"
x_longcirc == <<108, 111, 110, 103, 99, 105, 114, 99>>   \* "longcirc"
x_3 == <<51>>   \* "3"
x_08 == <<48, 56>>   \* "08"
x_15 == <<49, 53>>   \* "15"
x_vaillant == <<118, 97, 105, 108, 108, 97, 110, 116>>   \* "vaillant"
x_Bai00 == <<66, 97, 105, 48, 48>>   \* "Bai00"
x_BAI01 == <<66, 65, 73, 48, 49>>   \* "BAI01"
x_BA100 == <<66, 65, 49, 48, 48>>   \* "BA100"
x_70000 == <<55, 48, 48, 48, 48>>   \* "70000"
x_B_5fI00 == <<66, 95, 73, 48, 48>>   \* "B_I00"
x_B_20I00 == <<66, 32, 73, 48, 48>>   \* "B I00"
x_B_2eI00 == <<66, 46, 73, 48, 48>>   \* "B.I00"
x__20_20_20_20_20 == <<32, 32, 32, 32, 32>>   \* "     "
x_00000 == <<48, 48, 48, 48, 48>>   \* "00000"
x_BAI0_20 == <<66, 65, 73, 48, 32>>   \* "BAI0 "
x_BA1X0 == <<66, 65, 49, 88, 48>>   \* "BA1X0"
x_0102 == <<48, 49, 48, 50>>   \* "0102"
x_0000 == <<48, 48, 48, 48>>   \* "0000"
x_9999 == <<57, 57, 57, 57>>   \* "9999"
x_0026 == <<48, 48, 50, 54>>   \* "0026"
x_0100 == <<48, 49, 48, 48>>   \* "0100"
x_tem == <<116, 101, 109>>   \* "tem"
x_fh_20ostfalia == <<102, 104, 32, 111, 115, 116, 102, 97, 108, 105, 97>>   \* "fh ostfalia"
x_ebusd_2eeu == <<101, 98, 117, 115, 100, 46, 101, 117>>   \* "ebusd.eu"
x_ebm_2dpapst == <<101, 98, 109, 45, 112, 97, 112, 115, 116>>   \* "ebm-papst"
x_landis_2dstaefa == <<108, 97, 110, 100, 105, 115, 45, 115, 116, 97, 101, 102, 97>>   \* "landis-staefa"
x_153 == <<49, 53, 51>>   \* "153"
x_0 == <<48>>   \* "0"
x_dungs == <<100, 117, 110, 103, 115>>   \* "dungs"
x_254 == <<50, 53, 52>>   \* "254"
x_Vaillant == <<86, 97, 105, 108, 108, 97, 110, 116>>   \* "Vaillant"
x_181 == <<49, 56, 49>>   \* "181"
x_b5 == <<98, 53>>   \* "b5"
x_TEM == <<84, 69, 77>>   \* "TEM"
x_16 == <<49, 54>>   \* "16"
x_10 == <<49, 48>>   \* "10"
x_99 == <<57, 57>>   \* "99"
x_vaillant_2f08_2ebai_2ecsv == <<118, 97, 105, 108, 108, 97, 110, 116, 47, 48, 56, 46, 98, 97, 105, 46, 99, 115, 118>>   \* "vaillant/08.bai.csv"
x_vaillant_2f08_2ebai0_2ecsv == <<118, 97, 105, 108, 108, 97, 110, 116, 47, 48, 56, 46, 98, 97, 105, 48, 46, 99, 115, 118>>   \* "vaillant/08.bai0.csv"
x_vaillant_2f08_2ebai0_2ecsv_2ebak == <<118, 97, 105, 108, 108, 97, 110, 116, 47, 48, 56, 46, 98, 97, 105, 48, 46, 99, 115, 118, 46, 98, 97, 107>>   \* "vaillant/08.bai0.csv.bak"
x_vaillant_2f08_2ebai0_2etxt == <<118, 97, 105, 108, 108, 97, 110, 116, 47, 48, 56, 46, 98, 97, 105, 48, 46, 116, 120, 116>>   \* "vaillant/08.bai0.txt"
x_vaillant_2f08_2ebai0csv == <<118, 97, 105, 108, 108, 97, 110, 116, 47, 48, 56, 46, 98, 97, 105, 48, 99, 115, 118>>   \* "vaillant/08.bai0csv"
x_vaillant_2fx08_2ebai0_2ecsv == <<118, 97, 105, 108, 108, 97, 110, 116, 47, 120, 48, 56, 46, 98, 97, 105, 48, 46, 99, 115, 118>>   \* "vaillant/x08.bai0.csv"
x_vaillant_2f08bai0_2ecsv == <<118, 97, 105, 108, 108, 97, 110, 116, 47, 48, 56, 98, 97, 105, 48, 46, 99, 115, 118>>   \* "vaillant/08bai0.csv"
x_vaillant_2f_5ftemplates_2ecsv == <<118, 97, 105, 108, 108, 97, 110, 116, 47, 95, 116, 101, 109, 112, 108, 97, 116, 101, 115, 46, 99, 115, 118>>   \* "vaillant/_templates.csv"
x_vaillant_2fgen_2ecsv == <<118, 97, 105, 108, 108, 97, 110, 116, 47, 103, 101, 110, 46, 99, 115, 118>>   \* "vaillant/gen.csv"
x_vaillant_2fab_2ecsv == <<118, 97, 105, 108, 108, 97, 110, 116, 47, 97, 98, 46, 99, 115, 118>>   \* "vaillant/ab.csv"
x_vaillant_2fb_2ecsv == <<118, 97, 105, 108, 108, 97, 110, 116, 47, 98, 46, 99, 115, 118>>   \* "vaillant/b.csv"
x_vaillant_2fsub_2f08_2ebai00_2ecsv == <<118, 97, 105, 108, 108, 97, 110, 116, 47, 115, 117, 98, 47, 48, 56, 46, 98, 97, 105, 48, 48, 46, 99, 115, 118>>   \* "vaillant/sub/08.bai00.csv"
x_08_2ebai00_2ecsv == <<48, 56, 46, 98, 97, 105, 48, 48, 46, 99, 115, 118>>   \* "08.bai00.csv"
x_vaillant_2f15_2ebai00_2ecsv == <<118, 97, 105, 108, 108, 97, 110, 116, 47, 49, 53, 46, 98, 97, 105, 48, 48, 46, 99, 115, 118>>   \* "vaillant/15.bai00.csv"
x_vaillant_2fgen_2einc == <<118, 97, 105, 108, 108, 97, 110, 116, 47, 103, 101, 110, 46, 105, 110, 99>>   \* "vaillant/gen.inc"
x_vaillant_2fsub_2ecsv == <<118, 97, 105, 108, 108, 97, 110, 116, 47, 115, 117, 98, 46, 99, 115, 118>>   \* "vaillant/sub.csv"
x_0A == <<48, 65>>   \* "0A"
x_08_2ecsv == <<48, 56, 46, 99, 115, 118>>   \* "08.csv"
x_8_2ebai_2ecsv == <<56, 46, 98, 97, 105, 46, 99, 115, 118>>   \* "8.bai.csv"
x_0g_2ebai_2ecsv == <<48, 103, 46, 98, 97, 105, 46, 99, 115, 118>>   \* "0g.bai.csv"
x_aa_2ebai_2ecsv == <<97, 97, 46, 98, 97, 105, 46, 99, 115, 118>>   \* "aa.bai.csv"
x_a9_2ebai_2ecsv == <<97, 57, 46, 98, 97, 105, 46, 99, 115, 118>>   \* "a9.bai.csv"
x_0A_2ebai_2ecsv == <<48, 65, 46, 98, 97, 105, 46, 99, 115, 118>>   \* "0A.bai.csv"
x_08_2ebailon_2ehc_2ecsv == <<48, 56, 46, 98, 97, 105, 108, 111, 110, 46, 104, 99, 46, 99, 115, 118>>   \* "08.bailon.hc.csv"
x_08_2ebai_2ehc_2ex_2ecsv == <<48, 56, 46, 98, 97, 105, 46, 104, 99, 46, 120, 46, 99, 115, 118>>   \* "08.bai.hc.x.csv"
x_08_2eSW0102_2ebai_2ecsv == <<48, 56, 46, 83, 87, 48, 49, 48, 50, 46, 98, 97, 105, 46, 99, 115, 118>>   \* "08.SW0102.bai.csv"
x_08_2ebai_2eSW01a2_2ecsv == <<48, 56, 46, 98, 97, 105, 46, 83, 87, 48, 49, 97, 50, 46, 99, 115, 118>>   \* "08.bai.SW01a2.csv"
x_08_2ebai_2eSW0102_2eSW0103_2ecsv == <<48, 56, 46, 98, 97, 105, 46, 83, 87, 48, 49, 48, 50, 46, 83, 87, 48, 49, 48, 51, 46, 99, 115, 118>>   \* "08.bai.SW0102.SW0103.csv"
x_08_2eBAI_2ecsv == <<48, 56, 46, 66, 65, 73, 46, 99, 115, 118>>   \* "08.BAI.csv"
x_08_2ebai_2ehc_2e3_2ex_2eSW0102_2ey_2eHW0304_2ez_2ecsv == <<48, 56, 46, 98, 97, 105, 46, 104, 99, 46, 51, 46, 120, 46, 83, 87, 48, 49, 48, 50, 46, 121, 46, 72, 87, 48, 51, 48, 52, 46, 122, 46, 99, 115, 118>>   \* "08.bai.hc.3.x.SW0102.y.HW0304.z.csv"
x_08_2ebai_2etxt == <<48, 56, 46, 98, 97, 105, 46, 116, 120, 116>>   \* "08.bai.txt"
x__5ftemplates_2ecsv == <<95, 116, 101, 109, 112, 108, 97, 116, 101, 115, 46, 99, 115, 118>>   \* "_templates.csv"
x_gen_2ecsv == <<103, 101, 110, 46, 99, 115, 118>>   \* "gen.csv"
x_08_2ebai_2e3_2ehc_2ecsv == <<48, 56, 46, 98, 97, 105, 46, 51, 46, 104, 99, 46, 99, 115, 118>>   \* "08.bai.3.hc.csv"
x_fe_2ebai_2ecsv == <<102, 101, 46, 98, 97, 105, 46, 99, 115, 118>>   \* "fe.bai.csv"
x_08_2e_2ehc_2ecsv == <<48, 56, 46, 46, 104, 99, 46, 99, 115, 118>>   \* "08..hc.csv"
x_08_2e_2e_2ecsv == <<48, 56, 46, 46, 46, 99, 115, 118>>   \* "08...csv"
x_08_2ebai_2ehc_2e3 == <<48, 56, 46, 98, 97, 105, 46, 104, 99, 46, 51>>   \* "08.bai.hc.3"
x_08_2e == <<48, 56, 46>>   \* "08."
x_08_2ebai_2e7_2ecsv == <<48, 56, 46, 98, 97, 105, 46, 55, 46, 99, 115, 118>>   \* "08.bai.7.csv"
x_08_2ebai_2ec_2ecsv == <<48, 56, 46, 98, 97, 105, 46, 99, 46, 99, 115, 118>>   \* "08.bai.c.csv"
x_08_2ebai_2e33_2ecsv == <<48, 56, 46, 98, 97, 105, 46, 51, 51, 46, 99, 115, 118>>   \* "08.bai.33.csv"
x_08_2ebai_2ehc_2e33_2ecsv == <<48, 56, 46, 98, 97, 105, 46, 104, 99, 46, 51, 51, 46, 99, 115, 118>>   \* "08.bai.hc.33.csv"
x_08_2ebai_2e33_2ex_2ecsv == <<48, 56, 46, 98, 97, 105, 46, 51, 51, 46, 120, 46, 99, 115, 118>>   \* "08.bai.33.x.csv"
x_08_2ebai_2e3_2ex_2ecsv == <<48, 56, 46, 98, 97, 105, 46, 51, 46, 120, 46, 99, 115, 118>>   \* "08.bai.3.x.csv"
x_08_2ebai_2ehc_2eHW0304_2ex_2eSW0102_2ecsv == <<48, 56, 46, 98, 97, 105, 46, 104, 99, 46, 72, 87, 48, 51, 48, 52, 46, 120, 46, 83, 87, 48, 49, 48, 50, 46, 99, 115, 118>>   \* "08.bai.hc.HW0304.x.SW0102.csv"
x_ff == <<102, 102>>   \* "ff"
x_aa == <<97, 97>>   \* "aa"
x_fe == <<102, 101>>   \* "fe"
x_a9 == <<97, 57>>   \* "a9"
x_070400 == <<48, 55, 48, 52, 48, 48>>   \* "070400"
x_070401b5 == <<48, 55, 48, 52, 48, 49, 98, 53>>   \* "070401b5"
x_070401 == <<48, 55, 48, 52, 48, 49>>   \* "070401"
x_0704 == <<48, 55, 48, 52>>   \* "0704"
x_07040 == <<48, 55, 48, 52, 48>>   \* "07040"
x_07040g == <<48, 55, 48, 52, 48, 103>>   \* "07040g"
x_0704_200 == <<48, 55, 48, 52, 32, 48>>   \* "0704 0"
x_0704_2b0 == <<48, 55, 48, 52, 43, 48>>   \* "0704+0"
x_070400b5 == <<48, 55, 48, 52, 48, 48, 98, 53>>   \* "070400b5"
x_0704000 == <<48, 55, 48, 52, 48, 48, 48>>   \* "0704000"
x_00 == <<48, 48>>   \* "00"
x_01b5 == <<48, 49, 98, 53>>   \* "01b5"
x_02b5 == <<48, 50, 98, 53>>   \* "02b5"
x_0ab5424149303001020304 == <<48, 97, 98, 53, 52, 50, 52, 49, 52, 57, 51, 48, 51, 48, 48, 49, 48, 50, 48, 51, 48, 52>>   \* "0ab5424149303001020304"
x_zz == <<122, 122>>   \* "zz"
x_0_2f == <<48, 47>>   \* "0/"
x__2b1 == <<43, 49>>   \* "+1"
x_01B5 == <<48, 49, 66, 53>>   \* "01B5"
x_FF08070400_2f0AB5454850303003277201 == <<70, 70, 48, 56, 48, 55, 48, 52, 48, 48, 47, 48, 65, 66, 53, 52, 53, 52, 56, 53, 48, 51, 48, 51, 48, 48, 51, 50, 55, 55, 50, 48, 49>>   \* "FF08070400/0AB5454850303003277201"
x_Ff08070400_2f == <<70, 102, 48, 56, 48, 55, 48, 52, 48, 48, 47>>   \* "Ff08070400/"
x__2f == <<47>>   \* "/"
x__2f00 == <<47, 48, 48>>   \* "/00"
x_ff08070400_2f_2f == <<102, 102, 48, 56, 48, 55, 48, 52, 48, 48, 47, 47>>   \* "ff08070400//"
x_ff08070400_2f0ab5424149303001020304 == <<102, 102, 48, 56, 48, 55, 48, 52, 48, 48, 47, 48, 97, 98, 53, 52, 50, 52, 49, 52, 57, 51, 48, 51, 48, 48, 49, 48, 50, 48, 51, 48, 52>>   \* "ff08070400/0ab5424149303001020304"
x_ff15070400_2f00 == <<102, 102, 49, 53, 48, 55, 48, 52, 48, 48, 47, 48, 48>>   \* "ff15070400/00"
x_ff08070400 == <<102, 102, 48, 56, 48, 55, 48, 52, 48, 48>>   \* "ff08070400"
x_1008070400_2f == <<49, 48, 48, 56, 48, 55, 48, 52, 48, 48, 47>>   \* "1008070400/"

Seg1(s) == <<s>>                                  \* one segment
NameOf(zz, mids) == JoinWith(<<zz>> \o mids \o <<t_csv>>, <<DOT>>)
InDir(d, n) == IF d = <<>> THEN n ELSE d \o <<SLASH>> \o n
Sl(mf, id, sw, hw) == <<10, mf>> \o id \o sw \o hw
BaseSl == Sl(181, x_BAI00, <<1, 2>>, <<3, 4>>)     \* Vaillant BAI00 SW 0102 HW 0304
World(fam, addr, has, sl, ents) == [t |-> "sel", addr |-> addr, has |-> has, sl |-> sl, ents |-> ents]
Ents(E) == SetToSeq(E)
Files(dir, NS, kind) == {<<InDir(dir, n), kind>> : n \in NS}
(* the subsets of 1..4 elements, each built once (q = the set as a sequence) *)
Sub1(q) == {{q[i]} : i \in 1..Len(q)}
Sub2(q) == UNION {{{q[i], q[j]} : j \in (i + 1)..Len(q)} : i \in 1..Len(q)}
Sub3(q) == UNION {UNION {{{q[i], q[j], q[k]} : k \in (j + 1)..Len(q)} : j \in (i + 1)..Len(q)} : i \in 1..Len(q)}
Sub4(q) == UNION {UNION {UNION {{{q[i], q[j], q[k], q[l]} : l \in (k + 1)..Len(q)} : k \in (j + 1)..Len(q)} : j \in (i + 1)..Len(q)} : i \in 1..Len(q)}
UpTo2(S) == LET q == SetToSeq(S) IN Sub1(q) \cup Sub2(q)
UpTo3(S) == LET q == SetToSeq(S) IN Sub1(q) \cup Sub2(q) \cup Sub3(q)
UpTo4(S) == LET q == SetToSeq(S) IN Sub1(q) \cup Sub2(q) \cup Sub3(q) \cup Sub4(q)

(* ---- the name grammar: optional ident, circuit, suffix, versions in either order ---- *)
SWm == x_SW0102   SWx == x_SW0103   HWm == x_HW0304   HWx == x_HW0305
NoSeg == <<>>
IdAll == {NoSeg, Seg1(<<>>), Seg1(x_bai00), Seg1(x_bai0), Seg1(x_bai), Seg1(x_ba), Seg1(x_bax), Seg1(x_bai01), Seg1(x_bailon)}
CircAll == {NoSeg, Seg1(x_hc), Seg1(x_longcirc)}
SufAll == {NoSeg, Seg1(x_3)}
VerAll == {NoSeg, <<SWm>>, <<SWx>>, <<HWm>>, <<HWx>>, <<SWm, HWm>>, <<SWm, HWx>>, <<SWx, HWm>>, <<SWx, HWx>>,
           <<HWm, SWm>>, <<HWx, SWm>>, <<HWm, SWx>>, <<HWx, SWx>>}
Mids(IS, CS, SS, VS) == {i \o c \o s \o v : i \in IS \ {NoSeg}, c \in CS, s \in SS, v \in VS}
                        \cup (IF NoSeg \in IS THEN VS ELSE {})                  \* without ident segment: versions only
Names(ZS, IS, CS, SS, VS) == {NameOf(z, m) : z \in ZS, m \in Mids(IS, CS, SS, VS)}

(* A1: every name of the grammar alone in the directory *)
NamesA1 == Names({x_08, x_15}, IdAll, CircAll, SufAll, VerAll)
FamA1(th) == {World("A1", 8, 1, BaseSl, Ents(Files(x_vaillant, {n}, 0))) : n \in NamesA1}

(* A2: precedence between two candidates *)
NamesA2(th) == IF th THEN Names({x_08}, {NoSeg, Seg1(<<>>), Seg1(x_bai00), Seg1(x_bai0), Seg1(x_bai), Seg1(x_bax)}, CircAll, {NoSeg}, VerAll)
               ELSE Names({x_08}, {NoSeg, Seg1(<<>>), Seg1(x_bai00), Seg1(x_bai0), Seg1(x_bai), Seg1(x_bax)}, {NoSeg, Seg1(x_longcirc)}, {NoSeg},
                          {NoSeg, <<SWm>>, <<SWx>>, <<HWm>>, <<SWm, HWm>>, <<SWx, HWm>>})
FamA2(th) == {World("A2", 8, 1, BaseSl, Ents(Files(x_vaillant, P, 0))) : P \in {Q \in UpTo2(NamesA2(th)) : Cardinality(Q) = 2}}

(* A3: three and four candidates of a core grammar *)
NamesA3(th) == IF th THEN Names({x_08}, {NoSeg, Seg1(x_bai0), Seg1(x_bai)}, {NoSeg, Seg1(x_longcirc)}, {NoSeg}, {NoSeg, <<SWm>>, <<HWm>>, <<SWm, HWm>>})
               ELSE Names({x_08}, {NoSeg, Seg1(x_bai0), Seg1(x_bai)}, {NoSeg, Seg1(x_longcirc)}, {NoSeg}, {NoSeg, <<SWm>>, <<SWm, HWm>>}) \ {NameOf(x_08, <<SWm, HWm>>)}
FamA3(th) == {World("A3", 8, 1, BaseSl, Ents(Files(x_vaillant, P, 0))) : P \in {Q \in UpTo4(NamesA3(th)) : Cardinality(Q) >= 3}}

(* A4: the ident bytes of the identification against names that spell prefixes of what they normalise to *)
IdentFam == {x_BAI00, x_bai00, x_Bai00, x_BAI01, x_BA100, x_70000, x_B_5fI00, x_B_20I00, <<66, 65, 73, 0, 0>>, <<66, 65, 0, 73, 48>>, x_B_2eI00,
             x__20_20_20_20_20, x_00000, x_BAI0_20, <<66, 65, 73, 1, 200>>, x_BA1X0}
PrefixesOf(s) == {SubSeq(s, 1, k) : k \in 0..Len(s)}
NamesA4(idb) == LET n == NormIdent(idb) IN
                {NameOf(x_08, Seg1(p)) : p \in PrefixesOf(n) \cup PrefixesOf(LowerT(idb)) \cup {n \o <<48>>}} \cup {NameOf(x_08, NoSeg)}
FamA4(th) == UNION {{World("A4", 8, 1, Sl(181, idb, <<1, 2>>, <<3, 4>>), Ents(Files(x_vaillant, P, 0))) :
                       P \in {Q \in UpTo2({m \in NamesA4(idb) : Len(m) <= 12}) : Q # {}}} : idb \in IdentFam}

(* A5: SW / HW bytes against version constraints *)
VerBytes == {<<1, 2>>, <<0, 0>>, <<153, 153>>, <<26, 2>>, <<255, 255>>, <<0, 26>>, <<1, 0>>}
VerTexts == {x_0102, x_0000, x_9999, x_0026, x_0100}
NamesA5 == {NameOf(x_08, <<x_bai>>), NameOf(x_08, <<x_bai, SWm, x_HW0304>>)}
           \cup {NameOf(x_08, <<x_bai, t_SW \o v>>) : v \in VerTexts} \cup {NameOf(x_08, <<x_bai, t_HW \o v>>) : v \in VerTexts}
VerPairs(th) == IF th THEN VerBytes \X VerBytes ELSE {<<s, <<3, 4>> >> : s \in VerBytes} \cup {<< <<1, 2>>, h>> : h \in VerBytes}
FamA5(th) == UNION {{World("A5", 8, 1, Sl(181, x_BAI00, sh[1], sh[2]), Ents(Files(x_vaillant, P, 0))) : P \in UpTo2(NamesA5)} : sh \in VerPairs(th)}

(* A6: manufacturer byte against the directory the file lies in *)
MfBytes == {181, 16, 15, 253, 133, 21, 153, 0, 6, 254}
MfDirs == {x_vaillant, x_tem, x_fh_20ostfalia, x_ebusd_2eeu, x_ebm_2dpapst, x_landis_2dstaefa, x_153, x_0, x_dungs, x_254, x_Vaillant, x_181, x_b5,
           x_TEM, x_16, x_10, x_99, <<>>}
FamA6(th) == {World("A6", 8, 1, Sl(mf, x_BAI00, <<1, 2>>, <<3, 4>>), Ents(Files(d, {NameOf(x_08, <<x_bai>>)}, 0))) : mf \in MfBytes, d \in MfDirs}
             \cup {World("A6", 8, 1, Sl(mf, x_BAI00, <<1, 2>>, <<3, 4>>),
                         Ents(Files(d1, {NameOf(x_08, <<x_bai>>)}, 0) \cup Files(d2, {NameOf(x_08, <<x_bai0>>)}, 0))) :
                     mf \in {181, 153}, d1 \in MfDirs, d2 \in MfDirs}

(* A7: what else may lie in the directory *)
Listing == {<<x_vaillant_2f08_2ebai_2ecsv, 0>>, <<x_vaillant_2f08_2ebai0_2ecsv, 1>>, <<x_vaillant_2f08_2ebai0_2ecsv_2ebak, 0>>, <<x_vaillant_2f08_2ebai0_2etxt, 0>>,
            <<x_vaillant_2f08_2ebai0csv, 0>>, <<x_vaillant_2fx08_2ebai0_2ecsv, 0>>, <<x_vaillant_2f08bai0_2ecsv, 0>>, <<x_vaillant_2f_5ftemplates_2ecsv, 3>>,
            <<x_vaillant_2fgen_2ecsv, 0>>, <<x_vaillant_2fab_2ecsv, 0>>, <<x_vaillant_2fb_2ecsv, 0>>, <<x_vaillant_2fsub_2f08_2ebai00_2ecsv, 0>>,
            <<x_08_2ebai00_2ecsv, 0>>, <<x_vaillant_2f15_2ebai00_2ecsv, 0>>, <<x_vaillant_2fgen_2einc, 0>>, <<x_vaillant_2fsub_2ecsv, 1>>}
FamA7(th) == {World("A7", 8, 1, BaseSl, Ents(E)) : E \in {Q \in (IF th THEN UpTo4(Listing) ELSE UpTo3(Listing)) : Q # {}}}

(* A8: addresses *)
Addrs == {8, 21, 10, 254, 16, 170, 169, 255, 0, 117}
FamA8(th) == UNION {{World("A8", a, 1, BaseSl, Ents(E)) :
                       E \in {Q \in UpTo2(Files(x_vaillant, {NameOf(Hex2(a), <<x_bai>>), NameOf(x_08, <<x_bai>>), NameOf(x_0A, <<x_bai>>)}, 0)) : Q # {}}} :
                    a \in Addrs}

(* A9: no or short identification *)
Short == {<<>>, <<0>>, <<9, 181>> \o x_BAI00 \o <<1, 2, 3>>, <<10, 181>> \o x_BAI00 \o <<1, 2, 3>>, <<10, 181>> \o x_BAI00 \o <<1, 2, 3, 4, 5>>,
          <<11, 181>> \o x_BAI00 \o <<1, 2, 3, 4, 5>>, <<9, 181>> \o x_BAI00 \o <<1, 2, 3, 4>>}
FamA9(th) == {World("A9", 8, 0, BaseSl, Ents(Files(x_vaillant, {NameOf(x_08, <<x_bai>>)}, 0)))}
             \cup {World("A9", 8, 1, sl, Ents(Files(x_vaillant, {NameOf(x_08, <<x_bai>>)}, 0))) : sl \in Short}

(* A10: definitions that take circuit and destination from the defaults of the file name *)
NamesA10 == {NameOf(x_08, <<x_bai>>), NameOf(x_08, <<x_bai, x_hc>>), NameOf(x_08, <<x_bai, x_3>>), NameOf(x_08, <<x_bai, x_hc, x_3>>),
             NameOf(x_08, <<<<>>, x_hc>>), NameOf(x_08, <<<<>>, x_hc, x_3>>), NameOf(x_08, <<x_bai00>>), NameOf(x_08, <<x_bai, x_hc, SWm>>),
             NameOf(x_08, <<x_bai, x_3, HWm>>), NameOf(x_08, <<x_bai, x_hc, x_3, SWm, HWm>>), NameOf(x_08, <<x_bai0, x_longcirc, x_3>>)}
FamA10(th) == {World("A10", 8, 1, BaseSl, Ents(Files(x_vaillant, {n}, 2) \cup X)) :
                 n \in NamesA10, X \in {{}, {<<x_vaillant_2f_5ftemplates_2ecsv, 3>>, <<x_vaillant_2fgen_2ecsv, 0>>}}}

(* the worlds as a sequence, family after family (a world that belongs to two families is simply run twice): no big set   *)
(* has to be normalised, and the judge compares the records with this list index by index                                 *)
SelSeq(th) == SetToSeq(FamA1(th)) \o SetToSeq(FamA2(th)) \o SetToSeq(FamA3(th)) \o SetToSeq(FamA4(th)) \o SetToSeq(FamA5(th))
              \o SetToSeq(FamA6(th)) \o SetToSeq(FamA7(th)) \o SetToSeq(FamA8(th)) \o SetToSeq(FamA9(th)) \o SetToSeq(FamA10(th))
FamilySizes(th) == <<Cardinality(FamA1(th)), Cardinality(FamA2(th)), Cardinality(FamA3(th)), Cardinality(FamA4(th)), Cardinality(FamA5(th)),
                     Cardinality(FamA6(th)), Cardinality(FamA7(th)), Cardinality(FamA8(th)), Cardinality(FamA9(th)), Cardinality(FamA10(th))>>

(* ---- names handed to the file-name reader alone ---- *)
FnExtra == {x_08_2ecsv, x_8_2ebai_2ecsv, x_0g_2ebai_2ecsv, x_aa_2ebai_2ecsv, x_a9_2ebai_2ecsv, x_0A_2ebai_2ecsv, x_08_2ebailon_2ehc_2ecsv, x_08_2ebai_2ehc_2ex_2ecsv,
            x_08_2eSW0102_2ebai_2ecsv, x_08_2ebai_2eSW01a2_2ecsv, x_08_2ebai_2eSW0102_2eSW0103_2ecsv, x_08_2eBAI_2ecsv, x_08_2ebai_2ehc_2e3_2ex_2eSW0102_2ey_2eHW0304_2ez_2ecsv,
            x_08_2ebai_2etxt, x__5ftemplates_2ecsv, x_gen_2ecsv, x_08_2ebai_2e3_2ehc_2ecsv, x_fe_2ebai_2ecsv, x_08_2e_2ehc_2ecsv, x_08_2e_2e_2ecsv, x_08_2ebai_2ehc_2e3, x_08, x_08_2e,
            x_08_2ebai_2e7_2ecsv, x_08_2ebai_2ec_2ecsv, x_08_2ebai_2e33_2ecsv, x_08_2ebai_2ehc_2e33_2ecsv, x_08_2ebai_2e33_2ex_2ecsv, x_08_2ebai_2e3_2ex_2ecsv, x_08_2ebai_2ehc_2eHW0304_2ex_2eSW0102_2ecsv}
FnNames == NamesA1 \cup FnExtra

(* ---- MASTER/SLAVE texts ---- *)
PmQQ == {x_ff, x_10, x_08, x_aa}
PmZZ == {x_08, x_15, x_10, x_fe, x_aa, x_a9}
PmTail == {x_070400, x_070401b5, x_070401, x_0704, x_07040, x_07040g, x_0704_200, x_0704_2b0, x_070400b5, x_0704000}
PmSlave == {<<>>, x_00, x_01b5, x_02b5, x_0ab5424149303001020304, x_0, x_zz, x_0_2f, x__2b1, x_01B5}
PmSep == {<<SLASH>>, <<>>}
PmTexts == {q \o z \o t \o sep \o s : q \in PmQQ, z \in PmZZ, t \in PmTail, sep \in PmSep, s \in PmSlave}
           \cup {x_FF08070400_2f0AB5454850303003277201, x_Ff08070400_2f, x__2f, <<>>, x__2f00, x_ff08070400_2f_2f}
PmCases == {[t |-> "pm", arg |-> a, oms |-> o, pre |-> 0] : a \in PmTexts, o \in {0, 1}}
           \cup {[t |-> "pm", arg |-> a, oms |-> 1, pre |-> 1] : a \in {x_ff08070400_2f0ab5424149303001020304, x_ff15070400_2f00, x_ff08070400, x_1008070400_2f}}
=============================================================================
