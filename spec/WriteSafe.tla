------------------------------ MODULE WriteSafe ------------------------------
(* C07 - writes are range-safe: a value is never wrapped, truncated or silently changed.         *)
(*                                                                                              *)
(* P oracle.  Written from the property text and the documentation of the numeric base types    *)
(* (value ranges, replacement values, byte order, divisor semantics) - not from the parsing     *)
(* code.  All numbers are digit sequences (module BigDec): the inputs have up to 25 digits and  *)
(* sit next to 2^32 / 2^64, far beyond TLC's machine integers.                                  *)
(*                                                                                              *)
(*   WriteSafe(def, rec): if encoding text rec.t into field definition def returned OK with     *)
(*   bytes rec.b, then t is a well-formed number (or the null text "-", or a name of the value  *)
(*   list), the raw value carried by b lies within [min, max] of the (derived / ranged) type,   *)
(*   is not the replacement value unless t is the null text, is a key of the value list if      *)
(*   there is one, and |value(b) - value(t)| <= one resolution step.  Nothing is demanded of    *)
(*   rejected inputs, so a stricter implementation never alarms.                                *)
(*                                                                                              *)
(* The module also defines the input domain (definitions x boundary texts) that TLC emits as    *)
(* cases for the harness (C07Gen) and against which the records are judged (C07Judge).          *)
EXTENDS BigDec, FiniteSets, TLC

(* ------------------------------------------------------------------ characters ------------ *)
Blank(c) == c = 32 \/ c = 9
IsDigit(c) == c >= 48 /\ c <= 57
HexVal(c) == IF IsDigit(c) THEN c - 48
             ELSE IF c >= 97 /\ c <= 102 THEN c - 87
             ELSE IF c >= 65 /\ c <= 70 THEN c - 55 ELSE -1
Seq1(s) == [i \in 1..Len(s) |-> s[i]]

RECURSIVE LStrip(_)
LStrip(s) == IF s # <<>> /\ Blank(Head(s)) THEN LStrip(Tail(s)) ELSE s
RECURSIVE RStrip(_)
RStrip(s) == IF s # <<>> /\ Blank(s[Len(s)]) THEN RStrip(SubSeq(s, 1, Len(s) - 1)) ELSE s

MinOf(S) == CHOOSE x \in S : \A y \in S : x <= y

(* ------------------------------------------------------------------ input grammar --------- *)
(* number ::= blank* [+-] ( digit+ [ . digit* ] | . digit+ ) [ (e|E) [+-] digit+ ] blank*       *)
(*          | blank* [+-] 0 (x|X) hexdigit+ blank*                                             *)
(* null   ::= blank* - blank*                                                                  *)
(* The value is [n |-> negative, m |-> N, sc |-> s] = (+/-) m * 10^-s.  "huge"/"tiny" stand for *)
(* exponents beyond +/-1200 (larger / smaller than anything any field can hold).               *)
Bad == [ok |-> FALSE]
NumV(neg, mag, sc) == [ok |-> TRUE, null |-> FALSE, n |-> (neg /\ mag # <<>>), m |-> mag, sc |-> sc,
                       huge |-> FALSE, tiny |-> FALSE]

SmallInt(ds) ==  \* digit codes -> machine integer, saturating at 9999
  IF Len(Trim(Rev([i \in 1..Len(ds) |-> ds[i] - 48]))) > 4 THEN 9999
  ELSE LET RECURSIVE F(_, _)
           F(i, acc) == IF i > Len(ds) THEN acc ELSE F(i + 1, acc * 10 + (ds[i] - 48))
       IN F(1, 0)

ParseDec(neg, u) ==
  LET E == {i \in 1..Len(u) : u[i] \in {101, 69}}
      ep == IF E = {} THEN 0 ELSE MinOf(E)
      mant == IF ep = 0 THEN u ELSE SubSeq(u, 1, ep - 1)
      expo == IF ep = 0 THEN <<>> ELSE SubSeq(u, ep + 1, Len(u))
      esgn == expo # <<>> /\ expo[1] \in {43, 45}
      edig == IF esgn THEN Tail(expo) ELSE expo
      P == {i \in 1..Len(mant) : mant[i] = 46}
      pp == IF P = {} THEN Len(mant) + 1 ELSE MinOf(P)
      ip == SubSeq(mant, 1, pp - 1)
      fp == SubSeq(mant, pp + 1, Len(mant))
      digs == ip \o fp
  IN IF \/ Cardinality(P) > 1
        \/ digs = <<>>
        \/ \E i \in 1..Len(digs) : ~IsDigit(digs[i])
        \/ (ep # 0 /\ (edig = <<>> \/ \E i \in 1..Len(edig) : ~IsDigit(edig[i])))
     THEN Bad
     ELSE LET ev == IF ep = 0 THEN 0 ELSE (IF expo[1] = 45 THEN -SmallInt(edig) ELSE SmallInt(edig))
              net == ev - Len(fp)
              mag == NOfMsb([i \in 1..Len(digs) |-> digs[i] - 48])
          IN IF mag = <<>> THEN NumV(FALSE, <<>>, 0)
             ELSE IF net > 1200 THEN [NumV(neg, mag, 0) EXCEPT !.huge = TRUE]
             ELSE IF net < -1200 THEN [NumV(FALSE, <<>>, 0) EXCEPT !.tiny = TRUE]
             ELSE IF net >= 0 THEN NumV(neg, NShift(mag, net), 0)
             ELSE NumV(neg, mag, -net)

ParseNum(t0) ==
  LET t == Seq1(RStrip(LStrip(t0))) IN
  IF t = <<45>> THEN [ok |-> TRUE, null |-> TRUE]
  ELSE LET sgn == t # <<>> /\ t[1] \in {43, 45}
           neg == t # <<>> /\ t[1] = 45
           u == IF sgn THEN Tail(t) ELSE t
       IN IF u = <<>> THEN Bad
          ELSE IF Len(u) >= 2 /\ u[1] = 48 /\ u[2] \in {120, 88} THEN
               LET h == SubSeq(u, 3, Len(u)) IN
               IF h = <<>> \/ \E i \in 1..Len(h) : HexVal(h[i]) < 0 THEN Bad
               ELSE NumV(neg, NOfBase([i \in 1..Len(h) |-> HexVal(h[i])], 16), 0)
          ELSE ParseDec(neg, u)

(* ------------------------------------------------------------------ type table ------------ *)
(* kind: "u" unsigned binary, "s" two's complement, "bcd" packed BCD, "hcd" one byte per two    *)
(* decimal digits, "bit" bit range inside one byte, "exp" IEEE-754 binary32.                    *)
(* bits: width; fb: first bit (bit types); rev: most significant byte first; req: no            *)
(* replacement value; div: divisor (> 0) or multiplier (< 0); repl: replacement pattern, most   *)
(* significant byte first; mn/mx: explicit raw range where the documentation gives one (-1:     *)
(* derived from the width); ty/len/dvs/lo/hi: what the harness puts into the definition line.   *)
BT(ty, len, kind, bits, fb, rev, req, div, repl, mn, mx) ==
  [ty |-> ty, len |-> len, kind |-> kind, bits |-> bits, fb |-> fb, rev |-> rev, req |-> req, div |-> div,
   repl |-> repl, mn |-> mn, mx |-> mx, dvs |-> <<>>, lo |-> <<>>, hi |-> <<>>, vals |-> <<>>]

FFs(n) == [i \in 1..n |-> 255]
MinS(n) == [i \in 1..n |-> IF i = 1 THEN 128 ELSE 0]
U(ty, bytes, rev, req) == BT(ty, 0, "u", 8 * bytes, 0, rev, req, 1, IF req THEN <<>> ELSE FFs(bytes), 0, -1)
S(ty, bytes, rev, req, div) == BT(ty, 0, "s", 8 * bytes, 0, rev, req, div, IF req THEN <<>> ELSE MinS(bytes), 0, -1)
Bcd(len) == BT("BCD", len, "bcd", 8 * len, 0, FALSE, FALSE, 1, FFs(len), 0, -1)
Hcd(len) == BT("HCD", len, "hcd", 8 * len, 0, FALSE, TRUE, 1, <<>>, 0, -1)
Bit(k, n) == BT(<<"BI0", "BI1", "BI2", "BI3", "BI4", "BI5", "BI6", "BI7">>[k + 1], IF k = 7 THEN 0 ELSE n, "bit", n, k, FALSE, TRUE, 1, <<>>, 0, -1)

DayNames == << <<77,111,110>>, <<84,117,101>>, <<87,101,100>>, <<84,104,117>>, <<70,114,105>>, <<83,97,116>>, <<83,117,110>> >>

BaseTypes == <<
  U("UCH", 1, FALSE, FALSE), U("U1L", 1, FALSE, TRUE),
  S("SCH", 1, FALSE, FALSE, 1), S("S1L", 1, FALSE, TRUE, 1), S("D1B", 1, FALSE, FALSE, 1),
  BT("D1C", 0, "u", 8, 0, FALSE, FALSE, 2, <<255>>, 0, 200),
  S("D2B", 2, FALSE, FALSE, 256), S("D2C", 2, FALSE, FALSE, 16), S("FLT", 2, FALSE, FALSE, 1000), S("FLR", 2, TRUE, FALSE, 1000),
  U("UIN", 2, FALSE, FALSE), U("UIR", 2, TRUE, FALSE), U("U2L", 2, FALSE, TRUE), U("U2B", 2, TRUE, TRUE),
  S("SIN", 2, FALSE, FALSE, 1), S("SIR", 2, TRUE, FALSE, 1), S("S2L", 2, FALSE, TRUE, 1), S("S2B", 2, TRUE, TRUE, 1),
  U("U3N", 3, FALSE, FALSE), U("U3R", 3, TRUE, FALSE), U("U3L", 3, FALSE, TRUE), U("U3B", 3, TRUE, TRUE),
  S("S3N", 3, FALSE, FALSE, 1), S("S3R", 3, TRUE, FALSE, 1), S("S3L", 3, FALSE, TRUE, 1), S("S3B", 3, TRUE, TRUE, 1),
  U("ULG", 4, FALSE, FALSE), U("ULR", 4, TRUE, FALSE), U("U4L", 4, FALSE, TRUE), U("U4B", 4, TRUE, TRUE),
  S("SLG", 4, FALSE, FALSE, 1), S("SLR", 4, TRUE, FALSE, 1), S("S4L", 4, FALSE, TRUE, 1), S("S4B", 4, TRUE, TRUE, 1),
  Bcd(1), Bcd(2), Bcd(3), Bcd(4), Hcd(1), Hcd(2), Hcd(3), Hcd(4),
  BT("PIN", 0, "bcd", 16, 0, TRUE, FALSE, 1, <<255, 255>>, 0, -1),
  BT("EXP", 0, "exp", 32, 0, FALSE, FALSE, 1, <<127, 192, 0, 0>>, 0, -1),
  BT("EXR", 0, "exp", 32, 0, TRUE, FALSE, 1, <<127, 192, 0, 0>>, 0, -1),
  Bit(0, 1), Bit(0, 7), Bit(1, 3), Bit(2, 6), Bit(3, 2), Bit(3, 5), Bit(4, 4), Bit(6, 2), Bit(7, 1)
>>

BaseOf(ty) == LET I == {i \in 1..Len(BaseTypes) : BaseTypes[i].ty = ty} IN BaseTypes[MinOf(I)]
BaseOfLen(ty, len) == LET I == {i \in 1..Len(BaseTypes) : BaseTypes[i].ty = ty /\ BaseTypes[i].len = len} IN BaseTypes[MinOf(I)]

DigCodes(a) == LET d == MsbOf(a) IN [i \in 1..Len(d) |-> d[i] + 48]
IntCodes(k) == IF k < 0 THEN <<45>> \o DigCodes(NOfInt(-k)) ELSE DigCodes(NOfInt(k))

(* derived definitions: extra divisor k (product rule; k < 0 is a multiplier), range lo-hi, value list *)
WithDiv(d, k) == [d EXCEPT !.div = IF d.div = 1 THEN k ELSE d.div * k, !.dvs = IntCodes(k)]
WithRange(d, lo, hi) == [d EXCEPT !.lo = lo, !.hi = hi]
RECURSIVE ValsCodes(_)
ValsCodes(vs) == IF vs = <<>> THEN <<>>
                 ELSE IntCodes(vs[1].k) \o <<61>> \o vs[1].nm \o (IF Len(vs) > 1 THEN <<59>> ELSE <<>>) \o ValsCodes(Tail(vs))
WithVals(d, vs) == [d EXCEPT !.vals = vs, !.dvs = ValsCodes(vs)]
KV(k, nm) == [k |-> k, nm |-> nm]

cOn == <<111, 110>>
cOff == <<111, 102, 102>>
cMax == <<109, 97, 120>>
cAuto == <<97, 117, 116, 111>>

DerivedDefs == <<
  WithDiv(BaseOf("UCH"), 10), WithDiv(BaseOf("UCH"), -10), WithDiv(BaseOf("SCH"), 10), WithDiv(BaseOf("SCH"), -10),
  WithDiv(BaseOf("U1L"), 10), WithDiv(BaseOf("S1L"), 100),
  WithDiv(BaseOf("UIN"), 10), WithDiv(BaseOf("UIN"), 1000), WithDiv(BaseOf("UIN"), -10), WithDiv(BaseOf("UIR"), 10),
  WithDiv(BaseOf("SIN"), 10), WithDiv(BaseOf("SIN"), 100), WithDiv(BaseOf("SIR"), 10), WithDiv(BaseOf("S2L"), -100),
  WithDiv(BaseOf("U3N"), 10), WithDiv(BaseOf("S3N"), 10), WithDiv(BaseOf("S3B"), 1000),
  WithDiv(BaseOf("ULG"), 10), WithDiv(BaseOf("ULG"), -10), WithDiv(BaseOf("ULG"), 1000), WithDiv(BaseOf("U4L"), 10), WithDiv(BaseOf("ULR"), 100),
  WithDiv(BaseOf("SLG"), 10), WithDiv(BaseOf("SLG"), -100), WithDiv(BaseOf("S4L"), 10), WithDiv(BaseOf("SLR"), 1000),
  WithDiv(BaseOf("D2C"), 10), WithDiv(BaseOf("D1C"), 10), WithDiv(BaseOf("D2B"), 10), WithDiv(BaseOf("FLT"), 10),
  WithDiv(BaseOfLen("BCD", 2), 10), WithDiv(BaseOfLen("BCD", 4), 100), WithDiv(BaseOfLen("HCD", 2), 10),
  WithDiv(BaseOf("EXP"), 10), WithDiv(BaseOf("EXP"), -10), WithDiv(BaseOf("EXR"), 100),
  \* ranges (bounds are exact multiples of the resolution)
  WithRange(BaseOf("UCH"), <<49>>, <<53, 48>>),                                             \* 1-50
  WithRange(BaseOf("SCH"), <<45, 51>>, <<45, 49>>),                                         \* -3--1
  WithRange(WithDiv(BaseOf("UIN"), 10), <<48>>, <<49, 48, 48, 46, 53>>),                    \* 0-100.5
  WithRange(BaseOf("FLT"), <<45, 51, 46, 49>>, <<45, 49, 46, 48>>),                         \* -3.1--1.0
  WithRange(BaseOf("D2C"), <<45, 49, 48>>, <<52, 48>>),                                     \* -10-40
  WithRange(BaseOf("ULG"), <<48>>, <<52, 48, 48, 48, 48, 48, 48, 48, 48, 48>>),             \* 0-4000000000
  WithRange(WithDiv(BaseOf("SLG"), 10), <<45, 49, 48, 48, 48, 46, 53>>, <<49, 48, 48, 48, 46, 53>>),  \* -1000.5-1000.5
  WithRange(BaseOf("EXP"), <<48>>, <<48, 46, 53>>),                                         \* 0-0.5
  WithRange(BaseOf("S2B"), <<45, 51, 50, 55, 54, 56>>, <<49, 48>>),                         \* -32768-10
  \* value lists
  WithVals(BaseOf("UCH"), <<KV(0, cOff), KV(1, cOn), KV(254, cMax)>>),
  WithVals(BaseOf("UIN"), <<KV(0, cOff), KV(1, cOn), KV(65534, cMax)>>),
  WithVals(BaseOf("ULG"), <<KV(1, cOn), KV(7, cAuto)>>),
  WithVals(BaseOf("SCH"), <<KV(0, cOff), KV(1, cOn), KV(255, cAuto)>>),
  WithVals(BaseOfLen("BI3", 2), <<KV(0, cOff), KV(1, cOn), KV(3, cAuto)>>),
  WithVals(BaseOfLen("BCD", 1), <<KV(1, cOn), KV(99, cMax)>>),
  \* weekday types: implicit value list of day names
  [BT("BDY", 0, "u", 8, 0, FALSE, FALSE, 1, <<7>>, 0, 6) EXCEPT !.vals = [i \in 1..7 |-> KV(i - 1, DayNames[i])]],
  [BT("HDY", 0, "u", 8, 0, FALSE, FALSE, 1, <<0>>, 1, 7) EXCEPT !.vals = [i \in 1..7 |-> KV(i, DayNames[i])]]
>>

Defs == BaseTypes \o DerivedDefs

ByteLen(d) == IF d.kind = "bit" THEN 1 ELSE d.bits \div 8
DMul(d) == IF d.div < 0 THEN -d.div ELSE 1       \* value = raw * DMul / DDiv
DDiv(d) == IF d.div > 0 THEN d.div ELSE 1

(* raw range in S, from the documentation of the types *)
MinRaw(d) ==
  CASE d.kind = "s" -> IF d.req THEN SMk(TRUE, Pow2(d.bits - 1)) ELSE SMk(TRUE, NSub(Pow2(d.bits - 1), <<1>>))
    [] OTHER -> SInt(d.mn)
MaxRaw(d) ==
  CASE d.kind = "s" -> SNat(NSub(Pow2(d.bits - 1), <<1>>))
    [] d.kind = "u" -> IF d.mx >= 0 THEN SInt(d.mx) ELSE SNat(NSub(Pow2(d.bits), IF d.req THEN <<1>> ELSE <<2>>))
    [] d.kind \in {"bcd", "hcd"} -> SNat(NSub(Pow10(2 * ByteLen(d)), <<1>>))
    [] d.kind = "bit" -> SNat(NSub(Pow2(d.bits), <<1>>))
    [] OTHER -> SZero

(* ------------------------------------------------------------------ raw value of bytes ---- *)
MsbFirst(d, b) == IF d.rev THEN Seq1(b) ELSE Rev(b)
BcdOk(d, b) == \A i \in 1..Len(b) :
                  IF d.kind = "bcd" THEN (b[i] \div 16) <= 9 /\ (b[i] % 16) <= 9 ELSE b[i] <= 99
RawOf(d, b) ==   \* S; for bit types the unmasked content of the byte above the first bit
  LET m == MsbFirst(d, b) IN
  CASE d.kind = "u" -> SNat(NOfBase(m, 256))
    [] d.kind = "s" -> LET u == NOfBase(m, 256) IN
                       IF NCmp(u, Pow2(d.bits - 1)) >= 0 THEN SMk(TRUE, NSub(Pow2(d.bits), u)) ELSE SNat(u)
    [] d.kind = "bcd" -> SNat(NOfBase([i \in 1..Len(m) |-> (m[i] \div 16) * 10 + (m[i] % 16)], 100))
    [] d.kind = "hcd" -> SNat(NOfBase(m, 100))
    [] d.kind = "bit" -> SInt(b[1] \div (2 ^ d.fb))
    [] OTHER -> SZero
BitClean(d, b) == d.kind = "bit" => b[1] % (2 ^ d.fb) = 0

(* ------------------------------------------------------------------ comparisons ----------- *)
(* sign of  raw * DMul / DDiv  -  v   for a parsed decimal v *)
CmpRawDec(d, raw, v) == SCmp(SShift(SMul(raw, DMul(d)), v.sc), SMul(SMk(v.n, v.m), DDiv(d)))
(* | raw * DMul / DDiv - v | <= one resolution step (DMul / DDiv) *)
WithinStep(d, raw, v) ==
  NLeq(SSub(SShift(SMul(raw, DMul(d)), v.sc), SMul(SMk(v.n, v.m), DDiv(d))).m, NShift(NOfInt(DMul(d)), v.sc))

InCfgRange(d, raw) ==
  d.lo = <<>> \/ (CmpRawDec(d, raw, ParseNum(d.lo)) >= 0 /\ CmpRawDec(d, raw, ParseNum(d.hi)) <= 0)

(* IEEE-754 binary32 as an exact decimal: value = (+/-) mant * 2^ex, one step = 2^ex *)
F32(d, b) ==
  LET m == MsbFirst(d, b)
      e == (m[1] % 128) * 2 + (m[2] \div 128)
      sig == (m[2] % 128) * 65536 + m[3] * 256 + m[4]
  IN [neg |-> m[1] >= 128, e |-> e, mant |-> IF e = 0 THEN sig ELSE 8388608 + sig, ex |-> IF e = 0 THEN -149 ELSE e - 150]
(* f * DMul - v * DDiv  scaled to integers; returns <<difference S, tolerance N>> *)
F32Diff(d, f, v) ==
  LET M == DMul(d)  D == DDiv(d)
      k == IF f.ex < 0 THEN -f.ex ELSE 0
      fm == IF f.ex >= 0 THEN NMul(Pow2(f.ex), f.mant) ELSE NMul(Pow5(k), f.mant)
      lhs == SShift(SMul(SMk(f.neg, fm), M), v.sc)
      rhs == SShift(SMul(SMk(v.n, v.m), D), k)
      tol == NShift(NMul(IF f.ex >= 0 THEN Pow2(f.ex) ELSE Pow5(k), M), v.sc)
  IN <<SSub(lhs, rhs), tol>>
F32WithinStep(d, f, v) == LET x == F32Diff(d, f, v) IN NLeq(x[1].m, x[2])
F32Cmp(d, f, v) == LET x == F32Diff(d, f, v)[1] IN IF x.m = <<>> THEN 0 ELSE IF x.n THEN -1 ELSE 1

(* ------------------------------------------------------------------ the oracle ------------ *)
NameKeys(d, t) == {d.vals[i].k : i \in {j \in 1..Len(d.vals) : d.vals[j].nm = t}}
Keys(d) == {d.vals[i].k : i \in 1..Len(d.vals)}
UnsignedKey(d, raw) ==   \* value list keys are the unsigned raw patterns
  IF raw.n THEN SAdd(raw, SNat(Pow2(d.bits))) ELSE raw

(* Why(d, r) = "" if the record is acceptable, otherwise the clause that fails *)
Why(d, r) ==
  IF r.rc # 0 THEN ""                                       \* rejected input: nothing demanded
  ELSE IF Len(r.b) # ByteLen(d) THEN "length"
  ELSE LET t == Seq1(r.t)  b == Seq1(r.b)  p == ParseNum(t)  nk == NameKeys(d, t) IN
  IF nk # {} THEN (IF d.kind # "exp" /\ UnsignedKey(d, RawOf(d, b)) \in {SInt(k) : k \in nk} /\ BitClean(d, b) THEN "" ELSE "name")
  ELSE IF ~p.ok THEN "malformed"
  \* null text: the replacement pattern; for a type without one it is tolerated only if what was written reads
  \* back as null again (value lists over such types use an unlisted 0 as "no value")
  ELSE IF p.null THEN (IF (d.repl # <<>> /\ MsbFirst(d, b) = d.repl) \/ (d.repl = <<>> /\ r.drc = 0 /\ r.dt = <<45>>) THEN "" ELSE "null")
  ELSE IF d.repl # <<>> /\ MsbFirst(d, b) = d.repl THEN "replacement"
  ELSE IF r.drc # 0 \/ r.dt = <<45>> THEN "decode"            \* what was written must decode to a value
  ELSE IF p.huge THEN "range"
  ELSE IF d.kind = "exp" THEN
       LET f == F32(d, b) IN
       IF f.e = 255 THEN "range"
       ELSE IF d.lo # <<>> /\ ~(F32Cmp(d, f, ParseNum(d.lo)) >= 0 /\ F32Cmp(d, f, ParseNum(d.hi)) <= 0) THEN "cfg-range"
       ELSE IF ~F32WithinStep(d, f, p) THEN "step" ELSE ""
  ELSE IF ~BcdOk(d, b) /\ d.kind \in {"bcd", "hcd"} THEN "invalid-bcd"
  ELSE LET raw == RawOf(d, b) IN
       IF ~BitClean(d, b) \/ ~(SLeq(MinRaw(d), raw) /\ SLeq(raw, MaxRaw(d))) THEN "range"
       ELSE IF ~InCfgRange(d, raw) THEN "cfg-range"
       ELSE IF d.vals # <<>> /\ UnsignedKey(d, raw) \notin {SInt(k) : k \in Keys(d)} THEN "not-in-list"
       \* a number given for a value-list field denotes the key, i.e. the unsigned raw pattern
       ELSE IF ~WithinStep(d, IF d.vals # <<>> THEN UnsignedKey(d, raw) ELSE raw, p) THEN "step" ELSE ""

WriteSafe(d, r) == Why(d, r) = ""

(* ------------------------------------------------------------------ text domain ----------- *)
Ks == {7, 8, 15, 16, 23, 24, 31, 32, 63, 64}

(* decimal text of (+/-) mag * 10^-sc without redundant zeros *)
DecText(neg, mag, sc) ==
  LET d0 == MsbOf(mag)
      d == IF Len(d0) <= sc THEN [i \in 1..(sc + 1 - Len(d0)) |-> 0] \o d0 ELSE d0
      ip == SubSeq(d, 1, Len(d) - sc)
      fp0 == SubSeq(d, Len(d) - sc + 1, Len(d))
      fp == Trim(fp0)                                        \* drop trailing zeros of the fraction
      c(s) == [i \in 1..Len(s) |-> s[i] + 48]
  IN (IF neg /\ mag # <<>> THEN <<45>> ELSE <<>>) \o c(ip) \o (IF fp = <<>> THEN <<>> ELSE <<46>> \o c(fp))

(* k with 10^k divisible by D (D = 2^a 5^b, D <= 10^9) and the cofactor *)
TenExp(D) == MinOf({k \in 0..9 : (10 ^ k) % D = 0})
(* exact decimal text of raw * DMul / DDiv  (optionally with extra scale s: the same digits / 10^s) *)
ValDec(d, raw, s) == LET k == TenExp(DDiv(d)) IN
  [n |-> raw.n, m |-> NMul(NMul(raw.m, DMul(d)), (10 ^ k) \div DDiv(d)), sc |-> k + s]
ValText(d, raw) == LET v == ValDec(d, raw, 0) IN DecText(v.n, v.m, v.sc)

HasDot(t) == \E i \in 1..Len(t) : t[i] = 46
Signed(t) == t # <<>> /\ t[1] = 45
Unsign(t) == IF Signed(t) THEN Tail(t) ELSE t
HexText(neg, mag) == LET h == HexOf(mag) IN
  (IF neg THEN <<45>> ELSE <<>>) \o <<48, 120>> \o [i \in 1..Len(h) |-> IF h[i] < 10 THEN 48 + h[i] ELSE 87 + h[i]]

(* the spellings of one value; "full" adds the less common ones *)
Forms(d, raw, full) ==
  LET t == ValText(d, raw)
      sg == IF Signed(t) THEN <<45>> ELSE <<>>
      u == Unsign(t)
      v == ValDec(d, raw, 0)
      x2 == SAdd(SMul(raw, 2), SInt(1))                         \* raw + 1/2 step = (2 raw + 1) / 2
      half == IF ~\E k \in 0..9 : (10 ^ k) % (2 * DDiv(d)) = 0 THEN t ELSE
              LET k == TenExp(2 * DDiv(d)) IN
              DecText(x2.n, NMul(NMul(x2.m, DMul(d)), (10 ^ k) \div (2 * DDiv(d))), k)
      e1 == DecText(v.n, v.m, v.sc + 1) \o <<101, 49>>          \* same value written as x.y e1
      intval == ~HasDot(t)
  IN {t, sg \o <<48, 48>> \o u, t \o (IF HasDot(t) THEN <<48>> ELSE <<46, 48>>), e1, half}
     \cup (IF intval THEN {HexText(Signed(t), NOfMsb([i \in 1..Len(u) |-> u[i] - 48])), t \o <<46, 53>>, t \o <<46, 120>>,
                           t \o <<46, 48, 101, 50>>} ELSE {t \o <<53>>})
     \cup (IF full THEN {t \o <<120>>, <<32>> \o t, t \o <<32>>, t \o <<101, 48>>, t \o <<69, 43, 48, 48>>, sg \o <<48>> \o u,
                         <<32, 9>> \o t \o <<46>>}
                        \cup (IF ~Signed(t) THEN {<<43>> \o t} ELSE {})
                   ELSE {})

Specials == {
  <<>>, <<45>>, <<43>>, <<32>>, <<32, 45>>, <<45, 45, 49>>, <<43, 45, 49>>, <<45, 43, 49>>, <<46>>, <<45, 46>>, <<101, 53>>, <<49, 101>>, <<49, 101, 43>>,
  <<48, 120>>, <<48, 120, 103>>, <<120>>, <<49, 44, 53>>, <<49, 32, 50>>, <<49, 95, 48>>, <<49, 101, 49, 46, 53>>,
  <<49, 46, 46, 50>>, <<49, 46, 50, 46, 51>>, <<48, 98, 49>>, <<49, 102>>, <<49, 76>>, <<49, 48, 37>>,
  <<110, 97, 110>>, <<78, 97, 78>>, <<45, 110, 97, 110>>, <<105, 110, 102>>, <<45, 105, 110, 102>>, <<43, 105, 110, 102>>,
  <<105, 110, 102, 105, 110, 105, 116, 121>>, <<73, 78, 70>>, <<110, 97, 110, 40, 49, 41>>,
  <<49, 101, 57, 57, 57>>, <<45, 49, 101, 57, 57, 57>>, <<49, 101, 45, 57, 57, 57>>, <<49, 101, 52, 48, 48>>, <<48, 101, 57, 57, 57>>,
  <<49, 101, 51, 57>>, <<45, 49, 101, 51, 57>>, <<51, 46, 53, 101, 51, 56>>, <<49, 101, 45, 52, 54>>, <<49, 101, 50, 48>>,
  <<48>>, <<45, 48>>, <<48, 46, 48>>, <<48, 48>>, <<48, 49, 48>>, <<48, 49, 55>>, <<48, 56>>, <<45, 48, 49, 48>>, <<48, 49, 48, 48>>,
  <<48, 46, 52>>, <<48, 46, 53>>, <<48, 46, 57>>, <<45, 48, 46, 53>>, <<45, 48, 46, 57>>, <<49, 46, 53>>, <<46, 53>>, <<53, 46>>,
  <<49, 46, 48, 101, 50>>, <<49, 46, 57, 101, 51>>, <<49, 46, 120>>, <<49, 46, 32>>, <<49, 46, 45>>,
  cOn, cOff, cMax, cAuto, <<79, 110>>, <<111>>, <<111, 110, 120>>, <<32, 111, 110>>, <<111, 110, 32>>, <<102, 111, 111>>,
  DayNames[1], DayNames[7], <<109, 111, 110>>, <<77, 111>>
}

(* boundary raw values (S) of a definition *)
PM(S0) == S0 \cup {SNeg(x) : x \in S0}
Around(a) == {SNat(NSub(a, <<1>>)), SNat(a), SNat(NAdd(a, <<1>>))}
KsOf(d, thorough) == IF thorough THEN Ks ELSE (Ks \cap {d.bits - 1, d.bits, 31, 32, 63, 64})
TypeBounds(d) ==
  LET mn == MinRaw(d)  mx == MaxRaw(d)  one == SInt(1)
      cfg == IF d.lo = <<>> \/ d.kind = "exp" THEN {}
             ELSE LET lo == ParseNum(d.lo)  hi == ParseNum(d.hi)
                      \* raw of a configured bound: bound * DDiv / DMul (exact by choice of the bounds)
                      rw(v) == SMk(v.n, NDiv(NDiv(NMul(v.m, DDiv(d)), DMul(d)), 10 ^ v.sc))
                  IN {SSub(rw(lo), one), rw(lo), SAdd(rw(hi), one), rw(hi)}
      keys == UNION {{SInt(k), SInt(k + 1)} : k \in Keys(d)}
      repl == IF d.repl = <<>> \/ d.kind = "exp" THEN {} ELSE {RawOf([d EXCEPT !.rev = TRUE], d.repl)}
  IN IF d.kind = "exp" THEN PM({SInt(1), SInt(3), SInt(16777217), SNat(Pow2(32)), SNat(NAdd(Pow2(64), <<1>>)), SNat(Pow2(127))}) \cup {SZero}
     ELSE {SSub(mn, one), mn, SAdd(mn, one), SSub(mx, one), mx, SAdd(mx, one), SZero, one, SInt(-1), SInt(2), SInt(10)}
          \cup cfg \cup keys \cup repl
PowBounds(d, thorough) == PM(UNION {Around(Pow2(k)) : k \in KsOf(d, thorough)})
BigBounds == PM({SNat(Pow10(24)), SNat(NSub(Pow10(25), <<1>>)), SNat(NAdd(Pow2(80), <<1>>)), SNat(NAdd(Pow2(64), NAdd(Pow2(32), <<1>>)))})
(* value-unit integers next to the powers (for definitions with a divisor: raw = value * DDiv / DMul) *)
ValueUnitTexts(d, thorough) ==
  IF d.div = 1 THEN {}
  ELSE UNION {{DecText(x.n, x.m, 0), DecText(x.n, x.m, 0) \o <<46, 53>>} : x \in PM(UNION {Around(Pow2(k)) : k \in KsOf(d, thorough)})}

TextsOf(d, thorough) ==
  Specials
  \cup UNION {Forms(d, x, TRUE) : x \in TypeBounds(d)}
  \cup UNION {Forms(d, x, thorough) : x \in PowBounds(d, thorough)}
  \cup UNION {Forms(d, x, FALSE) : x \in BigBounds}
  \cup ValueUnitTexts(d, thorough)

(* seeded pseudo-random digit strings (thorough tier): linear congruential generator modulo 65537 *)
RECURSIVE Lcg(_, _)
Lcg(x, n) == IF n = 0 THEN <<>> ELSE LET y == (x * 75 + 74) % 65537 IN <<y>> \o Lcg(y, n - 1)
RandText(seed) ==
  LET r == Lcg(seed % 65537, 30)
      len == 1 + (r[1] % 25)
      neg == r[2] % 3 = 0
      dot == IF r[3] % 2 = 0 THEN 0 ELSE 1 + (r[3] % len)        \* position of a decimal point (0: none)
      digs == [i \in 1..len |-> 48 + (r[4 + i] % 10)]
  IN (IF neg THEN <<45>> ELSE <<>>) \o
     (IF dot = 0 \/ dot >= len THEN digs ELSE SubSeq(digs, 1, dot) \o <<46>> \o SubSeq(digs, dot + 1, len))
RandTexts(seed, n) == {RandText(seed * 1000 + i) : i \in 1..n}

(* ------------------------------------------------------------------ self tests ------------ *)
PV(t) == LET p == ParseNum(t) IN IF ~p.ok THEN "bad" ELSE IF p.null THEN "null" ELSE <<p.n, MsbOf(p.m), p.sc>>
WriteSafeLemmas ==
  /\ PV(<<49, 50, 46, 53>>) = <<FALSE, <<1, 2, 5>>, 1>>                     \* 12.5
  /\ PV(<<32, 45, 48, 120, 49, 70>>) = <<TRUE, <<3, 1>>, 0>>                \* " -0x1F"
  /\ PV(<<49, 46, 48, 101, 50>>) = <<FALSE, <<1, 0, 0>>, 0>>                \* 1.0e2
  /\ PV(<<49, 50, 101, 45, 49>>) = <<FALSE, <<1, 2>>, 1>>                   \* 12e-1
  /\ PV(<<46, 53>>) = <<FALSE, <<5>>, 1>> /\ PV(<<53, 46>>) = <<FALSE, <<5>>, 0>>
  /\ PV(<<45, 48>>) = <<FALSE, <<0>>, 0>> /\ PV(<<48, 49, 48>>) = <<FALSE, <<1, 0>>, 0>>   \* -0, 010 (decimal)
  /\ PV(<<45>>) = "null" /\ PV(<<32, 45, 32>>) = "null"
  /\ \A t \in {<<>>, <<43>>, <<46>>, <<49, 101>>, <<48, 120>>, <<49, 46, 120>>, <<110, 97, 110>>, <<105, 110, 102>>,
               <<49, 32, 50>>, <<45, 45, 49>>, <<49, 46, 50, 46, 51>>, <<49, 120>>, <<101, 53>>, <<49, 101, 49, 46, 53>>} : PV(t) = "bad"
  /\ DecText(TRUE, NOfInt(32768), 3) = <<45, 51, 50, 46, 55, 54, 56>>       \* -32.768
  /\ DecText(FALSE, NOfInt(5), 3) = <<48, 46, 48, 48, 53>> /\ DecText(FALSE, NOfInt(1500), 2) = <<49, 53>>
  /\ ValText(BaseOf("D2C"), SInt(-32767)) = <<45, 50, 48, 52, 55, 46, 57, 51, 55, 53>>     \* -2047.9375
  /\ ValText(WithDiv(BaseOf("UCH"), -10), SInt(25)) = <<50, 53, 48>>
  /\ RawOf(BaseOf("UIN"), <<1, 2>>) = SInt(513) /\ RawOf(BaseOf("UIR"), <<1, 2>>) = SInt(258)
  /\ RawOf(BaseOf("SIN"), <<255, 255>>) = SInt(-1) /\ RawOf(BaseOf("SCH"), <<128>>) = SInt(-128)
  /\ RawOf(BaseOfLen("BCD", 2), <<52, 18>>) = SInt(1234) /\ RawOf(BaseOf("PIN"), <<18, 52>>) = SInt(1234)
  /\ RawOf(BaseOfLen("HCD", 2), <<34, 12>>) = SInt(1234)
  /\ RawOf(BaseOfLen("BI3", 2), <<24>>) = SInt(3)
  /\ MsbOf(MaxRaw(BaseOf("ULG")).m) = <<4, 2, 9, 4, 9, 6, 7, 2, 9, 4>> /\ MinRaw(BaseOf("SCH")) = SInt(-127) /\ MinRaw(BaseOf("S1L")) = SInt(-128)
  /\ MaxRaw(BaseOf("D1C")) = SInt(200) /\ MaxRaw(BaseOfLen("BCD", 2)) = SInt(9999) /\ MaxRaw(BaseOfLen("BI3", 2)) = SInt(3)
  \* the oracle accepts the documented good cases and rejects the classical wraps (vacuity control)
  /\ WriteSafe(BaseOf("UIN"), [rc |-> 0, t |-> <<51, 48, 48>>, b |-> <<44, 1>>, drc |-> 0, dt |-> <<51, 48, 48>>])
  /\ Why(BaseOf("UIN"), [rc |-> 0, t |-> <<52, 50, 57, 52, 57, 54, 55, 50, 57, 55>>, b |-> <<1, 0>>, drc |-> 0, dt |-> <<49>>]) = "step"
  /\ Why(BaseOf("ULG"), [rc |-> 0, t |-> <<45, 53>>, b |-> <<251, 255, 255, 255>>, drc |-> 0, dt |-> <<49>>]) = "step"
  /\ Why(BaseOf("UCH"), [rc |-> 0, t |-> <<50, 53, 53>>, b |-> <<255>>, drc |-> 0, dt |-> <<45>>]) = "replacement"
  /\ Why(BaseOf("UCH"), [rc |-> 0, t |-> <<49, 46, 120>>, b |-> <<1>>, drc |-> 0, dt |-> <<49>>]) = "malformed"
  /\ Why(BaseOf("D1C"), [rc |-> 0, t |-> <<49, 48, 48, 46, 53>>, b |-> <<201>>, drc |-> 0, dt |-> <<49>>]) = "range"
  /\ WriteSafe(BaseOf("D1C"), [rc |-> 0, t |-> <<49, 50, 46, 53>>, b |-> <<25>>, drc |-> 0, dt |-> <<49>>])
  /\ WriteSafe(BaseOf("D1C"), [rc |-> 0, t |-> <<49, 50, 46, 55>>, b |-> <<25>>, drc |-> 0, dt |-> <<49>>])   \* within one step
  /\ Why(BaseOf("D1C"), [rc |-> 0, t |-> <<49, 51, 46, 50>>, b |-> <<25>>, drc |-> 0, dt |-> <<49>>]) = "step"
  /\ WriteSafe(BaseOf("UCH"), [rc |-> 0, t |-> <<45>>, b |-> <<255>>, drc |-> 0, dt |-> <<45>>])
  /\ Why(BaseOf("U1L"), [rc |-> 0, t |-> <<45>>, b |-> <<0>>, drc |-> 0, dt |-> <<48>>]) = "null"
  /\ WriteSafe(BaseOfLen("BI3", 2), [rc |-> 0, t |-> <<45>>, b |-> <<0>>, drc |-> 0, dt |-> <<45>>])
  /\ WriteSafe(BaseOf("EXP"), [rc |-> 0, t |-> <<49, 46, 53>>, b |-> <<0, 0, 192, 63>>, drc |-> 0, dt |-> <<49>>])   \* 1.5 = 3fc00000
  /\ WriteSafe(BaseOf("EXP"), [rc |-> 0, t |-> <<48, 46, 49>>, b |-> <<205, 204, 204, 61>>, drc |-> 0, dt |-> <<49>>]) \* 0.1 ~ 3dcccccd
  /\ Why(BaseOf("EXP"), [rc |-> 0, t |-> <<48, 46, 49>>, b |-> <<207, 204, 204, 61>>, drc |-> 0, dt |-> <<49>>]) = "step"
  /\ Why(BaseOf("EXP"), [rc |-> 0, t |-> <<49, 101, 51, 57>>, b |-> <<0, 0, 128, 127>>, drc |-> 0, dt |-> <<49>>]) = "range"
  /\ WriteSafe(BaseOf("UCH"), [rc |-> -9, t |-> <<120>>, b |-> <<>>, drc |-> -7, dt |-> <<>>])
=============================================================================
