------------------------------ MODULE C10Judge ------------------------------
(* Implementation -> specification: judges the records harness/c10_layout.cpp wrote about    *)
(* what the real DataField/DataFieldSet did with every field sequence, against P (= Own).    *)
(* Per record: k, p = the sequence; own = the admissible map the harness worked with (na =     *)
(* number of admissible maps); cr = create result; glf/glx/g31 = getLength(part, max)   *)
(* for max = fixed span / data length / 31, as <<master, slave>>; wr/wl/wn = write result,   *)
(* usedLength, bytes produced; enc[i] = <<byte, mask>> pairs of the bits that changed in the *)
(* encoded data when only the value of field i changed; sens[i] = pairs of the bits whose    *)
(* flip changed result or text of decoding field i in any output format; cm = whole decode   *)
(* differing from the join of the per-field decodes (cmf = first such field); am = field alone on its own bytes       *)
(* differing from the field inside the set; rt = decode(encode(v)) # v; be = constructed     *)
(* valid data not decodable; xe = encoding a field changed the other part; le = encoding     *)
(* another value changed a length; nv[i] = number of distinct values field i was given.      *)
EXTENDS C10Domain, Json, IOUtils

VarN == 2

Recs == ndJsonDeserialize(IOEnv.VF_RECS)
N == Len(Recs)
K == 64
VARIABLE i
Init == i = 0
Next == \/ /\ i = 0 /\ i' \in {1 + K * s : s \in 0..((N - 1) \div K)}
        \/ /\ i > 0 /\ i % K # 0 /\ i < N /\ i' = i + 1

PI(p) == IF p = "m" THEN 1 ELSE 2
FsOf(r) == [j \in 1..Len(r.k) |-> [k |-> r.k[j], p |-> r.p[j]]]
PairsOf(pos) == [j \in 1..pos.n |-> <<pos.b + j - 1, Mask(pos.bits)>>]
Within(ps, pos) == \A x \in 1..Len(ps) : ps[x][1] \in pos.b..(pos.b + pos.n - 1) /\ BitsOf(ps[x][2]) \subseteq pos.bits
Touched(ps) == {ps[x][1] : x \in 1..Len(ps)}

Triples(run) == [x \in 1..Len(run.own) |-> <<run.own[x].b, run.own[x].n, Mask(run.own[x].bits)>>]
InDomain(fs) ==
  /\ Len(fs) >= 1 /\ \A j \in 1..Len(fs) : fs[j].k \in 1..NK /\ fs[j].p \in Parts
  /\ \A run \in PRuns(fs, VarN) : run.ok
  /\ InShape(fs)
(* the admissible map the harness worked with (it takes the one whose length the real write produced, *)
(* else the first): all checks are made against this one map, so getLength, read and write have to    *)
(* agree on one admissible placement                                                                  *)
HasRun(r) == \E run \in PRuns(FsOf(r), VarN) : Triples(run) = r.own
RunOf(r) == CHOOSE run \in PRuns(FsOf(r), VarN) : Triples(run) = r.own

(* what encoding may / must touch, given the positions pos a field has *)
EncOk(ps, k, pos) ==
  IF k.ign THEN ps = <<>>
  ELSE /\ Within(ps, pos)                                    \* encoding changes only owned bits
       /\ IF k.exact THEN ps = PairsOf(pos)                   \* ... and reaches all of them
          ELSE Touched(ps) = pos.b..(pos.b + pos.n - 1)
(* the bits decoding depends on are exactly the owned ones (none for an ignored field) *)
SensOk(ps, k, pos) == IF k.ign THEN ps = <<>> ELSE ps = PairsOf(pos)

(* ----------------------------------------- P ----------------------------------------- *)
Checks(r) ==
  LET fs == FsOf(r) IN
  IF r.cr # 0 \/ ~InDomain(fs) \/ ~HasRun(r)
  THEN << <<"domain", InDomain(fs) /\ (r.cr # 0 \/ HasRun(r))>>, <<"create", r.cr = 0>> >>
  ELSE LET run == RunOf(r)
           L(q) == PLength(run, q)
           Fx(q) == PFixedOf(run, q, VarN)
       IN <<
       <<"getLength", \A q \in Parts :
            /\ r.glf[PI(q)] = Fx(q)
            /\ IF run.st[q].closed THEN r.glx[PI(q)] \in Fx(q)..L(q) /\ r.g31[PI(q)] \in Fx(q)..31
               ELSE r.glx[PI(q)] = L(q) /\ r.g31[PI(q)] = L(q)>>,
       <<"writeLength", \A q \in Parts : r.wr[PI(q)] = 0 /\ r.wl[PI(q)] = L(q) /\ r.wn[PI(q)] = L(q)>>,
       <<"values", \A j \in 1..Len(fs) : Kinds[fs[j].k].ign \/ r.nv[j] >= 2>>,
       <<"encodeOwnBits", r.xe = 0 /\ r.le = 0 /\ \A j \in 1..Len(fs) : EncOk(r.enc[j], Kinds[fs[j].k], POwnPos(run.own[j]))>>,
       <<"decodeOwnBits", \A j \in 1..Len(fs) : SensOk(r.sens[j], Kinds[fs[j].k], POwnPos(run.own[j]))>>,
       <<"decodable", r.be = 0>>,
       <<"composition", r.cm = 0>>,
       <<"alone", r.am = 0>>,
       <<"roundTrip", r.rt = 0>> >>

Ok(r) == LET c == Checks(r) IN \A x \in 1..Len(c) : c[x][2]
FirstBad(r) == LET c == Checks(r) IN c[CHOOSE x \in 1..Len(c) : ~c[x][2] /\ \A y \in 1..(x - 1) : c[y][2]][1]

(* ----------------------------------------- S ----------------------------------------- *)
(* does the record show exactly what the transcription of the code predicts? (drift detection, *)
(* and naming the input class of a rejected record)                                            *)
SMatches(r) ==
  LET fs == FsOf(r)
      run == RunOf(r)
  IN r.cr = 0 /\ HasRun(r) /\ \A q \in Parts :
       LET size == PLength(run, q)
           fixed == PFixedOf(run, q, VarN)
           rr == SReadRun(fs, q, size)
           ww == SWriteRun(fs, q, VarN)
       IN /\ r.g31[PI(q)] = SGetLength(fs, q, 31)
          /\ r.glf[PI(q)] = SGetLength(fs, q, fixed)
          /\ r.glx[PI(q)] = SGetLength(fs, q, size)
          /\ r.wl[PI(q)] = ww.st.off /\ r.wn[PI(q)] = ww.st.off
          /\ \A j \in 1..Len(fs) : fs[j].p = q =>
               /\ EncOk(r.enc[j], Kinds[fs[j].k], ww.pos[j])
               \* (the data the harness flips bits in is built for the chosen map: where the code's layout differs
               \* the field may see undecodable data, so only a subset of the bits it reads shows up)
               /\ IF rr.pos[j] = NoPos \/ Kinds[fs[j].k].ign THEN r.sens[j] = <<>> ELSE Within(r.sens[j], rr.pos[j])

(* input class of a rejected record: the first failing check, and for a composition failure the  *)
(* type of the field whose text differs between whole-message and per-field decoding             *)
Sig(r) == <<FirstBad(r), IF FirstBad(r) = "composition" /\ r.cmf \in 1..Len(r.k) THEN Kinds[r.k[r.cmf]].t ELSE "">>
Judge == \/ i = 0
         \/ Ok(Recs[i]) /\ (SMatches(Recs[i]) \/ PrintT(<<"VF", "DRIFT", i>>))
         \/ ~PrintT(<<"VF", "BAD", i, Sig(Recs[i])>>)

(* the shard holds consecutive case ids, each sequence once (python checks the shards cover 1..#cases *)
(* and that #cases = number of sequences TLC enumerated from the domain definition in C10Cases)       *)
ASSUME \A j \in 1..N : Recs[j].id = Recs[1].id + j - 1
ASSUME Cardinality({<<Recs[j].k, Recs[j].p>> : j \in 1..N}) = N
=============================================================================
