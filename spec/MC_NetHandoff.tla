---------------------------- MODULE MC_NetHandoff ----------------------------
(* S => P for the hand-off between connection threads and the main loop:       *)
(* TLC explores every interleaving of the client, connection and main loop     *)
(* steps of NetHandoff!S for 2 connections x 2 request lines (each chosen from *)
(* a small alphabet) with the P monitor running on the observable events.      *)
(*   McOk        the monitor accepts every event (order, ownership, exactly    *)
(*               one block per line, update lines only while listening, eof    *)
(*               only behind quit)                                             *)
(*   McNoDangle  neither the queue nor the main loop ever refers to a          *)
(*               RequestImpl whose connection thread has ended                 *)
(*   McLive      under weak fairness of every thread: eventually every line of *)
(*               a still open connection is answered (FairSpec)                *)
(*   McDown      once the daemon is told to stop, the shutdown completes       *)
EXTENDS NetHandoff

CONSTANTS Variant, Bug

Alph1 == CASE Variant = "small" -> << {<<"fread", 7>>}, {<<"cread", 7>>, <<"listen", 0>>} >>
           [] Variant = "down" -> << {<<"fread", 7>>}, {<<"bogus", 1>>} >>
           [] OTHER -> << {<<"fread", 7>>, <<"listen", 0>>, <<"bogus", 1>>}, {<<"cread", 7>>, <<"lstop", 0>>, <<"find", 4>>, <<"empty", 0>>} >>
Alph2 == CASE Variant = "small" -> << {<<"fread", 7>>}, {<<"quit", 0>>, <<"find", 4>>} >>
           [] Variant = "down" -> << {<<"fread", 7>>}, {<<"find", 4>>} >>
           [] OTHER -> << {<<"fread", 7>>, <<"cread", 7>>, <<"quit", 0>>}, {<<"fread", 7>>, <<"find", 4>>, <<"quit", 0>>} >>

G == [prog |-> <<Alph1, Alph2>>,
      split |-> Variant \in {"full", "small", "close", "spurious"},
      multi |-> Variant = "multi",
      pipe |-> Variant \in {"pipe", "multi", "tcpmerge"},
      tcpmerge |-> Variant = "tcpmerge",
      aclose |-> Variant \in {"close", "spurious"},
      spurious |-> Variant = "spurious",
      shutdown |-> Variant = "down",
      listenpoll |-> Variant \in {"full", "small", "close"},
      bug |-> Bug]

VARIABLES st, mon
vars == <<st, mon>>
MonInit == [p |-> PInit([t \in Tags |-> 0], [t \in Tags |-> -1]), err |-> ""]
Init == st = SInit /\ mon = MonInit

Take1(steps) == \E x \in steps : st' = x.s /\ mon' = MonRun(mon, x.ev)
Client(c) == Take1(ClientSteps(G, st, c))
Conn(c) == Take1(ConnSteps(G, st, c))
Main == Take1(MainSteps(G, st))
Down == Take1(Signal(G, st) \cup NetDtor(G, st))
Next == (\E c \in MCC : Client(c) \/ Conn(c)) \/ Main \/ Down

Spec == Init /\ [][Next]_vars
(* fairness: every server thread keeps running, a client keeps reading; nobody is obliged to send or to close *)
ClientRead(c) == Take1(ClientRecv(st, c) \cup ClientEof(st, c))
FairSpec == Spec /\ WF_vars(Main) /\ WF_vars(Down) /\ (\A c \in MCC : WF_vars(Conn(c)) /\ WF_vars(ClientRead(c)))

McOk == mon.err = ""
McNoDangle == NoDangling(st)
McLive == <>[](\A c \in MCC : mon.p.cst[c] # "open" \/ mon.p.out[c] = <<>>)
McDown == (st.sd # "run") ~> (st.sd = "done")
=============================================================================
