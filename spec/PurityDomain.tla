---------------------------- MODULE PurityDomain ----------------------------
(* Domain completeness of a C12 run (all records at once): the histories replayed are exactly  *)
(* Histories(L, deep) of Purity and every permutation of every load set was loaded.            *)
EXTENDS Purity, Json, IOUtils

Hist == ndJsonDeserialize(IOEnv.VF_HISTRECS)
Loads == ndJsonDeserialize(IOEnv.VF_LOADRECS)
Deep == IOEnv.VF_TIER = "thorough"
L == 3

ASSUME \A k \in 1..Len(Hist) : IsHistory(Hist[k].h, L, Deep)
ASSUME Cardinality({Hist[k].h : k \in 1..Len(Hist)}) = NumHistories(L, Deep)
ASSUME Len(Hist) = NumHistories(L, Deep)
ASSUME \A s \in 1..Len(LoadSets) :
          LET P == {Loads[k].perm : k \in {j \in 1..Len(Loads) : Loads[j].set = s}} IN
          /\ P = {[j \in 1..Len(LoadSets[s].lines) |-> p[j]] : p \in Perms(Len(LoadSets[s].lines))}
          /\ Cardinality({j \in 1..Len(Loads) : Loads[j].set = s}) = Cardinality(P)
ASSUME \A k \in 1..Len(Loads) : Loads[k].op = LoadOp(Loads[k].set)
ASSUME PrintT(<<"VF", "DOMAIN", Len(Hist), Len(Loads)>>)

VARIABLE domDone
Init == domDone = 0
Next == domDone' = domDone
=============================================================================
