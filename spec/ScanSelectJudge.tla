------------------------------ MODULE ScanSelectJudge ------------------------------
(* Judges the records harness/scan_select.cpp wrote from the real ScanHelper / MessageMap against ScanSelect:           *)
(*   sel  both runs (directory listed in ascending / descending name order) must end in an outcome P admits             *)
(*   fn   the file-name reader must read a name of the convention the way ParseName does                                *)
(*   pm   the MASTER/SLAVE reader must accept / reject / deliver what ParseMsg says                                     *)
(* and checks the lemmas about P (LemmasOn) on every world it meets - these involve no code; a failing lemma is a       *)
(* failure of the specification ("LEMMA" line), never a verdict about the code.                                          *)
(* VF_FAMILY: all (the complete domain in one file) | replay (any file).                                                 *)
EXTENDS ScanSelectDomain, TLC, Json, IOUtils

Thorough == IOEnv.VF_TIER = "thorough"
Family == IOEnv.VF_FAMILY
Recs == ndJsonDeserialize(IOEnv.VF_RECS)
N == Len(Recs)
K == 32
VARIABLE ssj_pos
Init == ssj_pos = 0
Next == \/ /\ ssj_pos = 0 /\ ssj_pos' \in {1 + K * s : s \in 0..((N - 1) \div K)}
        \/ /\ ssj_pos > 0 /\ (ssj_pos % K) # 0 /\ ssj_pos < N /\ ssj_pos' = ssj_pos + 1

OKV == <<"ok", 0>>
WorldOf(r) == [addr |-> r.addr, has |-> r.has, sl |-> r.sl, ents |-> r.ents]
SetOf(s) == {s[k] : k \in 1..Len(s)}

(* what the harness wrote into entry number k: a self-contained definition (kind 0) or one that takes circuit and      *)
(* destination from the defaults of the file name (kind 2)                                                              *)
MsgName(k) == <<109>> \o DecText(k)                                             \* "m<k>"
ExpMsgs(w, loaded) ==
  {<< <<120>> \o DecText(k), MsgName(k), 82>> : k \in {j \in 1..Len(w.ents) : w.ents[j][2] = 0 /\ w.ents[j][1] \in loaded}}
  \cup {<<DefaultCircuit(BaseOf(w.ents[k][1])), MsgName(k), ParseName(BaseOf(w.ents[k][1])).zz>> :
          k \in {j \in 1..Len(w.ents) : w.ents[j][2] = 2 /\ w.ents[j][1] \in loaded}}
DefaultsDecided(w, loaded) == \A k \in 1..Len(w.ents) :
  (w.ents[k][2] = 2 /\ w.ents[k][1] \in loaded) => ParseName(BaseOf(w.ents[k][1])).conv = "yes"

RunVerdict(w, e, x) ==
  IF x.rc # 0 THEN
    IF ~e.none THEN <<"S-nothing-chosen", Cardinality(e.must)>>
    ELSE IF x.set = 1 THEN <<"S-output-touched", 0>>
    ELSE IF e.maybe # {} THEN <<"open", 1>>
    ELSE OKV
  ELSE
    LET hit == {c \in e.cands : RelFile(w, c) = x.file} IN
    IF x.set = 0 THEN <<"S-no-output", 0>>
    ELSE IF hit = {} THEN <<"S-not-a-candidate", 0>>
    ELSE LET c == CHOOSE c \in hit : TRUE
             loaded == SetOf(x.loaded)
         IN IF c \notin e.maybe THEN <<"S-not-matching", 0>>
            ELSE IF c \in e.byId THEN <<"S-shorter-ident-chosen", 0>>
            ELSE IF c \in e.byVer THEN <<"S-less-specific-version-chosen", 0>>
            ELSE IF loaded # {x.file} \cup CommonFiles(w) THEN <<"S-common-files", Cardinality(loaded)>>
            ELSE IF DefaultsDecided(w, loaded) /\ SetOf(x.msgs) # ExpMsgs(w, loaded) THEN <<"S-defaults", Len(x.msgs)>>
            ELSE IF Cardinality(e.adm) > 1 \/ c \notin e.must \/ ~DefaultsDecided(w, loaded) THEN <<"open", 2>>
            ELSE OKV

SelVerdict(r) ==
  LET w == WorldOf(r)
      e == Eval(w)
      v1 == RunVerdict(w, e, r.r[1])
      v2 == RunVerdict(w, e, r.r[2])
  IN IF ~LemmasOn(w) THEN <<"LEMMA", 0>>
     ELSE IF v1[1] \notin {"ok", "open"} THEN v1
     ELSE IF v2[1] \notin {"ok", "open"} THEN v2
     ELSE IF r.r[1].rc # r.r[2].rc \/ r.r[1].file # r.r[2].file THEN <<"open", 3>>      \* depends on the listing order (O1)
     ELSE IF v1[1] = "open" THEN v1 ELSE v2

(* a first segment that is no address at all: the reader must refuse the name *)
ZzBad(name) == LET segs == SplitAt(name, DOT) IN
               \/ Len(segs) < 2 \/ Len(segs[1]) # 2 \/ ~IsHexC(segs[1][1]) \/ ~IsHexC(segs[1][2])
               \/ ~ValidAddress(HexVal(segs[1][1]) * 16 + HexVal(segs[1][2]), TRUE)
FnVerdict(r) ==
  LET p == ParseName(r.fn) IN
  IF p.conv = "yes" THEN
    IF r.ok # 1 THEN <<"F-refused", 0>>
    ELSE IF r.dest # p.zz \/ r.zz # p.zztext THEN <<"F-address", r.dest>>
    ELSE IF r.sw # p.sw \/ r.hw # p.hw THEN <<"F-version", 0>>
    ELSE IF r.ident # p.ident THEN <<"F-ident", 0>>
    ELSE IF r.circuit # p.circuit \/ r.suffix # p.suffix THEN <<"F-circuit", 0>>
    ELSE OKV
  ELSE IF ZzBad(r.fn) THEN (IF r.ok = 1 THEN <<"F-accepted", 0>> ELSE OKV)
  ELSE <<"open", 5>>

PmVerdict(r) ==
  LET q == ParseMsg(r.arg, r.oms = 1) IN
  IF q.kind = "open" THEN <<"open", 6>>
  ELSE IF q.kind = "rej" THEN (IF r.ok = 1 THEN <<"M-accepted", 0>> ELSE OKV)
  ELSE IF r.ok # 1 THEN <<"M-refused", 0>>
  ELSE IF r.m = q.m /\ r.s = q.s THEN OKV
  ELSE IF r.pre = 1 THEN <<"M-appended-to-target", Len(r.m)>>
  ELSE <<"M-differs", Len(r.m)>>

Verdict(r) == CASE r.t = "sel" -> SelVerdict(r) [] r.t = "fn" -> FnVerdict(r) [] r.t = "pm" -> PmVerdict(r) [] OTHER -> <<"harness", 0>>

Judge == ssj_pos = 0 \/ LET v == Verdict(Recs[ssj_pos]) IN
                        \/ v = OKV
                        \/ v[1] = "open" /\ PrintT(<<"VF", "OPEN", ssj_pos, v[2]>>)
                        \/ v[1] = "LEMMA" /\ ~PrintT(<<"VF", "LEMMA", ssj_pos>>)
                        \/ ~PrintT(<<"VF", "BAD", ssj_pos, v>>)

(* domain completeness: the records are the enumerated case list, case by case in the order it was emitted *)
IdxOf(ty) == {k \in 1..N : Recs[k].t = ty}
Dom == IF Family = "all" THEN SelSeq(Thorough) \o SetToSeq({[t |-> "fn", fn |-> n] : n \in FnNames}) \o SetToSeq(PmCases) ELSE <<>>
SameCase(r, c) == /\ r.t = c.t
                  /\ CASE c.t = "sel" -> r.addr = c.addr /\ r.has = c.has /\ r.sl = c.sl /\ r.ents = c.ents
                        [] c.t = "fn" -> r.fn = c.fn
                        [] OTHER -> r.arg = c.arg /\ r.oms = c.oms /\ r.pre = c.pre
ASSUME Family = "all" => Len(Dom) = N
ASSUME Family = "all" => \A k \in 1..N : SameCase(Recs[k], Dom[k])
ASSUME \A k \in IdxOf("sel") : Len(Recs[k].r) = 2
ASSUME PrintT(<<"VF", "DOMAIN", Family, N, Cardinality(IdxOf("sel")), Cardinality(IdxOf("fn")), Cardinality(IdxOf("pm"))>>)
=============================================================================
