------------------------------ MODULE EbusTelegram ------------------------------
(* The declarative grammar of a passively received eBUS telegram, and the lemma  *)
(* that the incremental reference parser RecvMon (BusMonitors, the C01 oracle)   *)
(* accepts exactly the language of that grammar.  No code is involved: this is a *)
(* check of P against an independently structured statement of the same rules    *)
(* (whole-sequence Unescape and Crc, existential split points) so that an error  *)
(* in the automaton cannot hide behind its own incremental bookkeeping.          *)
(*                                                                               *)
(* Grammar of one segment (the symbols between two SYN), raw = escaped symbols:  *)
(*   telegram  ::= mpart                      destination = broadcast            *)
(*              |  mpart ACK                  destination = a master             *)
(*              |  mpart ACK spart ACK        destination = a slave              *)
(*   mpart     ::= [ anyM NAK ] goodM         at most one repetition             *)
(*   spart     ::= [ anyS NAK ] goodS                                            *)
(*   goodM     ::= Escape(M) Escape(<<Crc(M)>>),  M = QQ ZZ PB SB NN D1..DNN,    *)
(*                 QQ a master, ZZ valid and # QQ, NN <= 16                      *)
(*   anyM      ::= Escape(M') Escape(<<any>>), same shape and header rules, not  *)
(*                 broadcast                                                     *)
(*   goodS     ::= Escape(S) Escape(<<Crc(S)>>),  S = NN D1..DNN                 *)
(* Whatever follows a complete telegram inside the segment is irrelevant.        *)
EXTENDS BusMonitors

Sub(p, i, j) == SubSeq(p, i, j)

ShapeM(r) == LET u == Unescape(r) IN u.ok /\ Len(u.s) >= 6 /\ u.s[5] <= MaxNN /\ Len(u.s) = 6 + u.s[5]
ShapeS(r) == LET u == Unescape(r) IN u.ok /\ Len(u.s) >= 2 /\ u.s[1] <= MaxNN /\ Len(u.s) = 2 + u.s[1]
BodyOf(r) == LET u == Unescape(r).s IN SubSeq(u, 1, Len(u) - 1)
CrcOf(r) == LET u == Unescape(r).s IN u[Len(u)]
Canonical(r) == r = Escape(BodyOf(r)) \o Escape(<<CrcOf(r)>>)
HeaderOK(M) == M[1] \in Masters /\ M[2] \notin {SYN, ESC} /\ M[2] # M[1]
GoodM(r) == ShapeM(r) /\ CrcOf(r) = Crc(BodyOf(r)) /\ HeaderOK(BodyOf(r)) /\ Canonical(r)
AnyM(r) == ShapeM(r) /\ HeaderOK(BodyOf(r)) /\ BodyOf(r)[2] # BROADCAST
GoodS(r) == ShapeS(r) /\ CrcOf(r) = Crc(BodyOf(r)) /\ Canonical(r)
AnyS(r) == ShapeS(r)

NakPos(seg, from) == {i \in (from + 1)..Len(seg) : seg[i] = NAK}

(* <<e, M>>: seg[1..e] is a complete master part (incl. its acknowledge unless broadcast) *)
MasterEnds(seg) ==
  UNION { UNION { LET r == Sub(seg, a + 1, b) IN
                  IF ~GoodM(r) THEN {}
                  ELSE LET M == BodyOf(r) IN
                       IF M[2] = BROADCAST THEN (IF a = 0 THEN {<<b, M>>} ELSE {})
                       ELSE IF b + 1 <= Len(seg) /\ seg[b + 1] = ACK THEN {<<b + 1, M>>} ELSE {}
                : b \in (a + 1)..Len(seg) }
        : a \in {x \in {0} \cup NakPos(seg, 0) : x = 0 \/ AnyM(Sub(seg, 1, x - 1))} }

SlaveEnds(seg, e) ==
  UNION { UNION { LET r == Sub(seg, c + 1, d) IN
                  IF GoodS(r) /\ d + 1 <= Len(seg) /\ seg[d + 1] = ACK THEN {<<d + 1, BodyOf(r)>>} ELSE {}
                : d \in (c + 1)..Len(seg) }
        : c \in {x \in {e} \cup NakPos(seg, e) : x = e \/ AnyS(Sub(seg, e + 1, x - 1))} }

(* the telegrams of one segment: <<position of the last symbol, master, slave>> *)
Telegrams(seg) ==
  UNION { LET e == em[1] M == em[2] IN
          IF M[2] = BROADCAST \/ M[2] \in Masters THEN {<<e, M, <<>> >>}
          ELSE {<<se[1], M, se[2]>> : se \in SlaveEnds(seg, e)}
        : em \in MasterEnds(seg) }

(* segments of a wire sequence w that is preceded by a SYN: <<offset, seg>> *)
SynPos(w) == {i \in 1..Len(w) : w[i] = SYN}
SegStarts(w) == {1} \cup {i + 1 : i \in SynPos(w)}
SegEnd(w, s) == LET later == {i \in SynPos(w) : i >= s} IN
                IF later = {} THEN Len(w) ELSE (CHOOSE i \in later : \A j \in later : i <= j) - 1
GrammarReports(w) ==
  UNION { {<<s - 1 + t[1], t[2], t[3]>> : t \in Telegrams(Sub(w, s, SegEnd(w, s)))} : s \in SegStarts(w) }

(* the reference parser driven over w by an ideal implementation (reports exactly when due) *)
RECURSIVE AutoRun(_, _, _, _, _)
AutoRun(w, k, rm, acc, unspec) ==
  IF k > Len(w) THEN [reports |-> acc, unspec |-> unspec, bad |-> rm.bad, pend |-> rm.pend]
  ELSE LET r1 == RecvRx(rm, w[k], 0) IN
       IF r1.pend # <<>>
       THEN AutoRun(w, k + 1, RecvMsg(r1, 0, r1.pend[1], r1.pend[2]), acc \cup {<<k, r1.pend[1], r1.pend[2]>>}, unspec)
       ELSE AutoRun(w, k + 1, r1, acc, unspec \/ r1.ph = "unspec")
Auto(w) == AutoRun(w, 1, RecvSyn(RecvInit), {}, FALSE)

(***************************************************************************)
(* Domain: well-formed telegrams of every kind and their one-symbol        *)
(* mutations (replace / delete / insert), which cover every way a segment  *)
(* can stop being a telegram (and some ways of becoming another one).      *)
(***************************************************************************)
MA(M) == Escape(M) \o Escape(<<Crc(M)>>)
BadCrc(M) == Escape(M) \o Escape(<<(Crc(M) + 1) % 256>>)
DataSets == {<<>>, <<0>>, <<ESC>>, <<SYN>>, <<255>>, <<1, 2>>, <<SYN, ESC>>, <<255, 0>>}
MasterParts == {<<q, z, 181, 9, Len(d)>> \o d : q \in {16, 255}, z \in {8, 48, 254}, d \in DataSets}
SlaveParts == {<<Len(d)>> \o d : d \in DataSets}
Bases ==
  {[M |-> M, S |-> S, mrep |-> mr, srep |-> sr] :
     M \in MasterParts, S \in SlaveParts, mr \in {"no", "good", "badcrc", "twice"}, sr \in {"no", "good", "badcrc", "twice"}}
Relevant(b) == /\ (b.M[2] \in {48, 254} => b.S = <<0>> /\ b.srep = "no")   \* no slave part
               /\ (b.M[2] = 254 => b.mrep = "no")
WireOf(b) ==
  (CASE b.mrep = "no" -> <<>> [] b.mrep = "good" -> MA(b.M) \o <<NAK>>
        [] b.mrep = "twice" -> BadCrc(b.M) \o <<NAK>> \o MA(b.M) \o <<NAK>> [] OTHER -> BadCrc(b.M) \o <<NAK>>)
  \o MA(b.M) \o (IF b.M[2] = 254 THEN <<>> ELSE <<ACK>>)
  \o (IF b.M[2] \in {48, 254} THEN <<>>
      ELSE (CASE b.srep = "no" -> <<>> [] b.srep = "good" -> MA(b.S) \o <<NAK>>
                 [] b.srep = "twice" -> BadCrc(b.S) \o <<NAK>> \o MA(b.S) \o <<NAK>> [] OTHER -> BadCrc(b.S) \o <<NAK>>)
           \o MA(b.S) \o <<ACK>>)
Repl == {0, 1, 2, 16, 169, 170, 255, 66}
Replace(w, p, v) == [k \in 1..Len(w) |-> IF k = p THEN v ELSE w[k]]
Delete(w, p) == Sub(w, 1, p - 1) \o Sub(w, p + 1, Len(w))
Insert(w, p, v) == Sub(w, 1, p - 1) \o <<v>> \o Sub(w, p, Len(w))
Mutants(w) == {w} \cup {Replace(w, p, v) : p \in 1..Len(w), v \in Repl}
                  \cup {Delete(w, p) : p \in 1..Len(w)}
                  \cup {Insert(w, p, v) : p \in 1..(Len(w) + 1), v \in {0, 170, 255}}

AgreesR(w, a) ==
             /\ a.bad = ""                                  \* the ideal reporter is accepted
             /\ a.pend = <<>>
             /\ (a.unspec \/ a.reports = GrammarReports(w))  \* same language (outside the region P leaves open)

QuickOnly == IF "VF_TELEGRAM_QUICK" \in DOMAIN IOEnv THEN IOEnv.VF_TELEGRAM_QUICK = "1" ELSE FALSE
Twice(b) == b.mrep = "twice" \/ (b.M[2] \notin {48, 254} /\ b.srep = "twice")
PatternOK(b) == (b.mrep = "twice" => b.srep = "no") /\ (b.srep = "twice" => b.mrep = "no")
QuickBase(b) == /\ b.M[1] = 16 /\ SubSeq(b.M, 6, Len(b.M)) \in {<<>>, <<ESC>>, <<255>>}
                /\ SubSeq(b.S, 2, Len(b.S)) \in {<<>>, <<SYN>>, <<255>>}
                /\ (b.mrep # "no" /\ b.srep # "no" => b.mrep = "badcrc" /\ b.srep = "good")
UsedBases == {b \in Bases : Relevant(b) /\ PatternOK(b) /\ (QuickOnly => QuickBase(b))}

VARIABLES tbase, tdone
Init == tbase \in UsedBases /\ tdone = FALSE
Next == ~tdone /\ tdone' = TRUE /\ UNCHANGED tbase
(* evaluated in the successor state so that the work is spread over the workers *)
Lemma == tdone =>
  LET w0 == WireOf(tbase)
      ws == Mutants(w0)
      rs == [w \in ws |-> Auto(w)] IN
  /\ \A w \in ws : AgreesR(w, rs[w]) \/ ~PrintT(<<"VF", "BAD", w, rs[w].reports, GrammarReports(w)>>)
  (* vacuity guards: the unmutated telegram is reported (or, with a second NAK, is not) *)
  /\ \/ rs[w0].reports = (IF Twice(tbase) THEN {}
                           ELSE {<<Len(w0), tbase.M, IF tbase.M[2] \in {48, 254} THEN <<>> ELSE tbase.S>>})
     \/ ~PrintT(<<"VF", "BAD", w0, "base", rs[w0].reports>>)
  /\ PrintT(<<"VF", "STAT", Cardinality(ws), Cardinality({w \in ws : rs[w].reports # {}}),
              Cardinality({w \in ws : rs[w].unspec})>>)
=============================================================================
