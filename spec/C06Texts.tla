------------------------------ MODULE C06Texts ------------------------------
(* The domain of user-style input texts for the encode-decode-encode clause of   *)
(* C06, defined here and emitted by TLC (ndjson, one case per line) for the      *)
(* harness to replay on the real code:  optional sign, leading zeros, fraction   *)
(* with trailing zeros, the null text, names and numbers for value lists, dates  *)
(* with 2- and 4-digit years, padded and unpadded, times hh:mm[:ss], hex and     *)
(* character strings, malformed inputs.                                          *)
EXTENDS Codec, Json, IOUtils, SequencesExt

Thorough == IOEnv.VF_TIER = "thorough"

D(n) == Dec(n)
Cat(A, B) == {a \o b : a \in A, b \in B}
EMPTY == {<<>>}

-----------------------------------------------------------------------------
(* numbers *)
Signs == {<<>>, <<DASH>>} \cup (IF Thorough THEN {<<43>>} ELSE {})
LeadZ == {<<>>, <<48>>} \cup (IF Thorough THEN {<<48, 48>>} ELSE {})
Fracs == {<<>>, <<DOT, 48>>, <<DOT, 53>>, <<DOT, 53, 48>>, <<DOT, 50, 53>>, <<DOT, 48, 48, 52>>, <<DOT, 57, 57, 57>>}
         \cup (IF Thorough THEN {<<DOT>>, <<DOT, 49, 50, 53>>, <<DOT, 52, 57, 57, 57, 57>>, <<DOT, 48, 54, 50, 53>>} ELSE {})
Magnitudes(bits) ==
  {0, 1, 7, 8, 9, 10, 64, 99, 100, 126, 127, 128, 129, 199, 200, 201, 253, 254, 255, 256}
  \cup (IF bits >= 16 THEN {999, 1000, 9999, 10000, 32766, 32767, 32768, 32769, 65533, 65534, 65535, 65536} ELSE {})
  \cup (IF bits >= 24 THEN {999999, 1000000, 8388607, 8388608, 16777214, 16777215, 16777216, 99999999} ELSE {})
  \cup (IF bits >= 32 THEN {2147483646, 2147483647} ELSE {})
WideDigits == {<<50, 49, 52, 55, 52, 56, 51, 54, 52, 56>>, <<52, 50, 57, 52, 57, 54, 55, 50, 57, 52>>,
               <<52, 50, 57, 52, 57, 54, 55, 50, 57, 53>>, <<52, 50, 57, 52, 57, 54, 55, 50, 57, 54>>}   \* 2^31, 2^32-2, 2^32-1, 2^32
NumTexts(bits) ==
  Cat(Signs, Cat(LeadZ, Cat({D(n) : n \in Magnitudes(bits)} \cup (IF bits = 32 THEN WideDigits ELSE {}), Fracs)))
Malformed == {<<>>, <<DASH>>, <<DASH, DASH, 49>>, <<BLANK, 49>>, <<49, BLANK>>, <<48, 120, 49, 48>>, <<49, 101, 50>>,
              <<97, 98, 99>>, <<49, DOT, 50, DOT, 51>>, <<49, 44, 53>>, <<DOT, 53>>, <<DASH, DOT, 53>>}

NumDefs ==
  {<<t, d>> : t \in {"UCH", "SCH", "D1B", "U1L", "S1L", "BCD", "HCD:1"}, d \in {0, 10, -10}}
  \cup {<<"D1C", 0>>, <<"D1C", 10>>, <<"D2B", 0>>, <<"D2B", 10>>, <<"D2C", 0>>, <<"D2C", 100>>, <<"FLT", 0>>, <<"FLR", 0>>}
  \cup {<<t, d>> : t \in {"UIN", "UIR", "SIN", "SIR", "U2L", "S2B", "BCD:2", "HCD:2", "PIN"}, d \in {0, 10, 1000, -10}}
  \cup {<<t, d>> : t \in {"U3N", "S3N", "U3B", "S3L", "BCD:3"}, d \in {0, 10}}
  \cup {<<t, d>> : t \in {"ULG", "SLG", "U4B", "S4L", "BCD:4", "HCD"}, d \in {0, 10}}
  \cup {<<"EXP", 0>>, <<"EXR", 0>>}
(* a definition: type id, length argument, divisor, value list id, master(1)/slave(0) data *)
Def(t, l, d, v, m) == [t |-> t, l |-> l, d |-> d, v |-> v, m |-> m]
NumDefRecs == {Def(p[1], 0, p[2], 0, 1) : p \in NumDefs}

-----------------------------------------------------------------------------
(* bits, value lists (the lists are those of the harness: id -> texts that name entries), TEM *)
BitTexts == {D(n) : n \in 0..17} \cup {<<48, 49>>, <<DASH>>, <<>>, <<DASH, 49>>}
BitDefRecs == {Def(p[1], p[2], 0, 0, 1) : p \in {<<"BI0", 0>>, <<"BI0", 3>>, <<"BI3", 2>>, <<"BI1", 7>>, <<"BI7", 0>>, <<"BI6", 2>>}}
ListWords == {<<111, 110>>, <<111, 102, 102>>, <<97, 117, 116, 111>>, <<109, 97, 120>>, <<79, 110>>, <<111, 110, BLANK>>,
              <<97>>, <<98>>, <<122, 101, 114, 111>>, <<107>>, <<111, 110, 101>>, <<102, 105, 118, 101>>, <<122>>, <<99>>, <<120>>, <<121>>,
              <<77, 111, 110>>, <<83, 117, 110>>, <<109, 111, 110>>, <<84, 117, 101>>, <<DASH>>, <<>>}
             \cup {D(n) : n \in {0, 1, 2, 3, 5, 6, 7, 8, 99, 100, 254, 255, 256, 1000, 65534, 65535}}
             \cup {<<48, 49>>, <<49, DOT, 48>>, <<DASH, 49>>}
ListDefRecs == {Def(p[1], p[2], 0, p[3], 1) : p \in {<<"BDY", 0, 0>>, <<"HDY", 0, 0>>, <<"UCH", 0, 1>>, <<"U1L", 0, 2>>, <<"UIN", 0, 3>>,
                                                   <<"BI3", 3, 4>>, <<"BI0", 2, 5>>, <<"BCD", 0, 6>>}}
TemTexts == {D(g) \o <<DASH>> \o D(n) : g \in {0, 1, 9, 31, 32}, n \in {0, 1, 99, 127, 128}}
            \cup {DecW(g, 2) \o <<DASH>> \o DecW(n, 3) : g \in {0, 3, 31}, n \in {0, 45, 127}}
            \cup {<<DASH>>, <<>>, <<51>>, <<51, DASH>>, <<DASH, 51, DASH, 52>>, <<51, DASH, 52, DASH, 53>>}
TemDefRecs == {Def("TEM_P", 0, 0, 0, m) : m \in {0, 1}}

-----------------------------------------------------------------------------
(* dates and times *)
Two(n) == {D(n), DecW(n, 2)}
Days == {0, 1, 9, 10, 28, 29, 30, 31, 32}
Months == {0, 1, 2, 3, 4, 9, 12, 13}
Years == {<<48, 48>>, <<50, 52>>, <<57, 57>>, D(1900), D(1901), D(1950), D(1999), D(2000), D(2001), D(2009), D(2024),
          D(2079), D(2080), D(2099), D(2100)}
DateTexts == {d \o <<DOT>> \o m \o <<DOT>> \o y : d \in UNION {Two(n) : n \in Days}, m \in UNION {Two(n) : n \in Months}, y \in Years}
             \cup {NullDate, <<DASH, DOT, 48, 53, DOT, 50, 48, 49, 52>>, <<48, 49, DOT, 48, 49>>, <<>>, <<DASH>>,
                   <<48, 49, DOT, 48, 49, DOT, 50, 48, 49, 52, DOT>>, <<48, 49, 47, 48, 49, 47, 50, 48, 49, 52>>}
DateDefRecs == {Def(t, 0, 0, 0, 1) : t \in {"BDA", "BDA:3", "BDZ", "HDA", "HDA:3", "DAY"}}
Hours == {0, 1, 9, 12, 23, 24, 25}
Mins == {0, 1, 5, 7, 10, 14, 15, 24, 29, 30, 44, 45, 54, 55, 59, 60}
Secs == {0, 1, 24, 59, 60}
HM == {h \o <<COLON>> \o m : h \in UNION {Two(n) : n \in Hours}, m \in UNION {Two(n) : n \in Mins}}
HMS == {h \o <<COLON>> \o m \o <<COLON>> \o s : h \in UNION {Two(n) : n \in {0, 9, 23, 24}},
                                                m \in UNION {Two(n) : n \in {0, 5, 24, 59, 60}}, s \in UNION {Two(n) : n \in Secs}}
TimeOdd == {NullTime2, <<DASH, COLON, DASH, COLON, DASH>>, <<DASH>>, <<>>, <<49, 50>>, <<49, 50, COLON>>, <<49, 50, COLON, DASH>>,
            <<DASH, COLON, 51, 48>>, <<49, 50, DOT, 51, 48>>}
Time2Texts == HM \cup TimeOdd \cup {y \in HMS : Len(y) <= 7}
Time3Texts == HMS \cup TimeOdd \cup {y \in HM : Len(y) = 5}
Time2DefRecs == {Def(t, 0, 0, 0, 1) : t \in {"BTM", "HTM", "VTM", "MIN", "TTM", "TTH", "TTQ"}}
Time3DefRecs == {Def(t, 0, 0, 0, 1) : t \in {"BTI", "HTI", "VTI"}}
DtmDates == {d \o <<DOT>> \o m \o <<DOT>> \o y : d \in {D(1), DecW(1, 2), D(29), D(31)}, m \in {D(1), DecW(2, 2), D(12)},
                                                 y \in {<<48, 57>>, D(2008), D(2009), D(2024), D(2099), D(2100)}}
DtmTexts == {d \o <<BLANK>> \o t : d \in DtmDates, t \in {y \in HM : Len(y) \in {4, 5}}} \cup DtmDates \cup TimeOdd
DtmDefRecs == {Def("DTM", 0, 0, 0, 1)}

-----------------------------------------------------------------------------
(* strings *)
Alpha == {97, 66, BLANK, QUOTE, BSL, DASH, 126}
RECURSIVE Words(_)
Words(n) == IF n = 0 THEN EMPTY ELSE LET w == Words(n - 1) IN w \cup {Append(x, c) : x \in {y \in w : Len(y) = n - 1}, c \in Alpha}
StrTexts == Words(IF Thorough THEN 4 ELSE 3) \cup {<<97, 98, 99, 100, 101>>, <<97, 98, 99, 100, 101, 102>>, <<BLANK, BLANK, 97, BLANK, BLANK>>}
HexTexts == {<<>>, <<48, 97>>, <<48, 97, BLANK, 49, 98>>, <<48, 97, BLANK, 49, 98, BLANK, 50, 99>>, <<48, 65, 49, 66, 50, 67>>,
             <<48, 97, 49, 98>>, <<48, 97, BLANK, 49>>, <<122, 122>>, <<48, 97, BLANK, BLANK, 49, 98, BLANK, 50, 99, BLANK>>,
             <<48, 97, BLANK, 49, 98, BLANK, 50, 99, BLANK, 51, 100>>, <<102, 102, BLANK, 48, 48, BLANK, 70, 70>>}
StrDefRecs == {Def(p[1], p[2], 0, 0, 1) : p \in {<<"STR", 5>>, <<"NTS", 5>>, <<"STR", 255>>, <<"NTS", 255>>, <<"STR", 0>>}}
HexDefRecs == {Def("HEX", l, 0, 0, 1) : l \in {0, 3, 255}}

-----------------------------------------------------------------------------
(* the domain: for every definition its set of texts (kept per definition: TLC's UNION of many large sets is slow) *)
TextDefs == NumDefRecs \cup BitDefRecs \cup ListDefRecs \cup TemDefRecs \cup DateDefRecs \cup Time2DefRecs \cup Time3DefRecs
            \cup DtmDefRecs \cup StrDefRecs \cup HexDefRecs
TextsOf(g) ==
  CASE g \in NumDefRecs -> NumTexts(Types[g.t].bits) \cup Malformed
    [] g \in BitDefRecs -> BitTexts
    [] g \in ListDefRecs -> ListWords
    [] g \in TemDefRecs -> TemTexts
    [] g \in DateDefRecs -> DateTexts
    [] g \in Time2DefRecs -> Time2Texts
    [] g \in Time3DefRecs -> Time3Texts
    [] g \in DtmDefRecs -> DtmTexts
    [] g \in StrDefRecs -> StrTexts
    [] g \in HexDefRecs -> HexTexts
DefOf(r) == Def(r.t, r.l, r.d, r.v, r.m)

=============================================================================
