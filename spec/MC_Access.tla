----------------------------- MODULE MC_Access -----------------------------
(* C16, design level: TLC explores the code-shaped session model S of Access.tla exhaustively against the   *)
(* property monitor P (S => P).  No implementation is involved; the result cannot change when /repo does.   *)
(*   MC_Access.cfg        StarMode = "token"  (repaired design)  - SImpliesP must hold                       *)
(*   MC_AccessPinned.cfg  StarMode = "whole"  (shape of the pinned code) - TLC finds the '*'-inside-a-list    *)
(*                        counterexample: P rejects it (vacuity guard for P)                                   *)
EXTENDS Access
CONSTANTS StarMode, McTier

(***************************************************************************)
(* MC: exhaustive exploration of S against P (no implementation involved)   *)
(*   state = world + S state + the P monitor's user set; every command of   *)
(*   the alphabet is enabled in every state, so sessions of ANY length over *)
(*   the alphabet are covered.                                              *)
(***************************************************************************)
VARIABLES mw, mst, mU
mvars == <<mw, mst, mU>>

McCmds(w) ==
  LET n == Len(w.msgs) IN
  (IF McTier = "thorough" THEN {Cmd("auth", 1, u, s) : u \in 1..3, s \in {1, 2, 9}}
   ELSE {Cmd("auth", 1, 1, 1), Cmd("auth", 1, 2, 2), Cmd("auth", 1, 1, 9), Cmd("auth", 1, 3, 1), Cmd("auth", 1, 2, 1)})
  \cup {Cmd("auth1", 1, 1, 0)}
  \cup {Cmd(op, m, 0, 0) : op \in ReadOps \cup {"bus"}, m \in {i \in 1..n : w.msgs[i].k = "r"}}
  \cup {Cmd("xr", m, cr[1], cr[2]) : m \in {i \in 1..n : w.msgs[i].k = "r"}, cr \in {<<0, 0>>, <<1, 1>>, <<2, 2>>, <<1, 9>>, <<3, 1>>}}
  \cup {Cmd(op, m, 0, 0) : op \in WriteOps, m \in {i \in 1..n : w.msgs[i].k = "w"}}
  \cup {Cmd(op, m, cr[1], cr[2]) : op \in HttpOps, m \in 1..n, cr \in (IF McTier = "thorough" THEN Creds(McTier) ELSE {<<0, 0>>, <<1, 1>>, <<2, 2>>, <<1, 9>>, <<3, 1>>})}

McWorlds == IF McTier = "thorough" THEN WorldsOver(AclQuick, MsgLevels, {<<>>, La, Lab})
            ELSE WorldsOver(AclQuick, {<<>>, La, Lab}, {<<>>, Lab})
McInit == /\ mw \in McWorlds
          /\ mst = SInit(mw)
          /\ mU = {0}

McNext == \E c \in McCmds(mw) :
            LET x == SStep(SHasTable(StarMode, mw), SListTable(StarMode, mw), mw, mst, c)
                GT == GrantTable(Granted, mw)
                o == AsObs(x.o)
            IN /\ mw' = mw
               /\ mst' = x.st
               /\ mU' = PStep(GT, mw, mU, c, o, mst.pr)
               /\ (mU = {} \/ mU' # {} \/ PrintT(<<"VF", "MC-REJECT", mw, mst, c, o>>))    \* the step P rejects, for the report

(* S => P: the monitor never rejects a behaviour of S *)
SImpliesP == mU # {}
(* and the monitor's user set always contains the user S acts for *)
SUserTracked == mU # {} => mst.user \in mU


McSpec == McInit /\ [][McNext]_mvars
=============================================================================
