CONSTANTS
  Alphabet = {16, 42, 198, 170, 133, 200, 232, 204, 130, 192, 129, 128, 236, 212}
  MaxLen = 5
  Distinct = FALSE
  Arbs = {49, 170}
INIT Init
NEXT Next
VIEW View
INVARIANT MonOk
