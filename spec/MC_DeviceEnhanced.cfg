CONSTANTS
  OldResetHandling = FALSE
  Alphabet = {16, 42, 198, 170, 133, 200, 232, 204, 192, 129, 236, 212}
  MaxLen = 5
  Distinct = TRUE
  Arbs = {49, 170}
INIT Init
NEXT Next
VIEW View
INVARIANT MonOk
