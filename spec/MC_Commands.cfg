CONSTANT Mode = "doc"
INIT McInit
NEXT McNext
INVARIANT McOk
