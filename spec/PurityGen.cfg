INIT Init
NEXT Next
