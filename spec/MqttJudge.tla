------------------------------ MODULE MqttJudge ------------------------------
(* judges what the real MqttHandler did in the generated sessions against the monitor of MqttHandler.tla (P) and notes     *)
(* where it differs from the handler as modelled (S).                                                                     *)
EXTENDS MqttDomain, Json, IOUtils
Tier == IOEnv.VF_TIER
Recs == ndJsonDeserialize(IOEnv.VF_RECS)
Wd == ndJsonDeserialize(IOEnv.VF_WORLDS)
Sd == ndJsonDeserialize(IOEnv.VF_SESSIONS)
Pairs == ndJsonDeserialize(IOEnv.VF_PAIRS)      \* (world, session) of every record of the whole run (the records may come in shards)
N == Len(Recs)
K == 16
ASSUME \/ Tier = "replay"
       \/ /\ {Wd[k] : k \in 1..Len(Wd)} = Worlds(Tier) /\ Len(Wd) = Cardinality(Worlds(Tier))
          /\ {Sd[k] : k \in 1..Len(Sd)} = Sessions(Tier) /\ Len(Sd) = Cardinality(Sessions(Tier))
          /\ {<<Pairs[k].w, Pairs[k].s>> : k \in 1..Len(Pairs)} = {p \in (1..Len(Wd)) \X (1..Len(Sd)) : Wd[p[1]].fam = Sd[p[2]].fam}
          /\ {<<Recs[k].w, Recs[k].s>> : k \in 1..N} \subseteq {<<Pairs[k].w, Pairs[k].s>> : k \in 1..Len(Pairs)}
VARIABLE blk
Init == blk = 0
Next == \/ /\ blk = 0 /\ blk' \in {1 + K * s : s \in 0..((N - 1) \div K)}
        \/ /\ blk > 0 /\ (blk % K) # 0 /\ blk < N /\ blk' = blk + 1
Shape(r) == Len(r.o) = Len(Sd[r.s].ev) + 1 /\ \A k \in 1..Len(r.o) : Len(r.o[k].pr) = Len(Wd[r.w].msgs)
PBad(r) == IF Shape(r) THEN PRun(Wd[r.w], Sd[r.s].ev, r.o) ELSE {<<<<"crashed-or-truncated">>, 0>>}
SBad(r) == IF Shape(r) THEN SRun(Wd[r.w], Sd[r.s].ev, r.o) ELSE 0
DriftNote(r) == LET k == SBad(r) IN k = 0 \/ PrintT(<<"VF", "DRIFT", blk, k>>)
Judge == blk = 0 \/ LET bad == PBad(Recs[blk]) IN DriftNote(Recs[blk]) /\ (bad = {} \/ ((\A x \in bad : PrintT(<<"VF", "BAD", blk, x[2], x[1]>>)) /\ FALSE))
=============================================================================
