INIT Init
NEXT Next
VIEW View
INVARIANT MonOk
CONSTANTS
  SLAVES <- NoSeq
  POLLS <- NoSeq
  HASX = FALSE
  BUSLOST = 0
  FIXED = FALSE
  MUT <- NoStr
  WAITADDR = 0
