------------------------------ MODULE PurityGen ------------------------------
(* Emits the C12 input domain defined in Purity: the operation table, all histories (TLC        *)
(* enumerates every op sequence up to the bound) and all permutations of the load sets.         *)
EXTENDS Purity, Json, IOUtils, SequencesExt

Deep == IOEnv.VF_TIER = "thorough"
L == 3

Tup(s) == [j \in 1..Len(s) |-> s[j]]
OpLine(o) == [k |-> "op", id |-> o.id, act |-> o.act, cls |-> o.cls, tpl |-> [j \in 1..Len(o.tpl) |-> Tup(o.tpl[j])],
              def |-> Tup(o.def), t |-> Tup(o.t), b |-> Tup(o.b), fmt |-> o.fmt, core |-> (o.id \in CoreOps)]
HistLines == LET sq == SetToSeq(Histories(L, Deep)) IN [j \in 1..Len(sq) |-> [k |-> "h", h |-> Tup(sq[j])]]
LoadLines ==
  LET one(s) == LET n == Len(LoadSets[s].lines)  ps == SetToSeq(Perms(n)) IN
                [j \in 1..Len(ps) |-> [k |-> "load", set |-> s, tag |-> LoadSets[s].tag, perm |-> Tup(ps[j]),
                                       tpl |-> [x \in 1..Len(LoadTemplates) |-> Tup(LoadTemplates[x])],
                                       lines |-> [x \in 1..n |-> Tup(LoadSets[s].lines[x].line)],
                                       names |-> [x \in 1..n |-> Tup(LoadSets[s].lines[x].name)],
                                       probes |-> [x \in 1..n |-> Tup(LoadSets[s].lines[x].probe)]]]
      RECURSIVE cat(_)
      cat(s) == IF s = 0 THEN <<>> ELSE cat(s - 1) \o one(s)
  IN cat(Len(LoadSets))

ASSUME Cardinality(Histories(L, Deep)) = NumHistories(L, Deep)
ASSUME ndJsonSerialize(IOEnv.VF_OPS, [j \in 1..Len(Ops) |-> OpLine(Ops[j])])
ASSUME ndJsonSerialize(IOEnv.VF_HIST, HistLines)
ASSUME ndJsonSerialize(IOEnv.VF_LOADS, LoadLines)
ASSUME PrintT(<<"VF", "GEN", Len(Ops), Len(HistLines), Len(LoadLines), Cardinality(CoreOps)>>)

VARIABLE genDone
Init == genDone = 0
Next == genDone' = genDone
=============================================================================
