------------------------------ MODULE C16Levels ------------------------------
(* C16 part (i): judges records of the real Message::checkLevel against Access!Granted.                    *)
(* One record per level list over {a,b,;,*}: r.ls = the list (character codes), r.r = the 15 results for  *)
(* the levels over {a,b} of length 0..3 in canonical order.                                                *)
EXTENDS Access, Json, IOUtils

ASSUME LemmaNoSubstring /\ LemmaStarAnywhere /\ LemmaEmptyLevel /\ LemmaEmptyList /\ LemmaTokens

Recs == ndJsonDeserialize(IOEnv.VF_RECS)
N == Len(Recs)
K == 64
MaxLen == CASE IOEnv.VF_MAXLEN = "7" -> 7 [] IOEnv.VF_MAXLEN = "8" -> 8 [] IOEnv.VF_MAXLEN = "6" -> 6 [] OTHER -> 0

Pow(b, n) == IF n = 0 THEN 1 ELSE IF n = 1 THEN b ELSE IF n = 2 THEN b * b ELSE b * b * b
LevelOf(n, x) == [i \in 1..n |-> IF ((x \div Pow(2, n - i)) % 2) = 1 THEN B ELSE A]
LevelSeq == <<LevelOf(0, 0)>> \o [x \in 1..2 |-> LevelOf(1, x - 1)] \o [x \in 1..4 |-> LevelOf(2, x - 1)]
            \o [x \in 1..8 |-> LevelOf(3, x - 1)]
ASSUME Len(LevelSeq) = 15 /\ Cardinality({LevelSeq[k] : k \in 1..15}) = 15

VARIABLE i
Init == i = 0
Next == \/ /\ i = 0 /\ i' \in {1 + K * s : s \in 0..((N - 1) \div K)}
        \/ /\ i > 0 /\ (i % K) # 0 /\ i < N /\ i' = i + 1

Ok(r) == Len(r.r) = 15 /\ \A k \in 1..15 : (r.r[k] = 1) = Granted(LevelSeq[k], r.ls)
(* class of a rejected record: explained completely by the whole-list reading of '*' or not *)
Sig(r) == IF Len(r.r) = 15 /\ \A k \in 1..15 : (r.r[k] = 1) = GrantedWholeStar(LevelSeq[k], r.ls)
          THEN "star-inside-list"
          ELSE IF \E k \in 1..15 : r.r[k] = 1 /\ ~Granted(LevelSeq[k], r.ls) THEN "grants-without-token" ELSE "denies-token"
Judge == i = 0 \/ Ok(Recs[i]) \/ ~PrintT(<<"VF", "BAD", i, Sig(Recs[i])>>)

(* domain completeness: every list over the alphabet up to MaxLen occurs *)
RECURSIVE Geo(_)
Geo(n) == IF n = 0 THEN 1 ELSE 4 * Geo(n - 1) + 1
ASSUME LET S == {Recs[k].ls : k \in 1..N} IN
       \/ IOEnv.VF_MAXLEN = "replay"
       \/ /\ MaxLen > 0
          /\ Cardinality(S) = Geo(MaxLen) /\ N = Geo(MaxLen)
          /\ \A s \in S : Len(s) <= MaxLen /\ \A k \in 1..Len(s) : s[k] \in {A, B, SEMI, STAR}
=============================================================================
