INIT Init
NEXT Next
INVARIANT Judge
CHECK_DEADLOCK FALSE
