INIT Init
NEXT Next
