SPECIFICATION MCSpec
CONSTANTS
  NP = 3
  Gaps = {0, 1, 16, 50}
  MaxEvents = 5
  Flows = {"seen", "active"}
  Mut = 3
INVARIANT CombWellFormed
PROPERTY StepAllowed
PROPERTY NoStaleCombination
