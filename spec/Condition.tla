----------------------------- MODULE Condition -----------------------------
(* C13 - conditional availability follows the referenced value.                                   *)
(*                                                                                                *)
(* P (property level, observables only; written from the property text / message.h docs):         *)
(*   a condition item list is interpreted on the value that was stored LAST for the referenced    *)
(*   field; a message is available iff all parts of its condition resolve and hold.               *)
(* S (code shaped): the cache  m_lastCheckTime / m_isTrue  of SimpleCondition against             *)
(*   Message::m_lastChangeTime with a clock of one-second resolution, CombinedCondition as        *)
(*   short-circuit conjunction, DataFieldSet/SingleDataField::hasField for resolution.            *)
(* MC_Condition.cfg explores S of the repaired code (GE = TRUE: re-evaluate when data was seen and *)
(* lastChange >= lastCheck) and checks S => P (invariant SImpliesP).  MC_Condition_pinned.cfg      *)
(* (GE = FALSE, the comparison lastChange > lastCheck before the repair) is kept for the design-   *)
(* level comparison: TLC refutes it with  Store(a) Query Store(b) Query  inside one second.        *)
EXTENDS ConditionP

-----------------------------------------------------------------------------
(* ------------------------------- S ------------------------------------- *)
(* one referenced message with one numeric field, three simple conditions and the combined one    *)
CONSTANTS Vals,     \* values that can be stored, e.g. 0..3
          MaxNow,   \* bound of the clock (state constraint)
          GE        \* TRUE: repaired comparison (default) ; FALSE: lastChange > lastCheck as before the repair

None == -1
SConds == <<[r |-> 1, k |-> "num",  fn |-> 0, items |-> <<[op |-> "eq", a |-> 1, b |-> 1], [op |-> "eq", a |-> 3, b |-> 3]>>],
            [r |-> 1, k |-> "num",  fn |-> 0, items |-> <<[op |-> "range", a |-> 2, b |-> 3]>>],
            [r |-> 1, k |-> "seen", fn |-> 0, items |-> <<>>]>>
SFields == <<[n |-> 0, k |-> "num"]>>
NC == Len(SConds)
Combined == <<1, 2>>      \* message guarded by [c1][c2]

VARIABLES now, val, lastUpdate, lastChange, lastCheck, isTrue, obs, pLast
vars == <<now, val, lastUpdate, lastChange, lastCheck, isTrue, obs, pLast>>

(* SimpleNumericCondition::checkValue on the stored data / "message seen" for a condition without values *)
CheckValue(c, v) == SConds[c].k = "seen" \/ \E j \in 1..Len(SConds[c].items) : ItemHolds(SConds[c].items[j], v)

NeedsEval(c, chk) == IF GE THEN lastChange > 0 /\ lastChange >= chk[c] ELSE lastChange > chk[c]

(* SimpleCondition::isTrue as a function on the cache: returns the new cache and the verdict       *)
IsTrueF(c, chk, tru) ==
  IF NeedsEval(c, chk)
  THEN [chk |-> [chk EXCEPT ![c] = lastChange], tru |-> [tru EXCEPT ![c] = CheckValue(c, val)], r |-> CheckValue(c, val)]
  ELSE [chk |-> chk, tru |-> tru, r |-> tru[c]]

(* CombinedCondition::isTrue: stops at the first part that is false                                 *)
RECURSIVE CombF(_, _, _)
CombF(i, chk, tru) ==
  IF i > Len(Combined) THEN [chk |-> chk, tru |-> tru, r |-> TRUE]
  ELSE LET e == IsTrueF(Combined[i], chk, tru) IN
       IF e.r THEN CombF(i + 1, e.chk, e.tru) ELSE [chk |-> e.chk, tru |-> e.tru, r |-> FALSE]

SInit == /\ now = 1 /\ val = None /\ lastUpdate = 0 /\ lastChange = 0
         /\ lastCheck = [c \in 1..NC |-> 0] /\ isTrue = [c \in 1..NC |-> FALSE]
         /\ obs = [k |-> "init"] /\ pLast = <<>>

(* Message::storeLastData(slave): update time always, change time iff the data differs              *)
Store(v) == /\ lastUpdate' = now
            /\ IF v # val THEN lastChange' = now /\ val' = v ELSE UNCHANGED <<lastChange, val>>
            /\ pLast' = <<v>>
            /\ obs' = [k |-> "store", v |-> v]
            /\ UNCHANGED <<now, lastCheck, isTrue>>
Tick(d) == /\ now' = now + d /\ obs' = [k |-> "tick", d |-> d]
           /\ UNCHANGED <<val, lastUpdate, lastChange, lastCheck, isTrue, pLast>>
Query(c) == LET e == IsTrueF(c, lastCheck, isTrue) IN
            /\ lastCheck' = e.chk /\ isTrue' = e.tru
            /\ obs' = [k |-> "query", c |-> <<c>>, r |-> e.r]
            /\ UNCHANGED <<now, val, lastUpdate, lastChange, pLast>>
QueryCombined == LET e == CombF(1, lastCheck, isTrue) IN
            /\ lastCheck' = e.chk /\ isTrue' = e.tru
            /\ obs' = [k |-> "query", c |-> Combined, r |-> e.r]
            /\ UNCHANGED <<now, val, lastUpdate, lastChange, pLast>>

(* Message::prepareMaster of the (active read) referenced message, e.g. an unanswered poll: storeLastData(master) - *)
(* a request without master data stamps neither the update nor the change time (the change time is copied from     *)
(* the update time, which only a stored answer sets); no answer is stored                                          *)
Prepare == /\ obs' = [k |-> "prepare"]
           /\ UNCHANGED <<now, val, lastUpdate, lastChange, lastCheck, isTrue, pLast>>

SNext == \/ \E v \in Vals : Store(v)
         \/ Prepare
         \/ \E d \in {0, 1, 2} : Tick(d)
         \/ \E c \in 1..NC : Query(c)
         \/ QueryCombined
SConstraint == now <= MaxNow

(* S => P: every query answers what P says about the value stored last                              *)
SImpliesP == obs.k = "query" =>
               obs.r = (\A i \in 1..Len(obs.c) : SimpleHolds(SFields, SConds[obs.c[i]], pLast))

=============================================================================
