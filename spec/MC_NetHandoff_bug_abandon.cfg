CONSTANTS Variant = "close" Bug = "abandon"
SPECIFICATION FairSpec
INVARIANT McOk
INVARIANT McNoDangle
