CONSTANTS Variant = "full" Bug = "none"
SPECIFICATION FairSpec
INVARIANT McOk
INVARIANT McNoDangle
PROPERTY McLive
