----------------------------- MODULE ConditionP -----------------------------
(* C13, stateless part: the P-level reference predicate and resolution rule (written from the      *)
(* property text and the documentation in message.h), plus - clearly separated at the end - the    *)
(* code-shaped hasField rule of data.cpp used for the design-level comparison.                     *)
EXTENDS Integers, Sequences, FiniteSets, TLC

-----------------------------------------------------------------------------
(* ------------------------------- P ------------------------------------- *)
(* item: [op |-> "eq"|"range"|"lt"|"le"|"gt"|"ge"|"str", a, b (numbers) | s (char codes)]        *)
ItemHolds(it, v) ==
  CASE it.op = "eq"    -> v = it.a
    [] it.op = "range" -> it.a <= v /\ v <= it.b
    [] it.op = "lt"    -> v < it.a
    [] it.op = "le"    -> v <= it.a
    [] it.op = "gt"    -> v > it.a
    [] it.op = "ge"    -> v >= it.a
    [] it.op = "str"   -> v = it.s
    [] OTHER           -> FALSE

(* fields: sequence of [n |-> name id (0 = unnamed), k |-> "num"|"str"]                            *)
(* simple condition c: [r |-> referenced message (0 = does not exist), k |-> "num"|"str"|"seen",   *)
(*                      fn |-> field name id (0 = not named), items |-> sequence of items]         *)
Candidates(fields, c) ==
  {i \in 1..Len(fields) : /\ (c.k = "seen" \/ fields[i].k = c.k)
                          /\ (c.fn = 0 \/ fields[i].n = c.fn)}
MinOf(S) == CHOOSE x \in S : \A y \in S : x <= y
(* the field a resolvable condition talks about: the named one, else the first of the required kind *)
FieldOf(fields, c) == MinOf(Candidates(fields, c))

(* "A condition resolves iff the referenced message exists and has the named (or, if unnamed,     *)
(*  a first) field of the required kind".  For a condition without values the text fixes no kind:  *)
(*  with a named field that does not exist the outcome is left open (ResolveOpen).                 *)
Resolves(exists, fields, c) == exists /\ ((c.k = "seen" /\ c.fn = 0) \/ Candidates(fields, c) # {})
ResolveOpen(exists, fields, c) == exists /\ c.k = "seen" /\ c.fn # 0 /\ Candidates(fields, c) = {}

(* stored: <<>> while nothing was stored, else the tuple of field values stored last               *)
SimpleHolds(fields, c, stored) ==
  /\ Resolves(TRUE, fields, c)
  /\ stored # <<>>
  /\ \/ c.k = "seen"
     \/ \E j \in 1..Len(c.items) : ItemHolds(c.items[j], stored[FieldOf(fields, c)])

-----------------------------------------------------------------------------
(* code-shaped resolution rule: DataFieldSet::hasField / SingleDataField::hasField.                  *)
(* Default = the repaired code (a set has the field iff one of its fields has it); the rule before   *)
(* the repair ("== 0": iff one of its fields does NOT have it) is kept as ...Pinned for the           *)
(* design-level comparison and for naming exactly that regression.                                    *)
SingleHasField(f, named, numeric) == (numeric = (f.k = "num")) /\ (named = 0 \/ named = f.n)
SetHasField(fields, named, numeric) == \E i \in 1..Len(fields) : SingleHasField(fields[i], named, numeric)
SetHasFieldPinned(fields, named, numeric) == \E i \in 1..Len(fields) : ~SingleHasField(fields[i], named, numeric)
(* a message with one field is a SingleDataField, with more a DataFieldSet                          *)
SHasField(fields, named, numeric) ==
  IF Len(fields) = 1 THEN SingleHasField(fields[1], named, numeric) ELSE SetHasField(fields, named, numeric)
SHasFieldPinned(fields, named, numeric) ==
  IF Len(fields) = 1 THEN SingleHasField(fields[1], named, numeric) ELSE SetHasFieldPinned(fields, named, numeric)
SResolves(exists, fields, c) == exists /\ (c.k = "seen" \/ SHasField(fields, c.fn, c.k = "num"))
SResolvesPinned(exists, fields, c) == exists /\ (c.k = "seen" \/ SHasFieldPinned(fields, c.fn, c.k = "num"))
=============================================================================
