------------------------------ MODULE C10Domain ------------------------------
(* The bounded domain of field sequences replayed on the real code, shared by the module that  *)
(* emits the cases (C10Cases) and the one that judges the records (C10Judge).                   *)
(* A sequence belongs to the domain when it is P-specified and fits one of the shapes below     *)
(* (max number of fields, allowed parts, allowed kinds).  The shapes are prefix-closed.          *)
EXTENDS Layout

CONSTANT Tier                   \* "quick" | "thorough"

AllKinds == 1..NK
(* without D2C, BCD, TTM: for the bookkeeping they are a second UIN / UCH *)
Kinds12 == AllKinds \ {3, 4, 13}
(* the kinds that differ for the bookkeeping: 1 byte, 2 bytes, the bit kinds, ignored, variable *)
Kinds9 == {1, 2, 5, 6, 7, 8, 9, 10, 14}
ASSUME Kinds[3].t = "D2C" /\ Kinds[4].t = "BCD" /\ Kinds[13].t = "TTM" /\ Kinds[14].t = "HEX:*" /\ Kinds[10].t = "IGN:1"

Shapes == IF Tier = "quick"
          THEN {[n |-> 3, ps |-> Parts, ks |-> AllKinds], [n |-> 4, ps |-> {"s"}, ks |-> Kinds12]}
          ELSE {[n |-> 3, ps |-> Parts, ks |-> AllKinds], [n |-> 4, ps |-> Parts, ks |-> Kinds12],
                [n |-> 5, ps |-> {"s"}, ks |-> Kinds9]}

InShape(fs) == \E sh \in Shapes : Len(fs) <= sh.n /\ \A j \in 1..Len(fs) : fs[j].p \in sh.ps /\ fs[j].k \in sh.ks
=============================================================================
