------------------------------ MODULE EbusSymbols ------------------------------
(* P-level definitions shared by all bus modules: CRC-8 by polynomial division,  *)
(* escaping, address classes.  Written from the eBUS specification (application  *)
(* layer OSI 7 / data link layer OSI 2), not from the code: no lookup table.     *)
EXTENDS Naturals, Sequences, FiniteSets

SYN == 170   \* 0xAA
ESC == 169   \* 0xA9
ACK == 0
NAK == 255
BROADCAST == 254

Byte == 0..255

(* bitwise XOR of two bytes, bit by bit *)
RECURSIVE XorN(_, _, _)
XorN(a, b, n) == IF n = 0 THEN 0
                 ELSE (((a % 2) + (b % 2)) % 2) + 2 * XorN(a \div 2, b \div 2, n - 1)
Xor(a, b) == XorN(a, b, 8)

(* multiply the polynomial c (degree < 8) by x modulo x^8+x^7+x^4+x^3+x+1 *)
MulX(c) == IF c >= 128 THEN Xor((c - 128) * 2, 155) ELSE c * 2     \* 155 = 0x9B
RECURSIVE MulXn(_, _)
MulXn(c, n) == IF n = 0 THEN c ELSE MulXn(MulX(c), n - 1)

(* one CRC update step: feed 8 further message bits *)
CrcStep(c, v) == Xor(MulXn(c, 8), v)

RECURSIVE FoldCrc(_, _)
FoldCrc(c, s) == IF s = <<>> THEN c ELSE FoldCrc(CrcStep(c, Head(s)), Tail(s))

RECURSIVE Escape(_)
Escape(s) == IF s = <<>> THEN <<>>
             ELSE (IF Head(s) = ESC THEN <<ESC, 0>>
                   ELSE IF Head(s) = SYN THEN <<ESC, 1>> ELSE <<Head(s)>>) \o Escape(Tail(s))

(* CRC of an (unescaped) symbol string = CRC over the escaped sequence *)
Crc(s) == FoldCrc(0, Escape(s))

(* Unescape as a two-state automaton; result is [ok |-> BOOLEAN, s |-> Seq(Byte)] *)
RECURSIVE UnescapeA(_, _, _)
UnescapeA(s, inEsc, acc) ==
  IF s = <<>> THEN [ok |-> ~inEsc, s |-> acc]
  ELSE LET h == Head(s) IN
       IF inEsc THEN (IF h = 0 THEN UnescapeA(Tail(s), FALSE, Append(acc, ESC))
                      ELSE IF h = 1 THEN UnescapeA(Tail(s), FALSE, Append(acc, SYN))
                      ELSE [ok |-> FALSE, s |-> acc])
       ELSE IF h = ESC THEN UnescapeA(Tail(s), TRUE, acc)
       ELSE IF h = SYN THEN [ok |-> FALSE, s |-> acc]
       ELSE UnescapeA(Tail(s), FALSE, Append(acc, h))
Unescape(s) == UnescapeA(s, FALSE, <<>>)

(* address classes *)
MasterNibbles == {0, 1, 3, 7, 15}
IsMaster(a) == (a % 16) \in MasterNibbles /\ (a \div 16) \in MasterNibbles
Masters == {a \in Byte : IsMaster(a)}
NibbleIndex(n) == CASE n = 0 -> 1 [] n = 1 -> 2 [] n = 3 -> 3 [] n = 7 -> 4 [] n = 15 -> 5 [] OTHER -> 0
(* priority class = low nibble, sub address = high nibble; number 1..25 *)
MasterNumber(a) == IF IsMaster(a) THEN 5 * (NibbleIndex(a % 16) - 1) + NibbleIndex(a \div 16) ELSE 0
ValidAddress(a, allowBroadcast) == a # SYN /\ a # ESC /\ (allowBroadcast \/ a # BROADCAST)
SlaveOf(m) == (m + 5) % 256
IsSlaveOfMaster(a) == IsMaster((a + 251) % 256)
MasterOf(a) == IF IsMaster(a) THEN a ELSE IF IsSlaveOfMaster(a) THEN (a + 251) % 256 ELSE SYN
SlaveAddr(a) == IF IsMaster(a) THEN SlaveOf(a) ELSE IF ValidAddress(a, FALSE) THEN a ELSE SYN

(* TLC-internal lemmas (no code involved), checked as ASSUMEs by MC_EbusSymbols *)
LemmaMasters == Cardinality(Masters) = 25
LemmaNumberBijection == {MasterNumber(a) : a \in Masters} = 1..25
LemmaSlaveInjective == \A a, b \in Masters : SlaveOf(a) = SlaveOf(b) => a = b
LemmaSlaveNotMaster == \A a \in Masters : ~IsMaster(SlaveOf(a)) /\ MasterOf(SlaveOf(a)) = a
LemmaSynEscInvalid == ~ValidAddress(SYN, TRUE) /\ ~ValidAddress(ESC, TRUE) /\ ~IsMaster(SYN) /\ ~IsMaster(ESC)
LemmaUnescapeInverts == \A a, b \in {0, 1, 2, 168, 169, 170, 171, 255} :
                           Unescape(Escape(<<a, b>>)) = [ok |-> TRUE, s |-> <<a, b>>]
LemmaCrcInduction == \A a, b \in {0, 1, 169, 170, 255} : \A v \in {0, 66, 169, 170} :
                           Crc(<<a, b, v>>) = FoldCrc(Crc(<<a, b>>), Escape(<<v>>))
=============================================================================
