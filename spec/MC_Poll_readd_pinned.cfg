CONSTANTS
  InitPrios <- P12
  SetPrios = {1}
  SetPrioMsgs = {1, 2, 3, 4}
  Alphabet <- AlphaReAdd
  K = 1
  ReAddPinned = TRUE
  CapBase = 24
INIT Init
NEXT Next
VIEW View
INVARIANT PWait
INVARIANT PProp
INVARIANT QueueIsPollSet
CONSTRAINT GConstraint
