\* faults: read errors, write errors, long silence anywhere, late arbitration echo; one self-deleting broadcast request,
\* one bus-lost retry.  Life-cycle monitor only, like the fault configurations of C04 on G.
CONSTANTS
  PC <- MCPC_bcdel
  Cfg <- MCCfg
  Mons = {"q"}
  QQs = {3}
  ZZs = {254}
  Datas = {66}
  Winners = {3}
  NNMax = 0
  SNNMax = 0
  SubmitWhen = 1
  LongToAny = TRUE
  ReadErr = TRUE
  WriteErr = TRUE
  LateEcho = TRUE
  PBs = {181}
  SBs = {9}
  Junk = {66}
  LongTo = TRUE
  EchoFaults = FALSE
  ArbNone = TRUE
  EscQQ = FALSE
  OpenFail = FALSE
  Reconnect = FALSE
INIT Init
NEXT Next
VIEW View
INVARIANT MonOk
INVARIANT NoUb
INVARIANT ArbSane
