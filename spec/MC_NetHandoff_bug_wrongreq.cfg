CONSTANTS Variant = "small" Bug = "wrongreq"
SPECIFICATION FairSpec
INVARIANT McOk
INVARIANT McNoDangle
PROPERTY McLive
