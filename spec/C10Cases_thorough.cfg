CONSTANT SGuardAfter = FALSE
CONSTANT FullLen = 4
CONSTANT OneLen = 5
CONSTANT OneKinds = {1,2,5,6,7,8,9,10,14}
INIT Init
NEXT Next
INVARIANT Lemmas
INVARIANT Emit
PROPERTY PrefixStable
