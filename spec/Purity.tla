------------------------------- MODULE Purity -------------------------------
(* C12 - codec results are pure: independent of call history and load order.                   *)
(*                                                                                              *)
(* P is a memo automaton over observable events only.  An event Do(op, res) says "operation op  *)
(* (a field definition together with an input) returned res = (result codes, output)".  The     *)
(* automaton remembers the first result of every operation; Do(op, res) is enabled iff          *)
(* memo[op] is still unknown or equals res.  A trace of the real code is accepted iff every     *)
(* event is enabled when it occurs, i.e. iff no operation ever returns two different results -  *)
(* within one process after arbitrary other operations, across fresh processes, and across     *)
(* permutations of the load order of independent definition lines.                              *)
(*                                                                                              *)
(* The module also defines the input domain: the operation alphabet Ops (chosen to touch every  *)
(* piece of hidden state the anchors name: the C library error indicator consulted after        *)
(* number parsing, the cache of derived number types, the format state of a shared output       *)
(* stream), the histories (all sequences up to a bound) and the load sets with their            *)
(* permutations.  PurityGen emits them, harness/c12_purity.cpp replays them, PurityTV validates *)
(* the recorded trace against this automaton.                                                   *)
EXTENDS Naturals, Sequences, FiniteSets, TLC

Unknown == [unknown |-> TRUE]

(* ------------------------------------------------------------------ the automaton ---------- *)
Enabled(memo, op, res) == memo[op] = Unknown \/ memo[op] = res
Record(memo, op, res) == [memo EXCEPT ![op] = res]

(* ------------------------------------------------------------------ operation alphabet ----- *)
(* act: "enc" encode text t, "dec" decode bytes b (appending to the shared output stream),      *)
(* "mk" create and dump the definition.  tpl: lines of a template file (first line = header)    *)
(* the definition refers to; def: field definition line name,part,type,divisor/values,range;    *)
(* fmt: output format flags (32 = JSON).  cls names the kind of operation for signatures.       *)
Ops == <<
  \* 1: enc x,,UIN '100'
  [id |-> 1, act |-> "enc", cls |-> "encode-number", tpl |-> <<>>,
   def |-> <<120, 44, 44, 85, 73, 78>>,
   t |-> <<49, 48, 48>>, b |-> <<>>, fmt |-> 0],
  \* 2: enc x,,UIN '99999999999999999999'
  [id |-> 2, act |-> "enc", cls |-> "erange-input", tpl |-> <<>>,
   def |-> <<120, 44, 44, 85, 73, 78>>,
   t |-> <<57, 57, 57, 57, 57, 57, 57, 57, 57, 57, 57, 57, 57, 57, 57, 57, 57, 57, 57, 57>>, b |-> <<>>, fmt |-> 0],
  \* 3: enc x,,SIN '-5'
  [id |-> 3, act |-> "enc", cls |-> "encode-number", tpl |-> <<>>,
   def |-> <<120, 44, 44, 83, 73, 78>>,
   t |-> <<45, 53>>, b |-> <<>>, fmt |-> 0],
  \* 4: enc x,,SIN '-99999999999999999999'
  [id |-> 4, act |-> "enc", cls |-> "erange-input", tpl |-> <<>>,
   def |-> <<120, 44, 44, 83, 73, 78>>,
   t |-> <<45, 57, 57, 57, 57, 57, 57, 57, 57, 57, 57, 57, 57, 57, 57, 57, 57, 57, 57, 57, 57>>, b |-> <<>>, fmt |-> 0],
  \* 5: enc x,,D2C '12.5'
  [id |-> 5, act |-> "enc", cls |-> "encode-number", tpl |-> <<>>,
   def |-> <<120, 44, 44, 68, 50, 67>>,
   t |-> <<49, 50, 46, 53>>, b |-> <<>>, fmt |-> 0],
  \* 6: enc x,,D2C '1e999'
  [id |-> 6, act |-> "enc", cls |-> "erange-input", tpl |-> <<>>,
   def |-> <<120, 44, 44, 68, 50, 67>>,
   t |-> <<49, 101, 57, 57, 57>>, b |-> <<>>, fmt |-> 0],
  \* 7: enc x,,EXP '1.5'
  [id |-> 7, act |-> "enc", cls |-> "encode-number", tpl |-> <<>>,
   def |-> <<120, 44, 44, 69, 88, 80>>,
   t |-> <<49, 46, 53>>, b |-> <<>>, fmt |-> 0],
  \* 8: enc x,,EXP '-1e999'
  [id |-> 8, act |-> "enc", cls |-> "erange-input", tpl |-> <<>>,
   def |-> <<120, 44, 44, 69, 88, 80>>,
   t |-> <<45, 49, 101, 57, 57, 57>>, b |-> <<>>, fmt |-> 0],
  \* 9: enc x,,EXP 'x'
  [id |-> 9, act |-> "enc", cls |-> "malformed-input", tpl |-> <<>>,
   def |-> <<120, 44, 44, 69, 88, 80>>,
   t |-> <<120>>, b |-> <<>>, fmt |-> 0],
  \* 10: enc x,,UCH,0=off;1=on 'on'
  [id |-> 10, act |-> "enc", cls |-> "encode-list", tpl |-> <<>>,
   def |-> <<120, 44, 44, 85, 67, 72, 44, 48, 61, 111, 102, 102, 59, 49, 61, 111, 110>>,
   t |-> <<111, 110>>, b |-> <<>>, fmt |-> 0],
  \* 11: enc x,,UCH,0=off;1=on '99999999999999999999'
  [id |-> 11, act |-> "enc", cls |-> "erange-input", tpl |-> <<>>,
   def |-> <<120, 44, 44, 85, 67, 72, 44, 48, 61, 111, 102, 102, 59, 49, 61, 111, 110>>,
   t |-> <<57, 57, 57, 57, 57, 57, 57, 57, 57, 57, 57, 57, 57, 57, 57, 57, 57, 57, 57, 57>>, b |-> <<>>, fmt |-> 0],
  \* 12: enc x,,ULG,10 '6.5'
  [id |-> 12, act |-> "enc", cls |-> "encode-number", tpl |-> <<>>,
   def |-> <<120, 44, 44, 85, 76, 71, 44, 49, 48>>,
   t |-> <<54, 46, 53>>, b |-> <<>>, fmt |-> 0],
  \* 13: enc x,,UCH,,1-50 '7'
  [id |-> 13, act |-> "enc", cls |-> "create-ranged-field", tpl |-> <<>>,
   def |-> <<120, 44, 44, 85, 67, 72, 44, 44, 49, 45, 53, 48>>,
   t |-> <<55>>, b |-> <<>>, fmt |-> 0],
  \* 14: enc x,,UCH,10 '6.0'
  [id |-> 14, act |-> "enc", cls |-> "derived-divisor", tpl |-> <<>>,
   def |-> <<120, 44, 44, 85, 67, 72, 44, 49, 48>>,
   t |-> <<54, 46, 48>>, b |-> <<>>, fmt |-> 0],
  \* 15: enc x,,tr,10 [templates: tr,UCH,,0-50] '6.0'
  [id |-> 15, act |-> "enc", cls |-> "ranged-template-divisor", tpl |-> <<<<110, 97, 109, 101, 44, 42, 116, 121, 112, 101, 44, 100, 105, 118, 105, 115, 111, 114, 47, 118, 97, 108, 117, 101, 115, 44, 114, 97, 110, 103, 101, 44, 117, 110, 105, 116, 44, 99, 111, 109, 109, 101, 110, 116>>, <<116, 114, 44, 85, 67, 72, 44, 44, 48, 45, 53, 48>>>>,
   def |-> <<120, 44, 44, 116, 114, 44, 49, 48>>,
   t |-> <<54, 46, 48>>, b |-> <<>>, fmt |-> 0],
  \* 16: enc x,,ts,10 [templates: ts,SIN,,-100-100] '20.0'
  [id |-> 16, act |-> "enc", cls |-> "ranged-template-divisor", tpl |-> <<<<110, 97, 109, 101, 44, 42, 116, 121, 112, 101, 44, 100, 105, 118, 105, 115, 111, 114, 47, 118, 97, 108, 117, 101, 115, 44, 114, 97, 110, 103, 101, 44, 117, 110, 105, 116, 44, 99, 111, 109, 109, 101, 110, 116>>, <<116, 115, 44, 83, 73, 78, 44, 44, 45, 49, 48, 48, 45, 49, 48, 48>>>>,
   def |-> <<120, 44, 44, 116, 115, 44, 49, 48>>,
   t |-> <<50, 48, 46, 48>>, b |-> <<>>, fmt |-> 0],
  \* 17: enc x,,tm,10 [templates: tm,UCH,,10-254] '0.5'
  [id |-> 17, act |-> "enc", cls |-> "ranged-template-divisor", tpl |-> <<<<110, 97, 109, 101, 44, 42, 116, 121, 112, 101, 44, 100, 105, 118, 105, 115, 111, 114, 47, 118, 97, 108, 117, 101, 115, 44, 114, 97, 110, 103, 101, 44, 117, 110, 105, 116, 44, 99, 111, 109, 109, 101, 110, 116>>, <<116, 109, 44, 85, 67, 72, 44, 44, 49, 48, 45, 50, 53, 52>>>>,
   def |-> <<120, 44, 44, 116, 109, 44, 49, 48>>,
   t |-> <<48, 46, 53>>, b |-> <<>>, fmt |-> 0],
  \* 18: enc x,,SIN,10 '20.0'
  [id |-> 18, act |-> "enc", cls |-> "derived-divisor", tpl |-> <<>>,
   def |-> <<120, 44, 44, 83, 73, 78, 44, 49, 48>>,
   t |-> <<50, 48, 46, 48>>, b |-> <<>>, fmt |-> 0],
  \* 19: dec x,,UCH 64
  [id |-> 19, act |-> "dec", cls |-> "decode-number", tpl |-> <<>>,
   def |-> <<120, 44, 44, 85, 67, 72>>,
   t |-> <<>>, b |-> <<100>>, fmt |-> 0],
  \* 20: dec x,,HEX:3 0a1b2c
  [id |-> 20, act |-> "dec", cls |-> "decode-hex", tpl |-> <<>>,
   def |-> <<120, 44, 44, 72, 69, 88, 58, 51>>,
   t |-> <<>>, b |-> <<10, 27, 44>>, fmt |-> 0],
  \* 21: dec x,,UIN 1027
  [id |-> 21, act |-> "dec", cls |-> "decode-number", tpl |-> <<>>,
   def |-> <<120, 44, 44, 85, 73, 78>>,
   t |-> <<>>, b |-> <<16, 39>>, fmt |-> 0],
  \* 22: dec x,,D2C c800
  [id |-> 22, act |-> "dec", cls |-> "decode-fixed", tpl |-> <<>>,
   def |-> <<120, 44, 44, 68, 50, 67>>,
   t |-> <<>>, b |-> <<200, 0>>, fmt |-> 0],
  \* 23: dec x,,EXP 19049e3f
  [id |-> 23, act |-> "dec", cls |-> "decode-float", tpl |-> <<>>,
   def |-> <<120, 44, 44, 69, 88, 80>>,
   t |-> <<>>, b |-> <<25, 4, 158, 63>>, fmt |-> 0],
  \* 24: dec x,,PIN 0123
  [id |-> 24, act |-> "dec", cls |-> "decode-padded", tpl |-> <<>>,
   def |-> <<120, 44, 44, 80, 73, 78>>,
   t |-> <<>>, b |-> <<1, 35>>, fmt |-> 0],
  \* 25: dec x,,BDA:3 010220
  [id |-> 25, act |-> "dec", cls |-> "decode-padded", tpl |-> <<>>,
   def |-> <<120, 44, 44, 66, 68, 65, 58, 51>>,
   t |-> <<>>, b |-> <<1, 2, 32>>, fmt |-> 0],
  \* 26: dec x,,BDA:3 ffff01
  [id |-> 26, act |-> "dec", cls |-> "decode-padded", tpl |-> <<>>,
   def |-> <<120, 44, 44, 66, 68, 65, 58, 51>>,
   t |-> <<>>, b |-> <<255, 255, 1>>, fmt |-> 0],
  \* 27: dec x,,UCH,0=off;1=on 01
  [id |-> 27, act |-> "dec", cls |-> "decode-list", tpl |-> <<>>,
   def |-> <<120, 44, 44, 85, 67, 72, 44, 48, 61, 111, 102, 102, 59, 49, 61, 111, 110>>,
   t |-> <<>>, b |-> <<1>>, fmt |-> 0],
  \* 28: dec x,,UCH,0=off;1=on 1a
  [id |-> 28, act |-> "dec", cls |-> "decode-list", tpl |-> <<>>,
   def |-> <<120, 44, 44, 85, 67, 72, 44, 48, 61, 111, 102, 102, 59, 49, 61, 111, 110>>,
   t |-> <<>>, b |-> <<26>>, fmt |-> 0],
  \* 29: dec x,,SCH ff
  [id |-> 29, act |-> "dec", cls |-> "decode-number", tpl |-> <<>>,
   def |-> <<120, 44, 44, 83, 67, 72>>,
   t |-> <<>>, b |-> <<255>>, fmt |-> 0],
  \* 30: dec x,,ULG,10 41000000
  [id |-> 30, act |-> "dec", cls |-> "decode-fixed", tpl |-> <<>>,
   def |-> <<120, 44, 44, 85, 76, 71, 44, 49, 48>>,
   t |-> <<>>, b |-> <<65, 0, 0, 0>>, fmt |-> 0],
  \* 31: dec x,,UCH,10 3c
  [id |-> 31, act |-> "dec", cls |-> "derived-divisor", tpl |-> <<>>,
   def |-> <<120, 44, 44, 85, 67, 72, 44, 49, 48>>,
   t |-> <<>>, b |-> <<60>>, fmt |-> 0],
  \* 32: dec x,,tr,10 [templates: tr,UCH,,0-50] 3c
  [id |-> 32, act |-> "dec", cls |-> "ranged-template-divisor", tpl |-> <<<<110, 97, 109, 101, 44, 42, 116, 121, 112, 101, 44, 100, 105, 118, 105, 115, 111, 114, 47, 118, 97, 108, 117, 101, 115, 44, 114, 97, 110, 103, 101, 44, 117, 110, 105, 116, 44, 99, 111, 109, 109, 101, 110, 116>>, <<116, 114, 44, 85, 67, 72, 44, 44, 48, 45, 53, 48>>>>,
   def |-> <<120, 44, 44, 116, 114, 44, 49, 48>>,
   t |-> <<>>, b |-> <<60>>, fmt |-> 0],
  \* 33: mk x,,UCH,10 
  [id |-> 33, act |-> "mk", cls |-> "derived-divisor", tpl |-> <<>>,
   def |-> <<120, 44, 44, 85, 67, 72, 44, 49, 48>>,
   t |-> <<>>, b |-> <<>>, fmt |-> 0],
  \* 34: mk x,,tr,10 [templates: tr,UCH,,0-50] 
  [id |-> 34, act |-> "mk", cls |-> "ranged-template-divisor", tpl |-> <<<<110, 97, 109, 101, 44, 42, 116, 121, 112, 101, 44, 100, 105, 118, 105, 115, 111, 114, 47, 118, 97, 108, 117, 101, 115, 44, 114, 97, 110, 103, 101, 44, 117, 110, 105, 116, 44, 99, 111, 109, 109, 101, 110, 116>>, <<116, 114, 44, 85, 67, 72, 44, 44, 48, 45, 53, 48>>>>,
   def |-> <<120, 44, 44, 116, 114, 44, 49, 48>>,
   t |-> <<>>, b |-> <<>>, fmt |-> 0]
>>

OpIds == 1..Len(Ops)
CoreOps == {1, 2, 3, 4, 5, 6, 7, 8, 11, 12, 13, 14, 15, 16, 17, 20, 21, 22, 23, 24, 26, 32}      \* representatives used for the longest histories

(* all op sequences of length <= L, plus (thorough) length L+1 over the core operations *)
RECURSIVE SeqsUpTo(_, _)
SeqsUpTo(S, n) == IF n = 0 THEN {<<>>} ELSE LET P == SeqsUpTo(S, n - 1) IN
                  P \cup {Append(p, o) : p \in {q \in P : Len(q) = n - 1}, o \in S}
Histories(L, deep) ==
  (SeqsUpTo(OpIds, L) \ {<<>>}) \cup (IF deep THEN {h \in SeqsUpTo(CoreOps, L + 1) : Len(h) = L + 1} ELSE {})
NumHistories(L, deep) ==
  LET n == Len(Ops)  c == Cardinality(CoreOps)
      RECURSIVE Pw(_, _)
      Pw(b, k) == IF k = 0 THEN 1 ELSE b * Pw(b, k - 1)
      RECURSIVE Sum(_)
      Sum(k) == IF k = 0 THEN 0 ELSE Pw(n, k) + Sum(k - 1)
  IN Sum(L) + (IF deep THEN Pw(c, L + 1) ELSE 0)
IsHistory(h, L, deep) ==
  /\ Len(h) >= 1
  /\ \/ Len(h) <= L /\ \A j \in 1..Len(h) : h[j] \in OpIds
     \/ deep /\ Len(h) = L + 1 /\ \A j \in 1..Len(h) : h[j] \in CoreOps

(* ------------------------------------------------------------------ load sets -------------- *)
(* independent definition lines (no line refers to another one of the set); every permutation  *)
(* of a set is loaded into a fresh MessageMap (after the fixed template file tplfile), then the *)
(* definitions are dumped (sorted) and probed.  A load is an operation of the same automaton:   *)
(* op = the set, result = (dump, probe results).                                                *)
LoadTemplates == <<<<110, 97, 109, 101, 44, 42, 116, 121, 112, 101, 44, 100, 105, 118, 105, 115, 111, 114, 47, 118, 97, 108, 117, 101, 115, 44, 114, 97, 110, 103, 101, 44, 117, 110, 105, 116, 44, 99, 111, 109, 109, 101, 110, 116>>, <<116, 114, 44, 85, 67, 72, 44, 44, 48, 45, 53, 48>>, <<116, 115, 44, 83, 73, 78, 44, 44, 45, 49, 48, 48, 45, 49, 48, 48>>, <<116, 109, 44, 85, 67, 72, 44, 44, 49, 48, 45, 50, 53, 52>>>>
LoadSets == <<
  [tag |-> "unsigned-divisor-plain-vs-ranged-template", lines |-> <<
    \* w,c,plain,,,08,b509,0d0100,x,,UCH,10   probe: write '6.0'
    [line |-> <<119, 44, 99, 44, 112, 108, 97, 105, 110, 44, 44, 44, 48, 56, 44, 98, 53, 48, 57, 44, 48, 100, 48, 49, 48, 48, 44, 120, 44, 44, 85, 67, 72, 44, 49, 48>>,
     name |-> <<112, 108, 97, 105, 110>>, probe |-> <<54, 46, 48>>],
    \* w,c,rng,,,08,b509,0d0200,x,,tr,10   probe: write '6.0'
    [line |-> <<119, 44, 99, 44, 114, 110, 103, 44, 44, 44, 48, 56, 44, 98, 53, 48, 57, 44, 48, 100, 48, 50, 48, 48, 44, 120, 44, 44, 116, 114, 44, 49, 48>>,
     name |-> <<114, 110, 103>>, probe |-> <<54, 46, 48>>],
    \* w,c,temp,,,08,b509,0d0300,x,,D2C   probe: write '12.5'
    [line |-> <<119, 44, 99, 44, 116, 101, 109, 112, 44, 44, 44, 48, 56, 44, 98, 53, 48, 57, 44, 48, 100, 48, 51, 48, 48, 44, 120, 44, 44, 68, 50, 67>>,
     name |-> <<116, 101, 109, 112>>, probe |-> <<49, 50, 46, 53>>],
    \* w,c,mode,,,08,b509,0d0400,x,,UCH,0=off;1=on   probe: write 'on'
    [line |-> <<119, 44, 99, 44, 109, 111, 100, 101, 44, 44, 44, 48, 56, 44, 98, 53, 48, 57, 44, 48, 100, 48, 52, 48, 48, 44, 120, 44, 44, 85, 67, 72, 44, 48, 61, 111, 102, 102, 59, 49, 61, 111, 110>>,
     name |-> <<109, 111, 100, 101>>, probe |-> <<111, 110>>]
  >>],
  [tag |-> "signed-and-min-only-divisor-plain-vs-ranged-template", lines |-> <<
    \* w,c,splain,,,08,b509,0e0100,x,,SIN,10   probe: write '20.0'
    [line |-> <<119, 44, 99, 44, 115, 112, 108, 97, 105, 110, 44, 44, 44, 48, 56, 44, 98, 53, 48, 57, 44, 48, 101, 48, 49, 48, 48, 44, 120, 44, 44, 83, 73, 78, 44, 49, 48>>,
     name |-> <<115, 112, 108, 97, 105, 110>>, probe |-> <<50, 48, 46, 48>>],
    \* w,c,srng,,,08,b509,0e0200,x,,ts,10   probe: write '20.0'
    [line |-> <<119, 44, 99, 44, 115, 114, 110, 103, 44, 44, 44, 48, 56, 44, 98, 53, 48, 57, 44, 48, 101, 48, 50, 48, 48, 44, 120, 44, 44, 116, 115, 44, 49, 48>>,
     name |-> <<115, 114, 110, 103>>, probe |-> <<50, 48, 46, 48>>],
    \* w,c,up,,,08,b509,0e0300,x,,UCH,10   probe: write '0.5'
    [line |-> <<119, 44, 99, 44, 117, 112, 44, 44, 44, 48, 56, 44, 98, 53, 48, 57, 44, 48, 101, 48, 51, 48, 48, 44, 120, 44, 44, 85, 67, 72, 44, 49, 48>>,
     name |-> <<117, 112>>, probe |-> <<48, 46, 53>>],
    \* w,c,mrng,,,08,b509,0e0400,x,,tm,10   probe: write '0.5'
    [line |-> <<119, 44, 99, 44, 109, 114, 110, 103, 44, 44, 44, 48, 56, 44, 98, 53, 48, 57, 44, 48, 101, 48, 52, 48, 48, 44, 120, 44, 44, 116, 109, 44, 49, 48>>,
     name |-> <<109, 114, 110, 103>>, probe |-> <<48, 46, 53>>]
  >>],
  [tag |-> "multi-field-plain-vs-ranged-template", lines |-> <<
    \* w,c,a,,,08,b509,0f0100,x,,UCH,10,,,y,,UIN   probe: write '1.5;7'
    [line |-> <<119, 44, 99, 44, 97, 44, 44, 44, 48, 56, 44, 98, 53, 48, 57, 44, 48, 102, 48, 49, 48, 48, 44, 120, 44, 44, 85, 67, 72, 44, 49, 48, 44, 44, 44, 121, 44, 44, 85, 73, 78>>,
     name |-> <<97>>, probe |-> <<49, 46, 53, 59, 55>>],
    \* w,c,b,,,08,b509,0f0200,x,,tr,10,,,y,,HEX:2   probe: write '1.5;0a 0b'
    [line |-> <<119, 44, 99, 44, 98, 44, 44, 44, 48, 56, 44, 98, 53, 48, 57, 44, 48, 102, 48, 50, 48, 48, 44, 120, 44, 44, 116, 114, 44, 49, 48, 44, 44, 44, 121, 44, 44, 72, 69, 88, 58, 50>>,
     name |-> <<98>>, probe |-> <<49, 46, 53, 59, 48, 97, 32, 48, 98>>],
    \* w,c,d,,,08,b509,0f0300,x,,tr,10   probe: write '7.0'
    [line |-> <<119, 44, 99, 44, 100, 44, 44, 44, 48, 56, 44, 98, 53, 48, 57, 44, 48, 102, 48, 51, 48, 48, 44, 120, 44, 44, 116, 114, 44, 49, 48>>,
     name |-> <<100>>, probe |-> <<55, 46, 48>>],
    \* w,c,e,,,08,b509,0f0400,x,,UCH,10,,,y,,tr,10   probe: write '7.0;7.0'
    [line |-> <<119, 44, 99, 44, 101, 44, 44, 44, 48, 56, 44, 98, 53, 48, 57, 44, 48, 102, 48, 52, 48, 48, 44, 120, 44, 44, 85, 67, 72, 44, 49, 48, 44, 44, 44, 121, 44, 44, 116, 114, 44, 49, 48>>,
     name |-> <<101>>, probe |-> <<55, 46, 48, 59, 55, 46, 48>>]
  >>]
>>

Perms(n) == {p \in [1..n -> 1..n] : \A a, b \in 1..n : a # b => p[a] # p[b]}
LoadOp(s) == 1000 + s                         \* operation id of "load set s" in the automaton

=============================================================================
