------------------------------ MODULE C19Judge ------------------------------
(* Judges the records harness/c19_csv.cpp wrote from the real code against Csv.               *)
(* One family per run (VF_FAMILY): split | defs.                                              *)
EXTENDS Csv, TLC, Json, IOUtils

Thorough == IOEnv.VF_TIER = "thorough"
Family == IOEnv.VF_FAMILY
Recs == ndJsonDeserialize(IOEnv.VF_RECS)
N == Len(Recs)
K == 32
VARIABLE i
Init == i = 0
Next == \/ /\ i = 0 /\ i' \in {1 + K * s : s \in 0..((N - 1) \div K)}
        \/ /\ i > 0 /\ i % K # 0 /\ i < N /\ i' = i + 1

(* ---- split: index of the first writing of the field list that was not read back, 0 if none *)
SplitBad(r) == LET B == {k \in 1..Len(r.lines) :
                           \/ r.outs[k].ok # 1
                           \/ (~AllEmpty(r.fields) /\ r.outs[k].rest # 0)      \* the line (and only it) must be consumed;
                                                                               \* a blank line may be skipped
                           \/ (~AllEmpty(r.fields) /\ ~SameFields(r.outs[k].row, r.fields))
                           \/ SplitLine(r.lines[k]) # [ok |-> TRUE, fields |-> r.fields]}
               IN IF B = {} THEN 0 ELSE CHOOSE k \in B : \A j \in B : k <= j
SplitOk(r) == /\ Len(r.outs) = Len(r.lines) /\ SplitBad(r) = 0
              /\ IF Family = "replay" THEN ToSet(r.lines) \subseteq Lines(r.fields) ELSE ToSet(r.lines) = Lines(r.fields)

(* ---- defs ---- *)
RECURSIVE IndexFrom(_, _, _)
IndexFrom(s, c, k) == IF k > Len(s) THEN 0 ELSE IF s[k] = c THEN k ELSE IndexFrom(s, c, k + 1)
RECURSIVE LinesOf(_)
LinesOf(t) == LET p == IndexFrom(t, LF, 1) IN
              IF t = <<>> THEN <<>> ELSE IF p = 0 THEN <<t>> ELSE <<SubSeq(t, 1, p - 1)>> \o LinesOf(SubSeq(t, p + 1, Len(t)))

(* columns compared with the address / id columns in lower case *)
NormCols(c) == [k \in 1..Len(c) |-> IF k \in 5..8 THEN Lower(c[k]) ELSE c[k]]
ColsOfLine(l) == LET r == SplitLine(l) IN IF r.ok THEN NormCols(r.fields) ELSE <<"unreadable">>
WantAttrs(D) == {MsgAttr(D[k]) : k \in 1..Len(D)}
WantCols(D) == {NormCols(Cols(D[k])) : k \in 1..Len(D)}

DefsVerdict(r) ==
  LET D == r.D
      l1 == LinesOf(r.d1)
  IN
  IF r.text # (IF r.v = "canon" THEN DumpText(D) ELSE AltText(D)) THEN "case-corrupted"
  ELSE IF r.rc1 # 0 THEN "load-rejected"
  ELSE IF Len(r.a1) # Len(D) \/ ToSet(r.a1) # WantAttrs(D) THEN "attributes-after-load"
  ELSE IF Len(l1) # Len(D) + 1 \/ l1[1] # Header \/ {ColsOfLine(l1[k]) : k \in 2..Len(l1)} # WantCols(D) THEN "dump-columns"
  ELSE IF Len(r.f1) # Len(D) \/ {ColsOfLine(r.f1[k]) : k \in 1..Len(r.f1)} # WantCols(D) THEN "find-dump-columns"
  ELSE IF r.rc2 # 0 THEN "reload-of-dump-rejected"
  ELSE IF Len(r.a2) # Len(D) \/ ToSet(r.a2) # WantAttrs(D) THEN "attributes-after-reload"
  ELSE IF r.d2 # r.d1 \/ r.f2 # r.f1 THEN "dump-not-idempotent"
  ELSE "ok"

Ok(r) == CASE r.k = "split" -> SplitOk(r)
           [] r.k = "defs" -> DefsVerdict(r) = "ok"
           [] OTHER -> FALSE
Sig(r) == CASE r.k = "split" -> <<"split", SplitBad(r)>>
            [] r.k = "defs" -> <<"defs", DefsVerdict(r)>>
            [] OTHER -> <<"unknown">>
Judge == i = 0 \/ Ok(Recs[i]) \/ ~PrintT(<<"VF", "BAD", i, Sig(Recs[i])>>)

ASSUME Family = "split" => {Recs[k].fields : k \in 1..N} = FieldLists(Thorough) \ {<<>>}
ASSUME Family = "defs" => {<<Recs[k].D, Recs[k].v>> : k \in 1..N} = {<<D, v>> : D \in DefSets(Thorough), v \in {"canon", "alt"}}
ASSUME Family = "defs-shard" => \A k \in 1..N : Recs[k].D \in DefSets(Thorough) /\ Recs[k].v \in {"canon", "alt"}
ASSUME Family = "defs-shard" => Cardinality({<<Recs[j].D, Recs[j].v>> : j \in 1..N}) = N
ASSUME PrintT(<<"VF", "DOMAIN", Family, N>>)
=============================================================================
