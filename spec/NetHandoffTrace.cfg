INIT NInit
NEXT NNext
INVARIANT Accepted
INVARIANT Stuck
