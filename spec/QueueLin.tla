------------------------------ MODULE QueueLin ------------------------------
(* The queue between client threads and the bus thread (src/lib/utils/queue.h): *)
(* P = sequential FIFO specification; the recorded concurrent histories of the  *)
(* real Queue<T> (harness/queue_lin.cpp) are checked for LINEARIZABILITY: every *)
(* call must take effect atomically at some point between its invocation and   *)
(* its response, with the result the sequential specification gives there.     *)
(*   push(x)          appends x (x = 0: notification only), returns nothing     *)
(*   pop / popw       returns and removes the head, or 0 when empty             *)
(*   peek             returns the head, or 0 when empty                         *)
(*   rem(x)           removes x; 1 iff it was in the queue                      *)
(*   remw(x)          waits until x is in the queue, removes it, returns 1      *)
(*                    (it never returns 0: that would release a waiter without  *)
(*                     its request having been finished)                        *)
(* Trace checking: one TLC behaviour per history; the linearization point of a  *)
(* pending call is an internal step; a history is accepted when all its events  *)
(* are consumed.                                                                *)
EXTENDS Naturals, Sequences, FiniteSets, TLC, Json, IOUtils

Hists == ndJsonDeserialize(IOEnv.VF_HISTS)
Threads == 0..3

RangeOf(s) == {s[k] : k \in 1..Len(s)}
RECURSIVE Without(_, _)
Without(s, x) == IF s = <<>> THEN <<>> ELSE IF Head(s) = x THEN Without(Tail(s), x) ELSE <<Head(s)>> \o Without(Tail(s), x)

(* sequential specification: [en |-> enabled, q |-> queue after, res |-> result] *)
Seq1(op, arg, qu) ==
  CASE op = "push" -> [en |-> TRUE, q |-> IF arg = 0 THEN qu ELSE Append(qu, arg), res |-> 0]
    [] op \in {"pop", "popw"} -> IF qu = <<>> THEN [en |-> TRUE, q |-> qu, res |-> 0] ELSE [en |-> TRUE, q |-> Tail(qu), res |-> Head(qu)]
    [] op = "peek" -> [en |-> TRUE, q |-> qu, res |-> IF qu = <<>> THEN 0 ELSE Head(qu)]
    [] op = "rem" -> [en |-> TRUE, q |-> Without(qu, arg), res |-> IF arg \in RangeOf(qu) THEN 1 ELSE 0]
    [] op = "remw" -> [en |-> arg \in RangeOf(qu), q |-> Without(qu, arg), res |-> 1]

Idle == [st |-> "idle", op |-> "", arg |-> 0, res |-> 0]

VARIABLES lh, lpos, lq, lpend
lvars == <<lh, lpos, lq, lpend>>
EvOf(h) == Hists[h].ev

LInit == lh \in 1..Len(Hists) /\ lpos = 1 /\ lq = <<>> /\ lpend = [t \in Threads |-> Idle]

LInv == /\ lpos > 0 /\ lpos <= Len(EvOf(lh))
        /\ LET e == EvOf(lh)[lpos] IN
           /\ e[2] = "inv" /\ lpend[e[1]].st = "idle"
           /\ lpend' = [lpend EXCEPT ![e[1]] = [st |-> "inv", op |-> e[3], arg |-> e[4], res |-> 0]]
        /\ lpos' = lpos + 1 /\ UNCHANGED <<lh, lq>>
LLin(t) == /\ lpos > 0 /\ lpend[t].st = "inv"
           /\ LET r == Seq1(lpend[t].op, lpend[t].arg, lq) IN
              /\ r.en
              /\ lq' = r.q
              /\ lpend' = [lpend EXCEPT ![t].st = "lin", ![t].res = r.res]
           /\ UNCHANGED <<lh, lpos>>
LRet == /\ lpos > 0 /\ lpos <= Len(EvOf(lh))
        /\ LET e == EvOf(lh)[lpos] IN
           /\ e[2] = "ret" /\ lpend[e[1]].st = "lin" /\ lpend[e[1]].res = e[4]
           /\ lpend' = [lpend EXCEPT ![e[1]] = Idle]
        /\ lpos' = lpos + 1 /\ UNCHANGED <<lh, lq>>
(* all events explained: one canonical accepting state per history *)
LDone == /\ lpos > Len(EvOf(lh))
         /\ lpos' = 0 /\ lq' = <<>> /\ lpend' = [t \in Threads |-> Idle] /\ UNCHANGED lh
LNext == LInv \/ (\E t \in Threads : LLin(t)) \/ LRet \/ LDone

Accepted == lpos = 0 => PrintT(<<"VF", "ACC", lh>>)
=============================================================================
