INIT Init
NEXT Next
