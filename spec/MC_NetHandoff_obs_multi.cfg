CONSTANTS Variant = "multi" Bug = "none"
SPECIFICATION FairSpec
INVARIANT McOk
INVARIANT McNoDangle
