INIT Init
NEXT Next
INVARIANT McShow
INVARIANT McOk
CONSTANT DEPTH = 3
CONSTANT WSEL = {1, 2, 3, 4, 5, 6, 7, 8}
CONSTANT MCHIST = FALSE
CONSTANT FIX = {}
