------------------------------ MODULE C09Judge ------------------------------
(* Judges the traces written by harness/c09_store.cpp (real prepareMaster, find,   *)
(* storeLastData, decodeLastData on TLC-generated cases) against P = MsgStore      *)
(* (Build / Parts / DecodeText / MustReject / part-arrival monitor) and compares   *)
(* the chained cache with S = MsgStore!SSeen/SBuilt/SAnswer (difference = drift).  *)
EXTENDS MsgStore, Json, IOUtils, FiniteSets

Recs == ndJsonDeserialize(IOEnv.VF_RECS)
N == Len(Recs)
K == 16
VARIABLE i
Init == i = 0
Next == \/ /\ i = 0 /\ i' \in {1 + K * s : s \in 0..((N - 1) \div K)}
        \/ /\ i > 0 /\ i % K # 0 /\ i < N /\ i' = i + 1

DataOf(tel) == SubSeq(tel, 6, Len(tel))
AfterId(d, part, tel) == SubSeq(tel, 6 + Len(EffId(d, part)), Len(tel))
SlaveData(s) == IF s = <<>> THEN <<>> ELSE SubSeq(s, 2, Len(s))
PartOfTel(d, tel) ==      \* the chain part a telegram belongs to (IDs of the generated chains are prefix-free)
  CHOOSE p \in 1..NParts(d) : LET id == EffId(d, p) IN Len(DataOf(tel)) >= Len(id) /\ SubSeq(DataOf(tel), 1, Len(id)) = id
LineOfDef(r) == IF r.c.def.dfl.on = 1 THEN 2 ELSE 1
NMsgs(d) == IF Len(EffZzs(d)) > 1 THEN Len(EffZzs(d)) ELSE 1
ZzOf(d, k) == IF EffZzs(d) = <<>> THEN ANY ELSE EffZzs(d)[k + 1]
(* what the loaded object must look like *)
SeenOk(d, k, seen) ==
  /\ seen[1] = (IF d.dir = "w" THEN 1 ELSE 0) /\ seen[2] = 0 /\ seen[3] = ANY /\ seen[4] = ZzOf(d, k)
  /\ seen[5] = [p \in 1..NParts(d) |-> EffPbsb(d) \o EffId(d, p)]
  /\ (IsChained(d) => \A p \in 1..NParts(d) : d.chain[p].len < 0 \/ seen[6][p] = d.chain[p].len)

TextOfComb(d, c) == IF c = <<>> \/ ~Decodable(d, c[1], c[2]) THEN <<-1>> ELSE DecodeText(d, c[1], c[2])
ObservedText(e) == IF e.rc < 0 THEN <<-1>> ELSE e.txt

(* walk state: sel, now, built (last built telegram), stored (non-chained <<md, sd>>), mon, comb, allowed, sst, out (findings), dead *)
Fail(w, kind, what) == [w EXCEPT !.out = @ \cup {<<kind, what>>}, !.dead = (kind = "P")]
RECURSIVE Walk(_, _, _, _, _)
Walk(d, ops, evs, k, w) ==
  IF k > Len(ops) \/ w.dead THEN w.out
  ELSE
  LET op == ops[k]
      e == evs[k]
      o == op[1]
      ch == IsChained(d)
      n == NParts(d)
  IN
  IF o = "M" THEN Walk(d, ops, evs, k + 1, [w EXCEPT !.sel = op[2]])
  ELSE IF o = "T" THEN Walk(d, ops, evs, k + 1, [w EXCEPT !.now = @ + op[2]])
  ELSE IF o = "B" THEN
    LET part == op[2] + 1
        zz == IF op[4] # ANY THEN op[4] ELSE ZzOf(d, w.sel)
        pat == IF ch THEN BuildPart(d, part, op[3], zz, op[5]) ELSE Build(d, op[3], zz, op[5])
        pre == IF ch /\ d.dir = "w" THEN "chained-write-" ELSE IF ch THEN "chained-read-" ELSE ""
    IN IF e.rc # 0 THEN Walk(d, ops, evs, k + 1, Fail(w, "P", pre \o "build-fails"))
       ELSE IF Len(e.m) < 5 \/ e.m[5] # Len(e.m) - 5 THEN Walk(d, ops, evs, k + 1, Fail(w, "P", pre \o "build-nn-wrong"))
       ELSE IF SubSeq(e.m, 1, 4) # SubSeq(pat, 1, 4) THEN Walk(d, ops, evs, k + 1, Fail(w, "P", pre \o "build-header-wrong"))
       ELSE IF ~Matches(pat, e.m) THEN Walk(d, ops, evs, k + 1, Fail(w, "P", pre \o "build-data-wrong"))
       ELSE LET pay == AfterId(d, part, e.m)
                mon1 == IF ch THEN MonBuilt(w.mon, part, pay, w.now) ELSE w.mon
            IN Walk(d, ops, evs, k + 1,
                    [w EXCEPT !.built = e.m, !.mon = mon1,
                              !.allowed = IF ch THEN MonAllowed(mon1, w.comb, FALSE) ELSE {},
                              !.sst = IF ch THEN SBuilt(w.sst, part, pay, w.now) ELSE w.sst,
                              !.stored = IF ch THEN w.stored ELSE <<pay, IF w.stored = <<>> THEN Absent ELSE w.stored[2]>>])
  ELSE IF o = "F" THEN
    IF e.r = w.sel THEN Walk(d, ops, evs, k + 1, w)
    ELSE Walk(d, ops, evs, k + 1, Fail(w, "P", IF e.r = -1 THEN "built-telegram-not-found" ELSE "built-telegram-finds-other-definition"))
  ELSE IF o = "S" THEN
    LET tel == op[2]
        sd == SlaveData(op[3])
    IN IF e.rc < 0 THEN Walk(d, ops, evs, k + 1, Fail(w, "P", "store-fails"))
       ELSE IF ch THEN
         LET part == PartOfTel(d, tel)
             pay == AfterId(d, part, tel)
             mon1 == MonSeen(w.mon, part, pay, sd, w.now)
         IN Walk(d, ops, evs, k + 1, [w EXCEPT !.mon = mon1, !.allowed = MonAllowed(mon1, w.comb, TRUE),
                                               !.sst = SSeen(w.sst, part, pay, sd, w.now)])
       ELSE Walk(d, ops, evs, k + 1, [w EXCEPT !.stored = <<AfterId(d, 1, tel), sd>>])
  ELSE IF o = "R" THEN
    LET part == op[2] + 1
        sd == SlaveData(op[3])
    IN IF e.rc < 0 THEN Walk(d, ops, evs, k + 1, Fail(w, "P", "store-fails"))
       ELSE IF ch THEN
         LET mon1 == MonAnswer(w.mon, part, sd, w.now)
         IN Walk(d, ops, evs, k + 1, [w EXCEPT !.mon = mon1, !.allowed = MonAllowed(mon1, w.comb, TRUE),
                                               !.sst = SAnswer(w.sst, part, sd, w.now)])
       ELSE Walk(d, ops, evs, k + 1, [w EXCEPT !.stored = <<w.stored[1], sd>>])
  ELSE IF o = "D" THEN
    LET obs == ObservedText(e) IN
    IF ~ch THEN
      LET exp == IF ~HasValues(d) THEN <<>> ELSE DecodeText(d, w.stored[1], w.stored[2]) IN
      IF obs = exp THEN Walk(d, ops, evs, k + 1, w)
      ELSE Walk(d, ops, evs, k + 1, Fail(w, "P", IF e.rc < 0 THEN "decode-fails" ELSE "decoded-values-differ"))
    ELSE
      LET okc == {c \in w.allowed : TextOfComb(d, c) = obs}
          joined == <<JoinM(w.mon.parts), JoinS(w.mon.parts)>>
          sOk == TextOfComb(d, w.sst.comb) = obs
          w1 == IF sOk THEN w ELSE [w EXCEPT !.out = @ \cup {<<"S", "chained-cache-differs">>}]
      IN IF okc # {} THEN Walk(d, ops, evs, k + 1, [w1 EXCEPT !.comb = IF joined \in okc THEN joined ELSE CHOOSE c \in okc : TRUE,
                                                              !.allowed = {IF joined \in okc THEN joined ELSE CHOOSE c \in okc : TRUE}])
         ELSE Walk(d, ops, evs, k + 1,
                   Fail(w1, "P", IF ~InWindow(w.mon.parts) THEN (IF AllPresent(w.mon.parts) THEN "chained-combined-from-stale-parts"
                                                                 ELSE "chained-combined-with-missing-part")
                                 ELSE IF obs = TextOfComb(d, w.comb) THEN "chained-complete-parts-not-joined"
                                 ELSE "chained-join-loses-duplicates-or-reorders-bytes"))
  ELSE IF o = "Q" THEN
    LET obs == ObservedText(e)
        src == IF ch THEN w.comb ELSE w.stored
        exp == IF src = <<>> \/ ~Decodable(d, src[1], src[2]) THEN NotFoundText ELSE SelectText(d, src[1], src[2], op[2], op[3])
    (* a selection that does not exist must not produce a value: an error or an empty text are both accepted *)
    (* (the property text does not say which; a single-field definition answers OK with an empty text)       *)
    IN IF obs = exp \/ (exp = NotFoundText /\ obs = <<>>) THEN Walk(d, ops, evs, k + 1, w)
       ELSE Walk(d, ops, evs, k + 1,
                 [w EXCEPT !.out = @ \cup {<<"P", IF exp = NotFoundText THEN "field-selection-finds-nonexistent-field"
                                                  ELSE IF obs = NotFoundText THEN "field-selection-not-found"
                                                  ELSE "field-selection-returns-other-value">>}])
  ELSE w.out \cup {<<"M", "unknown-op">>}

Findings(r) ==
  LET d == r.c.def
      ld == r.load[LineOfDef(r)]
  IN IF IsChained(d) /\ ~ExplicitWriteLens(d) THEN {<<"M", "chained-write-with-omitted-length-is-outside-P">>}
     ELSE IF MustReject(d) THEN (IF ld = 0 THEN {} ELSE {<<"P", "oversize-definition-accepted">>})
     ELSE IF ld = 0 THEN {<<"S", "loadable-definition-rejected">>}
     ELSE IF r.n # NMsgs(d) \/ \E k \in 1..r.n : ~SeenOk(d, k - 1, r.seen[k]) THEN {<<"P", "definition-differs-from-csv">>}
     ELSE Walk(d, r.c.ops, r.ev, 1,
               [sel |-> 0, now |-> 100000, built |-> <<>>, stored |-> <<>>, mon |-> MonInit(NParts(d)), comb |-> <<>>,
                allowed |-> {<<>>}, sst |-> SInit(NParts(d)), out |-> {}, dead |-> FALSE])

Shape(r) == Len(r.ev) = Len(r.c.ops) /\ Len(r.load) = LineOfDef(r) /\ \A k \in 1..Len(r.ev) : r.ev[k].o = r.c.ops[k][1]

Judge == i = 0 \/
  LET r == Recs[i] IN
  IF ~Shape(r) THEN ~PrintT(<<"VF", "BAD", i, "M", "record-shape">>)
  ELSE LET f == Findings(r) IN
       /\ \A x \in f : x[1] = "P" \/ PrintT(<<"VF", "NOTE", i, x[1], x[2]>>)
       /\ \A x \in f : x[1] # "P" \/ ~PrintT(<<"VF", "BAD", i, x[1], x[2]>>)
=============================================================================
