------------------------------ MODULE MsgStoreMC ------------------------------
(* C09, S => P by model checking: the chained cache of ChainedMessage (S, module MsgStore) *)
(* runs in lock-step with the part-arrival monitor (P, module MsgStore) over all arrival   *)
(* orders of NP parts, telegrams seen on the bus and active requests, all gaps.            *)
EXTENDS MsgStore
(* ------------- state machine for TLC: all arrival orders and gaps ---------- *)
CONSTANTS NP,        \* number of parts
          Gaps,      \* clock increments before an event
          MaxEvents, \* bound on the number of events
          Flows,     \* subset of {"seen", "active"}: telegrams seen on the bus / parts built and answered in order
          Mut        \* 0 = the code as it is; > 0 = seeded defects S' that P must reject (vacuity control)
VARIABLES now, st, mon, comb, nev, round, pending, nextPart
vars == <<now, st, mon, comb, nev, round, pending, nextPart>>
(* the payload of part i in round r: distinguishable bytes *)
PayM(i, r) == <<16 * r + i>>
PayS(i, r) == <<128 + 16 * r + i, 64 + 16 * r + i>>
(* seeded defects *)
MutSt(s1, s0) ==
  CASE Mut = 1 -> IF s1.tm = s0.tm /\ s1.ts = s0.ts THEN s1        \* window check removed: combine whenever all parts were seen once
                  ELSE IF \A i \in 1..NP : s1.tm[i] > 0 /\ s1.ts[i] > 0
                       THEN [s1 EXCEPT !.comb = <<Concat([i \in 1..NP |-> Payload(s1.md[i])]), Concat([i \in 1..NP |-> Payload(s1.sd[i])])>>]
                       ELSE s1
    [] Mut = 2 -> IF s1.comb = s0.comb THEN s1                        \* parts joined in reverse order
                  ELSE [s1 EXCEPT !.comb = <<Concat([i \in 1..NP |-> Payload(s1.md[NP + 1 - i])]), Concat([i \in 1..NP |-> Payload(s1.sd[NP + 1 - i])])>>]
    [] Mut = 3 -> IF \E i \in 1..NP : s1.ts[i] = 0 /\ s1.tm[i] > 0 /\ s1.sd[i] # Absent
                  THEN [s1 EXCEPT !.comb = <<Concat([i \in 1..NP |-> Payload(s1.md[i])]), Concat([i \in 1..NP |-> Payload(s1.sd[i])])>>]
                  ELSE s1                                             \* combines although a part is missing
    [] OTHER -> s1
MCInit == /\ now = 1000 /\ st = SInit(NP) /\ mon = MonInit(NP) /\ comb = <<>> /\ nev = 0 /\ round = [i \in 1..NP |-> 0]
          /\ pending = 0 /\ nextPart = 1
(* a telegram of part i is seen g seconds after the previous event *)
Seen(i, g) == /\ "seen" \in Flows /\ nev < MaxEvents
              /\ LET r == round[i] + 1
                     t == now + g
                     mon1 == MonSeen(mon, i, PayM(i, r), PayS(i, r), t)
                     st1 == MutSt(SSeen(st, i, PayM(i, r), PayS(i, r), t), st)
                 IN /\ st' = st1 /\ mon' = mon1 /\ comb' = st1.comb /\ now' = t
                    /\ round' = [round EXCEPT ![i] = r] /\ nev' = nev + 1 /\ UNCHANGED <<pending, nextPart>>
(* active request: build part nextPart (or restart at part 1), then its answer arrives *)
Built(i, g) == /\ "active" \in Flows /\ nev < MaxEvents /\ pending = 0 /\ i \in {1, nextPart}
               /\ LET r == round[i] + 1
                      t == now + g
                      st1 == MutSt(SBuilt(st, i, PayM(i, r), t), st)
                  IN /\ st' = st1 /\ mon' = MonBuilt(mon, i, PayM(i, r), t) /\ comb' = st1.comb /\ now' = t
                     /\ round' = [round EXCEPT ![i] = r] /\ nev' = nev + 1 /\ pending' = i /\ UNCHANGED nextPart
Answer(g) == /\ "active" \in Flows /\ nev < MaxEvents /\ pending > 0
             /\ LET i == pending
                    t == now + g
                    st1 == MutSt(SAnswer(st, i, PayS(i, round[i]), t), st)
                IN /\ st' = st1 /\ mon' = MonAnswer(mon, i, PayS(i, round[i]), t) /\ comb' = st1.comb /\ now' = t
                   /\ nev' = nev + 1 /\ pending' = 0 /\ nextPart' = (IF i = NP THEN 1 ELSE i + 1) /\ UNCHANGED round
MCNext == \E g \in Gaps : (\E i \in 1..NP : Seen(i, g) \/ Built(i, g)) \/ Answer(g)
MCSpec == MCInit /\ [][MCNext]_vars
(* S => P: the value the cache holds after a step is allowed by the monitor given the value before *)
StepAllowed == [][comb' \in MonAllowed(mon', comb, pending' = 0)]_vars
(* no loss / duplication / reordering: a combined value is always the join of one payload per part, in part order *)
CombWellFormed ==
  comb = <<>> \/ /\ \E rs \in [1..NP -> 1..MaxEvents] : comb[1] = Concat([i \in 1..NP |-> PayM(i, rs[i])])
                 /\ \E rs \in [1..NP -> 1..MaxEvents] : comb[2] = Concat([i \in 1..NP |-> PayS(i, rs[i])])
(* no combination from stale parts: whenever the value changes, all parts are within the window *)
NoStaleCombination == [][comb' # comb => InWindow(mon'.parts)]_vars
=============================================================================
