CONSTANTS
  InitPrios <- P12
  SetPrios = {1, 2}
  SetPrioMsgs = {1, 2, 3, 4}
  Alphabet <- AlphaPertNoTick
  K = 1
  ReAddPinned = FALSE
  CapBase = 0
INIT Init
NEXT Next
VIEW View
INVARIANT PWait
INVARIANT PProp
INVARIANT QueueIsPollSet
