INIT Init
NEXT Next
INVARIANT McOk
CONSTANT DEPTH = 4
CONSTANT WSEL = {1, 2, 3, 4, 5, 6, 7, 8}
CONSTANT MCHIST = FALSE
CONSTANT FIX = {"version-flags", "empty-qos", "changed-window", "publish-once", "scan-connected", "short-keys", "global-prefix", "set-needs-write", "store-after-send", "match-all", "global-def-field"}
