#!/bin/bash
# tools/seed_check.sh <seed-id> [property] [tier]: run a check against the stored seeded patch in a scratch worktree
ID=$1; PROP=${2:-$(python3 -c "import json;print(json.load(open('/verif/seeded/$ID/meta.json'))['property'])")}; TIER=${3:-quick}
WT=/tmp/seedchk-$ID-$$
git -C /repo worktree add --detach $WT HEAD >/dev/null 2>&1 || exit 2
git -C $WT apply /verif/seeded/$ID/patch.diff || { echo "patch does not apply to HEAD"; git -C /repo worktree remove --force $WT; exit 2; }
VERIF_REPO=$WT timeout 1700 /verif/bin/check $PROP --tier $TIER 2>&1 | tee /tmp/seedchk-$ID.log | grep "VIOLATION\|PASS\|FAIL\|FAILURE" | cut -c1-220
git -C /repo worktree remove --force $WT
