#!/usr/bin/env python3
import json, sys, glob
import jsonschema
m = json.load(open('/verif/MANIFEST.json'))
jsonschema.validate(m, json.load(open('/root/.vp/MANIFEST.schema.json')))
es = json.load(open('/root/.vp/EVIDENCE.schema.json'))
for c in m['checks']:
    try:
        jsonschema.validate(json.load(open(c['evidence_file'])), es)
    except Exception as e:
        print('EVIDENCE INVALID', c['property_id'], str(e)[:300])
print('manifest ok; claimed', [c['property_id'] for c in m['checks']])
