#!/usr/bin/env python3
"""tools/seed_prompt.py <seed-id> <property> [steer...]  -> writes /tmp/seed-prompts/<seed-id>.txt
The prompt given to a fresh sub-agent that produces one seeded change: it gets ONLY the property text (statement, quantifier,
anchored files) and its own scratch worktree, nothing from /verif."""
import json, os, sys
sid, prop = sys.argv[1], sys.argv[2]
steer = " ".join(sys.argv[3:])
p = next(json.loads(l) for l in open("/verif/properties.jsonl") if json.loads(l)["id"] == prop)
files = ", ".join(p["anchors"]["files"])
wt = "/tmp/seed-" + sid
txt = f"""You are helping to evaluate a verification tool by producing one realistic *seeded defect* for the C++ project john30/ebusd (a daemon speaking the eBUS heating-system field bus). Work ONLY inside your own scratch git worktree; never touch /repo's working tree and never read or write anything under /verif.

Setup: run `git -C /repo worktree add --detach {wt} HEAD` and work in {wt}. Build and test there with:
`cmake -G Ninja -S {wt} -B {wt}/_build -DCMAKE_BUILD_TYPE=RelWithDebInfo -DBUILD_TESTING=ON >/dev/null && cmake --build {wt}/_build -j4 && ctest --test-dir {wt}/_build -j4` (the machine is busy; be patient; all tests must pass).

The property that your change must BREAK (this is all you get; read the source files it is anchored in: {files}):

Title: {p['title']}
Statement: {p['statement']}
Quantifier: {p['quantifier']['text']}

Task: make a small source change (a plausible wrong refactoring, dropped condition, off-by-one, swapped operands, wrong state transition, missing reset, ...) to john30/ebusd under {wt}/src that violates this property while the project still compiles and the existing test suite (ctest above) still passes. The change must need something SPECIFIC to manifest — a particular interleaving or multi-step sequence of bus events, a fault at a particular point, an unusual input, a particular configuration, or two cooperating sites that each look fine alone — not something ordinary use would expose at once. Prefer subtle changes inside the anchored files. Do not add dead code, do not change tests, do not break the build.

Then write a demonstration: a small standalone C++ program (or test) under {wt}/demo/ that links against the built libraries ({wt}/_build/src/lib/ebus/libebus.a, .../src/lib/utils/libutils.a, .../src/lib/ebus/contrib/libebuscontrib.a; include path {wt}/src; the build's config.h is in {wt}/_build; link with -lpthread -lrt -lssl -lcrypto as needed; classes have private members — `#define private public`/`#define protected public` before including headers is fine in a demo; a fake `Transport` subclass (see src/lib/ebus/transport.h) lets you script bytes into a PlainDevice/EnhancedDevice + DirectProtocolHandler, calling handleSend/handleReceive directly or running the thread) and that exits 0 when the property holds for its scenario and non-zero when it is violated. Show that the demo FAILS with your change and PASSES without it (save the change with `git diff > out/patch.diff`, revert it with `git apply -R out/patch.diff`, rebuild, run, re-apply with `git apply out/patch.diff`; NEVER use `git stash`: the stash is shared by all worktrees of /repo and other agents work in parallel).

Deliver, as files under {wt}/out/: `patch.diff` (git diff of the source change only, relative to the worktree root, applying with `git apply`), the demo source(s) with a `build_and_run.sh` that builds and runs it given the worktree path as $1, and `meta.json` with keys: property ("{prop}"), summary (one paragraph: what was changed and why it violates the property), needs (what specific sequence/input/config is needed to manifest), files_changed, demo_result_with_patch, demo_result_without_patch, tests_pass (true/false). Your final message: the content of meta.json plus the patch. Leave the worktree in place (the lead removes it).
"""
if steer:
    txt += "Additional steer: " + steer + "\n"
os.makedirs("/tmp/seed-prompts", exist_ok=True)
open("/tmp/seed-prompts/%s.txt" % sid, "w").write(txt)
print("/tmp/seed-prompts/%s.txt" % sid)
