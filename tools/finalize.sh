#!/bin/bash
# tools/finalize.sh : regenerate every evidence file from the real tree (quick tier, seed 1), regenerate + validate the manifest,
# run the upstream suite with the guard off; prints one line per step.  Run before the final commit.
cd /verif
export VERIF_SEED=1
unset VERIF_REPO VERIF_COVERAGE
find /verif/evidence/replay -name "*.json" -delete 2>/dev/null
for c in C01 C02 C03 C04 C05 C06 C07 C08 C09 C10 C11 C12 C13 C14 C15 C16 C17 C18 C19; do
  timeout 3000 bin/check $c --tier quick 2>&1 | grep "VIOLATION\|^PASS\|^FAIL\|FAILURE" | cut -c1-200
done
python3 tools/gen_manifest.py | tail -1
python3-vt tools/validate.py 2>&1 | tail -2
python3 tools/seed_table.py > /dev/null
python3 tools/spec_index.py > /dev/null
timeout 2400 bin/baseline_off 2>&1 | tail -6
git status --short | head -30
