#!/usr/bin/env python3
"""tools/showreplay.py <replay.json>: re-executes the token sequence on the real handler and prints the events."""
import json, subprocess, sys, os, glob
sys.path.insert(0, os.path.join(os.path.dirname(os.path.abspath(__file__)), "..", "lib"))
sys.path.insert(0, os.path.join(os.path.dirname(os.path.abspath(__file__)), ".."))
from checks import proto_common as pc
d = json.load(open(sys.argv[1]))
rp = d["replay"]
exe = pc.harness()
tf = "/tmp/vf-replay-tokens.txt"
open(tf, "w").write("\n".join(rp["tokens"]) + "\n")
out = "/tmp/vf-replay-out.ndjson"
subprocess.run([exe, "replay", out, tf] + rp["harness_args"], check=True, stdout=subprocess.DEVNULL)
print(d["key"], rp["harness_args"])
for l in open(out):
    n = json.loads(l)
    for e in n["succ"]:
        print("%3d %-14s %s" % (n["id"], e["in"], json.dumps(e["ev"], separators=(",", ":"))))
