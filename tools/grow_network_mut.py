#!/usr/bin/env python3
"""Mutation run of the client-connection growth check: applies each mutation in the scratch worktree /tmp/wt-net (created
from /repo HEAD, removed at the end), runs `VERIF_REPO=/tmp/wt-net bin/check grow_network` and reports whether the mutation
shows up (a rejected history in a family that is accepted on the pinned tree, a hang event, or a crash of the daemon).
usage: tools/grow_network_mut.py [name-substring ...]"""
import json
import os
import subprocess
import sys
import time

WT = "/tmp/wt-net"
ML, RQ, NW = "src/ebusd/mainloop.cpp", "src/ebusd/request.cpp", "src/ebusd/network.cpp"
FIND = 'm_messages->findAll("", "", levels, false, true, true, true, true, true, %s, now, true, &messages);'
MUTS = [
    ("M1-response-without-empty-line", ML, 'ostream << (reqMode.listenMode == lm_direct ? "\\n" : "\\n\\n");', 'ostream << "\\n";'),
    ("M2-result-set-on-wrong-request", ML,
     '    req->setResult(ostream.str(), user, &reqMode, now, !connected);\n  }\n}',
     '    { Request* other = m_requestQueue->pop();\n      if (other) { other->setResult(ostream.str(), user, &reqMode, now, !connected); '
     'm_requestQueue->push(req); }\n      else req->setResult(ostream.str(), user, &reqMode, now, !connected); }\n  }\n}'),
    ("M3-missing-notify", RQ, '  m_resultSet = true;\n  pthread_cond_signal(&m_cond);', '  m_resultSet = true;'),
    ("M4-cleanup-deletes-live-connections", NW,
     'if (connection && !connection->isRunning() && connection->endedBefore(&endBefore)) {', 'if (connection) {'),
    ("M5-quit-closes-listener", NW, '      delete connection;\n      logDebug(lf_network, "dead connection removed',
     '      delete connection;\n      ::shutdown(m_tcpServer->getFD(), SHUT_RDWR);\n      logDebug(lf_network, "dead connection removed'),
    ("M6-stale-result-flag", RQ, '  m_result.clear();\n  m_resultSet = false;', '  m_result.clear();'),
    ("M7-update-lines-to-non-listeners", ML,
     '    if (reqMode.listenMode == lm_listen) {\n      if (!reqMode.listenOnlyUnknown) {',
     '    if (reqMode.listenMode != lm_direct) {\n      if (!reqMode.listenOnlyUnknown) {'),
    ("M8-quit-does-not-close", ML, '    *connected = false;\n    *ostream << "connection closed";', '    *ostream << "connection closed";'),
    ("M9-closed-checked-before-data", NW, '    if (newData || req.getMode().listenMode != lm_none) {',
     '    if (closed) {\n      break;\n    }\n    if (newData || req.getMode().listenMode != lm_none) {'),
    ("M10-request-executed-twice", ML,
     '      result_t result = decodeRequest(req, &connected, &reqMode, &user, &reload, &ostream);',
     '      result_t result = decodeRequest(req, &connected, &reqMode, &user, &reload, &ostream);\n'
     '      if (result == RESULT_OK && connected) { ostream.str(""); result = decodeRequest(req, &connected, &reqMode, &user, &reload, &ostream); }'),
    ("M11-request-buffer-not-cleared", RQ, '  m_request.clear();\n  *result = m_result;', '  *result = m_result;'),
    ("M12-http-keeps-connection-open", ML,
     '    *connected = false;\n    return formatHttpResult(ret, type, ostream);\n  }  // request for "/data..."',
     '    return formatHttpResult(ret, type, ostream);\n  }  // request for "/data..."'),
    ("M13-add-cuts-one-character", RQ,
     '    } else if (pos+1 == m_request.length()) {\n      m_request.resize(pos);  // reduce to complete lines',
     '    } else if (pos+1 == m_request.length()) {\n      m_request.resize(pos > 0 ? pos-1 : pos);  // reduce to complete lines'),
    ("M14-send-before-wait", NW,
     '        bool disconnect = req.waitResponse(&result);\n\n        if (!m_socket->isValid()) {\n          break;\n        }\n'
     '        m_socket->send(result.c_str(), result.size());',
     '        m_socket->send(result.c_str(), result.size());\n        bool disconnect = req.waitResponse(&result);\n\n'
     '        if (!m_socket->isValid()) {\n          break;\n        }'),
    ("M15-listen-never-announces", ML, FIND % "since", FIND % "now"),
    ("M16-listen-window-off-by-one", ML, FIND % "since", FIND % "since+1"),
]


def main():
    want = sys.argv[1:]
    if not os.path.isdir(WT):
        subprocess.check_call(["git", "-C", "/repo", "worktree", "add", "--detach", WT, "HEAD"], stdout=subprocess.DEVNULL,
                              stderr=subprocess.DEVNULL)
    try:
        for name, f, old, new in MUTS:
            if want and not any(w in name for w in want):
                continue
            subprocess.check_call(["git", "-C", WT, "checkout", "-q", "--", "."])
            p = os.path.join(WT, f)
            s = open(p).read()
            if s.count(old) != 1:
                print("MUTATION %-38s PATTERN COUNT %d" % (name, s.count(old)))
                continue
            open(p, "w").write(s.replace(old, new))
            t0 = time.time()
            r = subprocess.run(["/verif/bin/check", "grow_network"], env=dict(os.environ, VERIF_REPO=WT, VERIF_WORKTAG="mut"),
                               capture_output=True, text=True)
            ev = "/verif/.build/evidence-other-tree/GROW_NETWORK.json"
            caught, res = False, "rc=%d %s" % (r.returncode, (r.stdout + r.stderr)[-300:])
            if r.returncode == 0 and os.path.exists(ev) and os.path.getmtime(ev) >= t0:
                cov = json.load(open(ev))["coverage"]
                clean = {k: v["count"] for k, v in cov["doc_vs_code_classes"].items() if not v["family_expected_to_disagree"]}
                caught = bool(clean) or cov["hangs"] > 0 or cov["crashed"]
                res = "histories=%d hangs=%d crashed=%s classes=%s" % (cov["traces_validated_against_impl"], cov["hangs"],
                                                                      cov["crashed"], clean)
            print("MUTATION %-38s %s %3.0fs %s" % (name, "CAUGHT" if caught else "MISSED", time.time() - t0, res), flush=True)
    finally:
        subprocess.call(["git", "-C", "/repo", "worktree", "remove", "--force", WT])


if __name__ == "__main__":
    main()
