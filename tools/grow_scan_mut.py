#!/usr/bin/env python3
"""mutation runner for checks/grow_scan.py:  python3 tools/grow_scan_mut.py [name ...]   (default: all)
Each mutation = (part, file, old text, new text) is applied in a scratch worktree of /repo, the quick tier of the part is run with
VERIF_REPO pointing at it, the classes the judges report are printed (baseline on the pinned tree: scan
{S-less-specific-version-chosen: 152, M-appended-to-target: 2}, rawlog {R-echo-repeat: 140}), the worktree is removed."""
import os, re, subprocess, sys, json
M = {
 # ---- A: scan selection
 "a01_cut_any_char": ("scan", "src/ebusd/scan.cpp", "if (!::isdigit(remain[remain.length()-1])) {", "if (false) {"),
 "a02_score_const": ("scan", "src/ebusd/scan.cpp", "match += remain.length();", "match += 1;"),
 "a03_sw_ignored": ("scan", "src/ebusd/scan.cpp", "(checkSw != UINT_MAX && sw != checkSw)", "(false)"),
 "a04_no_lowercase": ("scan", "src/ebusd/scan.cpp", "*it = static_cast<char>(::tolower(*it));", "*it = *it;"),
 "a05_underscore_removed": ("scan", "src/ebusd/scan.cpp", "if (*it != '_' && !::isalnum(*it)) {", "if (!::isalnum(*it)) {"),
 "a06_ext_contains": ("scan", "src/ebusd/scan.cpp", "    && name.substr(name.length()-extension.length()) == extension) {\n      if (name == \"_templates\"+extension) {\n        if (hasTemplates) {\n          *hasTemplates = true;\n        }\n        continue;\n      }\n      if (prefix.length() == 0 ? (!ignoreAddressPrefix || name.length() < 3 || name.find_first_of('.') != 2)\n          :",
                      "    && name.find(extension) != string::npos) {\n      if (name == \"_templates\"+extension) {\n        if (hasTemplates) {\n          *hasTemplates = true;\n        }\n        continue;\n      }\n      if (prefix.length() == 0 ? (!ignoreAddressPrefix || name.length() < 3 || name.find_first_of('.') != 2)\n          :"),
 "a07_manuf_case": ("scan", "src/ebusd/scan.cpp", "transform(manufStr.begin(), manufStr.end(), manufStr.begin(), ::tolower);", ""),
 "a08_tie_last_wins": ("scan", "src/ebusd/scan.cpp", "if (match > bestMatch || (match == bestMatch && name.length() > best.length())) {", "if (match >= bestMatch) {"),
 "a09_ident_max4": ("scan", "src/lib/ebus/message.cpp", "if (pos != string::npos && pos >= 1 && pos <= 6) {", "if (pos != string::npos && pos >= 1 && pos <= 5) {"),
 "a10_hw_hex": ("scan", "src/lib/ebus/message.cpp", "hw = parseInt(remain.substr(pos+3, 4).c_str(), 10, 0, 9999, &result);", "hw = parseInt(remain.substr(pos+3, 4).c_str(), 16, 0, 0x9999, &result);"),
 "a11_qq_unchecked": ("scan", "src/ebusd/scan.cpp", "if (!isMaster((*master)[0])) {", "if (false) {"),
 "a12_master_len4": ("scan", "src/ebusd/scan.cpp", "if (master->size() < 5) {", "if (master->size() < 4) {"),
 "a13_zz_broadcast_ok": ("scan", "src/ebusd/scan.cpp", "if (!isValidAddress((*master)[1], !onlyMasterSlave) ||", "if (!isValidAddress((*master)[1], true) ||"),
 "a14_common_all": ("scan", "src/ebusd/scan.cpp", "if (baseName.length() < 3 || baseName.find_first_of('.') != 2) {  // different from the scheme \"ZZ.\"", "if (true) {"),
 "a15_ident_len_gt": ("scan", "src/ebusd/scan.cpp", "while (remain.length() > 0 && remain.length() >= checkIdent.length()) {", "while (remain.length() > 0 && remain.length() > checkIdent.length()) {"),
 "a16_prefix_ignored": ("scan", "src/ebusd/scan.cpp", "result = collectConfigFiles(manufStr, addrStr + \".\", \".csv\", &files, false, query, nullptr, &hasTemplates);", "result = collectConfigFiles(manufStr, \"\", \".csv\", &files, false, query, nullptr, &hasTemplates);"),
 "a17_suffix_two_digits": ("scan", "src/lib/ebus/message.cpp", "if (pos == 2 && remain[1] >= '0' && remain[1] <= '9') {", "if (pos >= 2 && remain[1] >= '0' && remain[1] <= '9') {"),
 "a18_output_on_error": ("scan", "src/ebusd/scan.cpp", "  if (best.empty()) {\n    logError(lf_main,", "  *relativeFile = best;\n  if (best.empty()) {\n    logError(lf_main,"),
 "a19_sw_vs_hw": ("scan", "src/ebusd/scan.cpp", "(checkSw != UINT_MAX && sw != checkSw)", "(checkSw != UINT_MAX && hw != checkSw)"),
 "a20_isalpha": ("scan", "src/ebusd/scan.cpp", "if (*it != '_' && !::isalnum(*it)) {", "if (*it != '_' && !::isalpha(*it)) {"),
 "a21_need_11": ("scan", "src/ebusd/scan.cpp", "if (data.getDataSize() < 1+5+2+2) {", "if (data.getDataSize() <= 1+5+2+2) {"),
 "a22_sw_3digits": ("scan", "src/lib/ebus/message.cpp", "pos = remain.rfind(\".SW\");  // check for \".SWxxxx.\" from the end\n    if (pos != string::npos && remain.find('.', pos+1) == pos+7) {", "pos = remain.rfind(\".SW\");  // check for \".SWxxxx.\" from the end\n    if (pos != string::npos && remain.find('.', pos+1) == pos+6) {"),
 "a23_circuit_single_char": ("scan", "src/lib/ebus/message.cpp", "if (pos != string::npos && (pos>2 || remain[1]<'0' || remain[1]>'9')) {", "if (pos != string::npos && pos>2) {"),
 "a24_empty_ident_refused": ("scan", "src/lib/ebus/message.cpp", "if (pos != string::npos && pos >= 1 && pos <= 6) {", "if (pos != string::npos && pos > 1 && pos <= 6) {"),
 # ---- B: raw log
 "b01_echo_kept": ("rawlog", "src/lib/ebus/protocol.cpp", "if (received && !m_logRawLastReceived && symbol == m_logRawLastSymbol) {", "if (false) {"),
 "b02_flush_ge": ("rawlog", "src/lib/ebus/protocol.cpp", "if (m_logRawBuffer.tellp() > (symbol == SYN ? 0 : 64)) {", "if (m_logRawBuffer.tellp() > (symbol == SYN ? 0 : 63)) {"),
 "b03_no_cont_prefix": ("rawlog", "src/lib/ebus/protocol.cpp", "if (m_logRawBuffer.tellp() == 0 && m_logRawLastSymbol != SYN) {", "if (false) {"),
 "b04_last_symbol_not_syn": ("rawlog", "src/lib/ebus/protocol.cpp", "    m_logRawLastSymbol = symbol;\n    if (m_logRawBuffer.tellp() >", "    if (symbol != SYN) m_logRawLastSymbol = symbol;\n    if (m_logRawBuffer.tellp() >"),
 "b05_no_direction_change": ("rawlog", "src/lib/ebus/protocol.cpp", "if (m_logRawBuffer.tellp() == 0 || received != m_logRawLastReceived) {", "if (m_logRawBuffer.tellp() == 0) {"),
 "b06_no_setw": ("rawlog", "src/lib/ebus/protocol.cpp", "m_logRawBuffer << setw(2) << setfill('0') << hex << static_cast<unsigned>(symbol);", "m_logRawBuffer << hex << static_cast<unsigned>(symbol);"),
 "b07_bytes_dir_swapped": ("rawlog", "src/lib/ebus/protocol.cpp", "logNotice(lf_bus, \"%c%02x\", received ? '<' : '>', data[pos]);", "logNotice(lf_bus, \"%c%02x\", received ? '>' : '<', data[pos]);"),
 "b08_lastrecv_not_set": ("rawlog", "src/lib/ebus/protocol.cpp", "        m_logRawLastReceived = received;\n", ""),
 "b09_no_cont_suffix": ("rawlog", "src/lib/ebus/protocol.cpp", "      if (symbol != SYN) {\n        m_logRawBuffer << \"...\";\n      }", ""),
 "b10_flush_66": ("rawlog", "src/lib/ebus/protocol.cpp", "if (m_logRawBuffer.tellp() > (symbol == SYN ? 0 : 64)) {", "if (m_logRawBuffer.tellp() > (symbol == SYN ? 0 : 66)) {"),
 "b11_echo_after_syn": ("rawlog", "src/lib/ebus/protocol.cpp", "    m_logRawLastSymbol = symbol;\n    if (m_logRawBuffer.tellp() >", "    if (symbol != SYN || received) m_logRawLastSymbol = symbol;\n    if (m_logRawBuffer.tellp() >"),
 "b12_rotatefile_dir": ("rawlog", "src/lib/utils/rotatefile.cpp", "fprintf(m_stream, received ? \"<\" : \">\");", "fprintf(m_stream, \"<\");"),
}
def run(name):
    part, f, old, new = M[name]
    wt = "/tmp/wt-scan-%s" % name
    subprocess.run(["git", "-C", "/repo", "worktree", "remove", "--force", wt], capture_output=True)
    r = subprocess.run(["git", "-C", "/repo", "worktree", "add", "--detach", wt, "HEAD"], capture_output=True, text=True)
    if r.returncode: return name, "worktree failed " + r.stderr
    try:
        s = open(os.path.join(wt, f)).read()
        if s.count(old) != 1: return name, "PATTERN COUNT %d" % s.count(old)
        open(os.path.join(wt, f), "w").write(s.replace(old, new))
        env = dict(os.environ, VERIF_REPO=wt)
        p = subprocess.run([sys.executable, "checks/grow_scan.py", "--tier", "quick", "--only", part], cwd="/verif", env=env, capture_output=True, text=True)
        out = p.stdout + p.stderr
        m = re.findall(r"rejected by the judge: (\{.*?\}|none)", out)
        tail = [l[:300] for l in out.splitlines() if l.startswith(("MODEL-FAILURE", "HARNESS-FAILURE", "BUILD FAILED", "PASS", "Traceback"))]
        return name, "rc=%d rejected=%s %s" % (p.returncode, m[0] if m else "?", " | ".join(tail))
    finally:
        subprocess.run(["git", "-C", "/repo", "worktree", "remove", "--force", wt], capture_output=True)
if __name__ == "__main__":
    from concurrent.futures import ThreadPoolExecutor
    names = sys.argv[1:] or list(M)
    with ThreadPoolExecutor(max_workers=3) as ex:
        for n, res in ex.map(run, names):
            print("%-26s %s" % (n, res), flush=True)
