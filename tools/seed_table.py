#!/usr/bin/env python3
"""tools/seed_table.py : regenerate the seeded-changes table of DESIGN.md (between the seeds-table markers) from seeded/*/meta.json"""
import glob, json, os, re
SHORT = {
 "C01": "`m_repeat` not reset at telegram start", "C01b": "enhanced decoder returns CONTINUE in front of a dangling first byte",
 "C01c": "repetition state of the master part leaks into the slave part", "C01d": "'symbol already decoded' check hoisted over non-symbol adapter frames",
 "C02": "`m_escape` not cleared on send", "C02b": "`m_repeat` kept after an acknowledged repetition", "C02c": "retry bookkeeping after a lost arbitration",
 "C02d": "`m_repeat` reset moved into setState: unbounded re-reads of a bad response",
 "C03": "echo check moved behind escape handling", "C03b": "AUTO-SYN after 40 ms instead of the stand-by interval", "C03c": "adapter ERROR frame does not cancel the arbitration",
 "C03d": "lock re-arm compares the high instead of the low nibble",
 "C04": "`pop()` before the state check loses a request on a late arbitration echo", "C04b": "`Queue::remove(wait)` returns when the queue holds another item",
 "C04c": "queue removal after the notify of a failed arbitration start drops a restarted request",
 "C05": "DTM constant 15078.2 -> 15078 (29 February)", "C05b": "BCD digit check after the conversion", "C06": "DTM month estimate without truncation",
 "C06b": "24:00 check of the 3-byte time types on the wrong part", "C07": "negative-maximum range check inverted", "C07b": "rounding at the upper raw bound",
 "C07c": None, "C08": "XOR-fold lane reset off by one", "C08b": "source master number parity in the key", "C08c": None,
 "C09": "`checkId` accepts a partial part-ID match", "C09b": "chained part time not refreshed on unchanged data", "C09c": None,
 "C10": "bit merge only for first bit > 0 (descending order)", "C10b": "numeric access path uses hasFullByteOffset(false)",
 "C11": "slave address wrap-around of master 0xFF", "C11b": "getMasterNumber `&&` instead of `||`",
 "C12": "`errno` cleared only on the non-EXP path", "C12b": "stream precision leaks from a scaled number into EXP decode", "C12c": "`dec` dropped from the year of a date with unset day/month",
 "C13": "same-second re-evaluation only while the second lasts", "C13b": "exclusive upper bound `<N` stored as `<=N`",
 "C14": "FAILED frame decoded in the same pass overwrites an earlier symbol", "C14b": "FileTransport read pointer hoisted above the overflow reset",
 "C15": "source mask `0x0f`", "C15b": "NAK of the response not followed by the single repetition", "C15c": "nested MM answer IDs resolved to the shorter one",
 "C15d": "CRC reset of the answer moved: repetition carries a stale CRC",
 "C16": "level check behind the cache answer of `read -h`", "C01e": "SYN branch guarded by `!sending` instead of the state", "C02e": "SYN with buffered data passes although a request is current", "C03e": "adapter ERROR frame no longer withdraws the START", "C04d": "retry counter reset after the request was handed to the queue", "C15e": "MM-vs-MS decision by own address instead of isMaster", "C07d": "24:00:ss accepted on write (time types)", "C08d": "unavailable conditional alternative ends the bucket scan", "C09d": "field index translation drops the name filter", "C12d": "stream flags no longer reset before a number", "C16d": "ACL lines append instead of replace", "C05c": "backslash not escaped in JSON strings", "C06c": "symmetric range check rejects the most negative raw value", "C10c": "single field claims its length in both parts", "C11c": "doubled ESC accepted by parseHexEscaped", "C13c": "prepared request counts as seen", "C14c": "RESETTED leaves m_arbitrationCheck set", "C17c": "front insertion resets m_pollOrder", "C18c": "topic match uses rfind", "C19c": "quote after separator inside quoted text reopens", "C16b": "HTTP user without secret keeps the user's levels", "C16c": None,
 "C17": "`setPollPriority` pushes back instead of pulling forward", "C17b": "`clear()` of any map resets the shared `g_lastPollOrder`",
 "C18": "blank runs inside quotes collapsed", "C18b": "leading-slash requirement of the HTTP target dropped",
 "C01f": "`m_repeat` not reset at the first byte of a passively received telegram", "C09f": "single master-part field by index also decodes the slave part",
 "C13f": "quote stripping of string value lists decided once for the whole list", "C14f": "second-byte test uses the marker as mask (first byte accepted as second byte)",
 "C17f": "newly set priority no longer joins the cycle at the current poll order", "C19f": "poll priority digit 9 not recognised in the type column (r9 loads and dumps as r)",
 "C02f": "response buffer not cleared before the repetition of a NAKed response", "C03f": "lock counter reloaded after a lost arbitration only if the request has retries left",
 "C05e": "BCD high-nibble check off by one (0xA accepted in lower-order bytes)", "C06e": "reciprocal divisor formatted in single precision (4-byte types)",
 "C07e": "24:00:ss accepted on write (3-byte time types, minutes-only check)", "C08e": "source-bit stripping only for lookups that include passive definitions",
 "C10e": "IGN field skips the bit-layout bookkeeping of the numeric read path", "C15f": "MM-vs-MS decision after the ACK by own master address instead of isMaster",
 "C04e": "requests queued while there is already no signal are no longer drained", "C09e": "`checkId` matches a part on ANY equal suffix byte",
 "C11d": "inverse of the +5 mapping without the modulo-256 wrap (0x04 / 0xFF)", "C12e": "derive cache key takes min/max/inc from the base type: ranged template and plain type collide",
 "C13e": "exclusive `<N` loses its -1", "C14e": "RESETTED overwrites an arbitration result decoded earlier in the same chunk",
 "C16e": "level checked on the first-defined variant, the available variant returned", "C17e": "`setPollPriority` re-bases forward on every priority change",
 "C18e": "hex payload: per-token even-length check replaced by one on the concatenation", "C19e": "two-stage derive records the intermediate type as base: dump writes only the last divisor factor",
 "C19": "chain part IDs dumped in decimal", "C19b": "`dumpString` skips the second of two adjacent quotes",
}
rows = []
for d in sorted(glob.glob("/verif/seeded/*/")):
    sid = os.path.basename(d[:-1])
    try:
        m = json.load(open(d + "meta.json"))
    except Exception:
        continue
    c = m.get("confirmed_by_lead", {})
    first = "caught" if c.get("detected") and not m.get("detected_after_strengthening") else "missed"
    note = m.get("lead_note", "")
    strengthened = ""
    if m.get("caught_by_other_property"):
        first, strengthened = "outside", "outside this property as stated; caught by the %s check" % m["caught_by_other_property"]
    elif m.get("outside_property"):
        first, strengthened = "outside", m["outside_property"][:330]
    elif m.get("open_miss"):
        first, strengthened = "missed", "**open**: " + m["open_miss"][:300]
    elif m.get("not_detected"):
        first, strengthened = "missed", "**not caught** (needs a forced thread schedule + poisoning of deleted requests; see below)"
    elif first == "missed":
        k = re.search(r"caught after (.*)", note)
        strengthened = (k.group(1) if k else note)[:170]
    short = SHORT.get(sid) or (m.get("summary", "")[:90] + "…")
    rows.append("| %s | %s | %s | %s |" % (sid, short, first, strengthened))
table = "| seed | change | first run | what was strengthened |\n|---|---|---|---|\n" + "\n".join(rows)
p = "/verif/DESIGN.md"
s = open(p).read()
b, e = "<!-- seeds-table-begin -->", "<!-- seeds-table-end -->"
if b in s:
    s = s[:s.index(b) + len(b)] + "\n" + table + "\n" + s[s.index(e):]
    open(p, "w").write(s)
print(table)
