#!/usr/bin/env python3
"""Authoring-time helper for spec/Purity.tla (C12): renders the operation alphabet `Ops` and the load sets `LoadTemplates` /
`LoadSets` as TLA+ text (TLC has no string -> character-code conversion, so texts are written as code tuples with the readable
form in a comment beside them).  Not used at check time: edit the tables below, run this script and paste the two blocks
into Purity.tla (CoreOps refers to op ids and has to be adjusted by hand)."""
def codes(s): return "<<" + ", ".join(str(ord(c)) for c in s) + ">>"
def bts(h): return "<<" + ", ".join(str(int(h[i:i+2],16)) for i in range(0,len(h),2)) + ">>"
THDR = "name,*type,divisor/values,range,unit,comment"
ops = [
 # act, cls, templates, def, text, bytes, fmt
 ("enc","encode-number","", "x,,UIN", "100", "", 0),
 ("enc","erange-input", "", "x,,UIN", "99999999999999999999", "", 0),
 ("enc","encode-number","", "x,,SIN", "-5", "", 0),
 ("enc","erange-input", "", "x,,SIN", "-99999999999999999999", "", 0),
 ("enc","encode-number","", "x,,D2C", "12.5", "", 0),
 ("enc","erange-input", "", "x,,D2C", "1e999", "", 0),
 ("enc","encode-number","", "x,,EXP", "1.5", "", 0),
 ("enc","erange-input", "", "x,,EXP", "-1e999", "", 0),
 ("enc","malformed-input","", "x,,EXP", "x", "", 0),
 ("enc","encode-list",  "", "x,,UCH,0=off;1=on", "on", "", 0),
 ("enc","erange-input", "", "x,,UCH,0=off;1=on", "99999999999999999999", "", 0),
 ("enc","encode-number","", "x,,ULG,10", "6.5", "", 0),
 ("enc","create-ranged-field","", "x,,UCH,,1-50", "7", "", 0),
 # divisor derivation from plain type / from a ranged template share the cache key "UCH,8,10"
 ("enc","derived-divisor","", "x,,UCH,10", "6.0", "", 0),
 ("enc","ranged-template-divisor", THDR+"\ntr,UCH,,0-50", "x,,tr,10", "6.0", "", 0),
 ("enc","ranged-template-divisor", THDR+"\nts,SIN,,-100-100", "x,,ts,10", "20.0", "", 0),
 ("enc","ranged-template-divisor", THDR+"\ntm,UCH,,10-254", "x,,tm,10", "0.5", "", 0),   # only the minimum differs from the base type
 ("enc","derived-divisor","", "x,,SIN,10", "20.0", "", 0),
 ("dec","decode-number","", "x,,UCH", "", "64", 0),
 ("dec","decode-hex",   "", "x,,HEX:3", "", "0a1b2c", 0),
 ("dec","decode-number","", "x,,UIN", "", "1027", 0),
 ("dec","decode-fixed", "", "x,,D2C", "", "c800", 0),
 ("dec","decode-float", "", "x,,EXP", "", "19049e3f", 0),
 ("dec","decode-padded","", "x,,PIN", "", "0123", 0),
 ("dec","decode-padded","", "x,,BDA:3", "", "010220", 0),
 ("dec","decode-padded","", "x,,BDA:3", "", "ffff01", 0),   # day and month null, year printed
 ("dec","decode-list",  "", "x,,UCH,0=off;1=on", "", "01", 0),
 ("dec","decode-list",  "", "x,,UCH,0=off;1=on", "", "1a", 0),
 ("dec","decode-number","", "x,,SCH", "", "ff", 0),
 ("dec","decode-fixed", "", "x,,ULG,10", "", "41000000", 0),
 ("dec","derived-divisor","", "x,,UCH,10", "", "3c", 0),
 ("dec","ranged-template-divisor", THDR+"\ntr,UCH,,0-50", "x,,tr,10", "", "3c", 0),
 ("mk", "derived-divisor","", "x,,UCH,10", "", "", 0),
 ("mk", "ranged-template-divisor", THDR+"\ntr,UCH,,0-50", "x,,tr,10", "", "", 0),
]
print("Ops == <<")
for i,(act,cls,tpl,df,t,b,fmt) in enumerate(ops):
    tl = "<<" + ", ".join(codes(l) for l in tpl.split("\n") if l) + ">>"
    desc = "%s %s%s %s" % (act, df, (" [templates: %s]" % tpl.split("\n")[1]) if tpl else "", repr(t) if act=="enc" else (b if act=="dec" else ""))
    print("  \\* %d: %s%s" % (i+1, desc, " JSON" if fmt else ""))
    print('  [id |-> %d, act |-> "%s", cls |-> "%s", tpl |-> %s,\n   def |-> %s,\n   t |-> %s, b |-> %s, fmt |-> %d]%s' % (i+1, act, cls, tl, codes(df), codes(t), bts(b), fmt, "," if i+1<len(ops) else ""))
print(">>")

print()
TPL = [THDR, "tr,UCH,,0-50", "ts,SIN,,-100-100", "tm,UCH,,10-254"]
sets = [
 ("unsigned-divisor-plain-vs-ranged-template", [("w,c,plain,,,08,b509,0d0100,x,,UCH,10","plain","6.0"), ("w,c,rng,,,08,b509,0d0200,x,,tr,10","rng","6.0"),
  ("w,c,temp,,,08,b509,0d0300,x,,D2C","temp","12.5"), ("w,c,mode,,,08,b509,0d0400,x,,UCH,0=off;1=on","mode","on")]),
 ("signed-and-min-only-divisor-plain-vs-ranged-template", [("w,c,splain,,,08,b509,0e0100,x,,SIN,10","splain","20.0"), ("w,c,srng,,,08,b509,0e0200,x,,ts,10","srng","20.0"),
  ("w,c,up,,,08,b509,0e0300,x,,UCH,10","up","0.5"), ("w,c,mrng,,,08,b509,0e0400,x,,tm,10","mrng","0.5")]),
 ("multi-field-plain-vs-ranged-template", [("w,c,a,,,08,b509,0f0100,x,,UCH,10,,,y,,UIN","a","1.5;7"), ("w,c,b,,,08,b509,0f0200,x,,tr,10,,,y,,HEX:2","b","1.5;0a 0b"),
  ("w,c,d,,,08,b509,0f0300,x,,tr,10","d","7.0"), ("w,c,e,,,08,b509,0f0400,x,,UCH,10,,,y,,tr,10","e","7.0;7.0")]),
]
print("LoadTemplates == <<" + ", ".join(codes(l) for l in TPL) + ">>")
print("LoadSets == <<")
for si,(tag,s) in enumerate(sets):
    print("  [tag |-> \"%s\", lines |-> <<" % tag)
    for li,(line,name,probe) in enumerate(s):
        print("    \\* %s   probe: write %s" % (line, repr(probe)))
        print("    [line |-> %s,\n     name |-> %s, probe |-> %s]%s" % (codes(line), codes(name), codes(probe), "," if li+1<len(s) else ""))
    print("  >>]%s" % ("," if si+1<len(sets) else ""))
print(">>")
