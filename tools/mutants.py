#!/usr/bin/env python3
"""tools/mutants.py <file-relative-to-repo> <n> <seed> <Cxx,Cyy,...> [--from L --to L]
Mechanical mutation campaign (complements the sub-agent seeds): sample n single-site mutants of one source file
(relational/logical operator flips, constant +-1, dropped assignment statements, swapped true/false), keep those that compile
and pass the upstream ctest suite, run the listed checks (quick tier) against each in a scratch worktree and append one JSON
line per mutant to /verif/seeded/mutants/RESULTS.jsonl.  Survivors are candidates for equivalent mutants or gaps."""
import json
import os
import random
import re
import subprocess
import sys

REPO = "/repo"
OUT = "/verif/seeded/mutants"

OPS = [
    (r"==", "!="), (r"!=", "=="), (r"<=", "<"), (r">=", ">"), (r"(?<![<>=!-])<(?![<=])", "<="), (r"(?<![<>=!-])>(?![>=])", ">="),
    (r"&&", "||"), (r"\|\|", "&&"), (r"\btrue\b", "false"), (r"\bfalse\b", "true"),
    (r"\+\+", "--"), (r"(?<![\w.])(\d+)(?![\w.])", None),  # constant +1
    (r"^\s*m_\w+\s*=\s*[^;]+;\s*$", "DROP"),
    (r"\+ 1\b", "+ 2"), (r"- 1\b", "- 2"), (r"!(?=[\w(])", ""),
]


def candidates(path, lo, hi):
    lines = open(path).read().split("\n")
    out = []
    incomment = False
    for i, line in enumerate(lines, 1):
        st = line.strip()
        if st.startswith("/*"):
            incomment = True
        if incomment:
            if "*/" in st:
                incomment = False
            continue
        if i < lo or i > hi or st.startswith("//") or st.startswith("*") or st.startswith("#") or "log" in st.split("(")[0].lower():
            continue
        code = line.split("//")[0]
        for pat, rep in OPS:
            for m in re.finditer(pat, code):
                if rep == "DROP":
                    new = line[:len(line) - len(line.lstrip())] + ";  // (dropped)"
                elif rep is None:
                    v = int(m.group(1))
                    if v > 300:
                        continue
                    new = code[:m.start(1)] + str(v + 1) + code[m.end(1):]
                else:
                    new = code[:m.start()] + rep + code[m.end():]
                if new != line:
                    out.append((i, line, new))
    return out


def sh(cmd, cwd=None, timeout=3000):
    return subprocess.run(cmd, shell=True, cwd=cwd, capture_output=True, text=True, timeout=timeout)


def main():
    f, n, seed, checks = sys.argv[1], int(sys.argv[2]), int(sys.argv[3]), sys.argv[4].split(",")
    lo = int(sys.argv[sys.argv.index("--from") + 1]) if "--from" in sys.argv else 1
    hi = int(sys.argv[sys.argv.index("--to") + 1]) if "--to" in sys.argv else 10 ** 9
    os.makedirs(OUT, exist_ok=True)
    wt = "/tmp/mutants-%d" % os.getpid()
    sh("git -C %s worktree add --detach %s HEAD" % (REPO, wt))
    try:
        r = sh("cmake -G Ninja -S %s -B %s/_build -DCMAKE_BUILD_TYPE=RelWithDebInfo -DBUILD_TESTING=ON && cmake --build %s/_build -j8" % (wt, wt, wt))
        if r.returncode:
            print("baseline build failed", r.stderr[-500:])
            return 2
        cands = candidates(os.path.join(wt, f), lo, hi)
        random.Random(seed).shuffle(cands)
        done = 0
        orig = open(os.path.join(wt, f)).read()
        for (ln, old, new) in cands:
            if done >= n:
                break
            lines = orig.split("\n")
            lines[ln - 1] = new
            open(os.path.join(wt, f), "w").write("\n".join(lines))
            rec = {"file": f, "line": ln, "old": old.strip(), "new": new.strip()}
            b = sh("cmake --build %s/_build -j8" % wt)
            if b.returncode:
                continue   # does not compile: not a mutant of interest
            t = sh("ctest --test-dir %s/_build -j4 --timeout 300" % wt)
            if t.returncode:
                rec["killed_by"] = "ctest"
                print(json.dumps(rec), flush=True)
                open(OUT + "/RESULTS.jsonl", "a").write(json.dumps(rec) + "\n")
                continue
            done += 1
            procs = {c: subprocess.Popen("VERIF_REPO=%s VERIF_WORKTAG=mut timeout 1700 /verif/bin/check %s --tier quick 2>&1 | grep 'VIOLATION\\|^PASS\\|^FAIL\\|FAILURE' | cut -c1-200"
                                         % (wt, c), shell=True, stdout=subprocess.PIPE, text=True) for c in checks}
            res = {}
            for c, p in procs.items():
                o = p.communicate()[0]
                res[c] = "VIOLATION" if "VIOLATION" in o else "PASS" if "PASS" in o else "FAILURE:" + o[-200:]
                if "VIOLATION" in o:
                    rec.setdefault("signatures", []).append(re.findall(r"# (\S+):", o)[:2])
            rec["checks"] = res
            rec["killed_by"] = ",".join(c for c in checks if res[c] == "VIOLATION") or None
            print(json.dumps(rec), flush=True)
            open(OUT + "/RESULTS.jsonl", "a").write(json.dumps(rec) + "\n")
        open(os.path.join(wt, f), "w").write(orig)
    finally:
        sh("git -C %s worktree remove --force %s" % (REPO, wt))
    return 0


if __name__ == "__main__":
    sys.exit(main())
