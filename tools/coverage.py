#!/usr/bin/env python3
"""tools/coverage.py <Cxx>[,Cyy...] <repo-source-file>... : which lines of the given /repo sources does the quick tier of the
checks execute?  Builds the harnesses with --coverage (VERIF_COVERAGE=1, separate objects), runs the checks, runs gcov and prints
the never-executed line ranges - blind spots in which no mutation can be detected."""
import glob, os, re, subprocess, sys, time, shutil
checks = sys.argv[1].split(",")
files = sys.argv[2:]
t0 = time.time()
env = dict(os.environ, VERIF_COVERAGE="1")
for f in glob.glob("/verif/.build/obj/*.gcda"):
    os.remove(f)
for c in checks:
    r = subprocess.run(["/verif/bin/check", c, "--tier", "quick"], env=env, capture_output=True, text=True)
    print(c, r.stdout.strip().splitlines()[-1] if r.stdout.strip() else r.stderr[-300:], flush=True)
tmp = "/verif/.build/gcov-tmp"
shutil.rmtree(tmp, ignore_errors=True); os.makedirs(tmp)
hits = {}
for gcda in glob.glob("/verif/.build/obj/*.gcda"):
    subprocess.run(["gcov", "-o", os.path.dirname(gcda), gcda], cwd=tmp, capture_output=True, text=True)
    for g in glob.glob(tmp + "/*.gcov"):
        src = None
        for line in open(g, errors="replace"):
            m = re.match(r"\s*([^:]+):\s*(\d+):(.*)$", line)
            if not m: continue
            cnt, ln, txt = m.group(1).strip(), int(m.group(2)), m.group(3)
            if ln == 0:
                if txt.startswith("Source:"): src = txt[7:]
                continue
            if src and src.startswith("/repo/src"):
                d = hits.setdefault(src, {})
                if cnt == "-": continue
                n = 0 if cnt.startswith("#") or cnt.startswith("=") else int(re.sub(r"\D", "", cnt) or 0)
                d[ln] = d.get(ln, 0) + n
        os.remove(g)
for f in files:
    p = os.path.join("/repo", f)
    d = hits.get(p, {})
    un = sorted(l for l, n in d.items() if n == 0)
    print("== %s: %d executable lines, %d never executed" % (f, len(d), len(un)))
    src = open(p, errors="replace").read().split("\n")
    # group into ranges
    i = 0
    while i < len(un):
        j = i
        while j + 1 < len(un) and un[j + 1] - un[j] <= 2: j += 1
        print("  %d-%d: %s" % (un[i], un[j], src[un[i] - 1].strip()[:110]))
        i = j + 1
