#!/bin/bash
# tools/seed_eval.sh <seed-id> <property> : confirm a seeded defect delivered by a sub-agent in /tmp/seed-<seed-id>, store it under
# /verif/seeded/<seed-id>/, run the property's quick check against the patched tree, then remove the scratch worktree.
ID=$1; PROP=$2; WT=/tmp/seed-$ID; OUT=/verif/seeded/$ID
[ -f $WT/out/patch.diff ] || { echo "no patch in $WT/out"; exit 2; }
mkdir -p $OUT; cp -r $WT/out/* $OUT/
cd $WT
git checkout -q -- . 2>/dev/null; git apply out/patch.diff || { echo "patch does not apply"; exit 2; }
cmake --build _build -j6 >/dev/null 2>&1 || { echo "build with patch failed"; exit 2; }
ctest --test-dir _build -j4 >/tmp/seed-$ID-ctest.log 2>&1; CT=$?
bash out/build_and_run.sh $WT >/tmp/seed-$ID-with.log 2>&1; WITH=$?
git apply -R out/patch.diff; cmake --build _build -j6 >/dev/null 2>&1
bash out/build_and_run.sh $WT >/tmp/seed-$ID-without.log 2>&1; WITHOUT=$?
git apply out/patch.diff
cd /verif
VERIF_REPO=$WT timeout 1700 bin/check $PROP --tier ${TIER:-quick} >/tmp/seed-$ID-check.log 2>&1; CK=$?
grep -h "VIOLATION\|KNOWN-FINDING\|PASS\|FAIL\|FAILURE" /tmp/seed-$ID-check.log | cut -c1-300 > $OUT/check_output.txt
python3 - "$OUT" "$ID" "$PROP" "$CT" "$WITH" "$WITHOUT" "$CK" <<'PY'
import json,sys
out,sid,prop,ct,w,wo,ck=sys.argv[1:8]
try: m=json.load(open(out+'/meta.json'))
except Exception: m={}
m['property']=prop
m['confirmed_by_lead']={'ctest_exit_with_patch':int(ct),'demo_exit_with_patch':int(w),'demo_exit_without_patch':int(wo),
  'ran':['git apply patch.diff; cmake --build; ctest','bash build_and_run.sh <worktree> (with patch)','git apply -R; rebuild; bash build_and_run.sh (without patch)',
         'VERIF_REPO=<patched worktree> bin/check %s --tier quick'%prop],
  'check_exit':int(ck),'detected': int(ck)==1}
json.dump(m,open(out+'/meta.json','w'),indent=1)
print(sid,prop,'ctest',ct,'demo with/without',w,wo,'check exit',ck)
PY
git -C /repo worktree remove --force $WT
