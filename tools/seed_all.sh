#!/bin/bash
# tools/seed_all.sh [parallel] : run every seeded change against its property's quick check (fresh worktree of /repo HEAD + patch);
# writes seeded/RESULTS.txt (one line per seed: id property verdict first-violation-line).  Seeds are ordered so that checks of the
# same property do not run at the same time (they share work directories).
P=${1:-3}
cd /verif
ls seeded | grep '^C[0-9]' | awk '{print substr($0,4) "_ " $0}' | sort | awk '{print $2}' | xargs -P $P -I{} bash -c 'id={}; prop=${id:0:3}; out=$(tools/seed_check.sh $id $prop quick 2>&1); rc=$(echo "$out" | grep -o "^PASS\|^FAIL\|FAILURE" | tail -1); echo "$id $prop $rc $(echo "$out" | grep -m1 "VIOLATION" | cut -c1-160)"' | sort > seeded/RESULTS.txt
cat seeded/RESULTS.txt
