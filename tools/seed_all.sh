#!/bin/bash
# tools/seed_all.sh [parallel] : run every seeded change against its property's quick check (fresh worktree of /repo HEAD + patch);
# writes seeded/RESULTS.txt (one line per seed: id property exit-code first-violation-line)
P=${1:-3}
cd /verif
ls seeded | grep '^C[0-9]' | xargs -P $P -I{} bash -c 'id={}; prop=${id:0:3}; out=$(tools/seed_check.sh $id $prop quick 2>&1); rc=$(echo "$out" | grep -o "^PASS\|^FAIL\|FAILURE" | tail -1); echo "$id $prop $rc $(echo "$out" | grep -m1 "VIOLATION" | cut -c1-160)"' | sort > seeded/RESULTS.txt
cat seeded/RESULTS.txt
