#!/usr/bin/env python3
"""authoring helper (not part of the check): writes spec/ScanSelectDomain.tla with the text literals spelled as code tuples"""
import re, sys
LITS = {}
def lit(name, s):
    LITS[name] = s
def codes(s): return "<<" + ", ".join(str(ord(c)) for c in s) + ">>"

BODY = r'''
Seg1(s) == <<s>>                                  \* one segment
NameOf(zz, mids) == JoinWith(<<zz>> \o mids \o <<t_csv>>, <<DOT>>)
InDir(d, n) == IF d = <<>> THEN n ELSE d \o <<SLASH>> \o n
Sl(mf, id, sw, hw) == <<10, mf>> \o id \o sw \o hw
BaseSl == Sl(181, @BAI00@, <<1, 2>>, <<3, 4>>)     \* Vaillant BAI00 SW 0102 HW 0304
World(fam, addr, has, sl, ents) == [t |-> "sel", addr |-> addr, has |-> has, sl |-> sl, ents |-> ents]
Ents(E) == SetToSeq(E)
Files(dir, NS, kind) == {<<InDir(dir, n), kind>> : n \in NS}
(* the subsets of 1..4 elements, each built once (q = the set as a sequence) *)
Sub1(q) == {{q[i]} : i \in 1..Len(q)}
Sub2(q) == UNION {{{q[i], q[j]} : j \in (i + 1)..Len(q)} : i \in 1..Len(q)}
Sub3(q) == UNION {UNION {{{q[i], q[j], q[k]} : k \in (j + 1)..Len(q)} : j \in (i + 1)..Len(q)} : i \in 1..Len(q)}
Sub4(q) == UNION {UNION {UNION {{{q[i], q[j], q[k], q[l]} : l \in (k + 1)..Len(q)} : k \in (j + 1)..Len(q)} : j \in (i + 1)..Len(q)} : i \in 1..Len(q)}
UpTo2(S) == LET q == SetToSeq(S) IN Sub1(q) \cup Sub2(q)
UpTo3(S) == LET q == SetToSeq(S) IN Sub1(q) \cup Sub2(q) \cup Sub3(q)
UpTo4(S) == LET q == SetToSeq(S) IN Sub1(q) \cup Sub2(q) \cup Sub3(q) \cup Sub4(q)

(* ---- the name grammar: optional ident, circuit, suffix, versions in either order ---- *)
SWm == @SW0102@   SWx == @SW0103@   HWm == @HW0304@   HWx == @HW0305@
NoSeg == <<>>
IdAll == {NoSeg, Seg1(<<>>), Seg1(@bai00@), Seg1(@bai0@), Seg1(@bai@), Seg1(@ba@), Seg1(@bax@), Seg1(@bai01@), Seg1(@bailon@)}
CircAll == {NoSeg, Seg1(@hc@), Seg1(@longcirc@)}
SufAll == {NoSeg, Seg1(@3@)}
VerAll == {NoSeg, <<SWm>>, <<SWx>>, <<HWm>>, <<HWx>>, <<SWm, HWm>>, <<SWm, HWx>>, <<SWx, HWm>>, <<SWx, HWx>>,
           <<HWm, SWm>>, <<HWx, SWm>>, <<HWm, SWx>>, <<HWx, SWx>>}
Mids(IS, CS, SS, VS) == {i \o c \o s \o v : i \in IS \ {NoSeg}, c \in CS, s \in SS, v \in VS}
                        \cup (IF NoSeg \in IS THEN VS ELSE {})                  \* without ident segment: versions only
Names(ZS, IS, CS, SS, VS) == {NameOf(z, m) : z \in ZS, m \in Mids(IS, CS, SS, VS)}

(* A1: every name of the grammar alone in the directory *)
NamesA1 == Names({@08@, @15@}, IdAll, CircAll, SufAll, VerAll)
FamA1(th) == {World("A1", 8, 1, BaseSl, Ents(Files(@vaillant@, {n}, 0))) : n \in NamesA1}

(* A2: precedence between two candidates *)
NamesA2(th) == IF th THEN Names({@08@}, {NoSeg, Seg1(<<>>), Seg1(@bai00@), Seg1(@bai0@), Seg1(@bai@), Seg1(@bax@)}, CircAll, {NoSeg}, VerAll)
               ELSE Names({@08@}, {NoSeg, Seg1(<<>>), Seg1(@bai00@), Seg1(@bai0@), Seg1(@bai@), Seg1(@bax@)}, {NoSeg, Seg1(@longcirc@)}, {NoSeg},
                          {NoSeg, <<SWm>>, <<SWx>>, <<HWm>>, <<SWm, HWm>>, <<SWx, HWm>>})
FamA2(th) == {World("A2", 8, 1, BaseSl, Ents(Files(@vaillant@, P, 0))) : P \in {Q \in UpTo2(NamesA2(th)) : Cardinality(Q) = 2}}

(* A3: three and four candidates of a core grammar *)
NamesA3(th) == IF th THEN Names({@08@}, {NoSeg, Seg1(@bai0@), Seg1(@bai@)}, {NoSeg, Seg1(@longcirc@)}, {NoSeg}, {NoSeg, <<SWm>>, <<HWm>>, <<SWm, HWm>>})
               ELSE Names({@08@}, {NoSeg, Seg1(@bai0@), Seg1(@bai@)}, {NoSeg, Seg1(@longcirc@)}, {NoSeg}, {NoSeg, <<SWm>>, <<SWm, HWm>>}) \ {NameOf(@08@, <<SWm, HWm>>)}
FamA3(th) == {World("A3", 8, 1, BaseSl, Ents(Files(@vaillant@, P, 0))) : P \in {Q \in UpTo4(NamesA3(th)) : Cardinality(Q) >= 3}}

(* A4: the ident bytes of the identification against names that spell prefixes of what they normalise to *)
IdentFam == {@BAI00@, @bai00@, @Bai00@, @BAI01@, @BA100@, @70000@, @B_I00@, @B I00@, <<66, 65, 73, 0, 0>>, <<66, 65, 0, 73, 48>>, @B.I00@,
             @     @, @00000@, @BAI0 @, <<66, 65, 73, 1, 200>>, @BA1X0@}
PrefixesOf(s) == {SubSeq(s, 1, k) : k \in 0..Len(s)}
NamesA4(idb) == LET n == NormIdent(idb) IN
                {NameOf(@08@, Seg1(p)) : p \in PrefixesOf(n) \cup PrefixesOf(LowerT(idb)) \cup {n \o <<48>>}} \cup {NameOf(@08@, NoSeg)}
FamA4(th) == UNION {{World("A4", 8, 1, Sl(181, idb, <<1, 2>>, <<3, 4>>), Ents(Files(@vaillant@, P, 0))) :
                       P \in {Q \in UpTo2({m \in NamesA4(idb) : Len(m) <= 12}) : Q # {}}} : idb \in IdentFam}

(* A5: SW / HW bytes against version constraints *)
VerBytes == {<<1, 2>>, <<0, 0>>, <<153, 153>>, <<26, 2>>, <<255, 255>>, <<0, 26>>, <<1, 0>>}
VerTexts == {@0102@, @0000@, @9999@, @0026@, @0100@}
NamesA5 == {NameOf(@08@, <<@bai@>>), NameOf(@08@, <<@bai@, SWm, @HW0304@>>)}
           \cup {NameOf(@08@, <<@bai@, t_SW \o v>>) : v \in VerTexts} \cup {NameOf(@08@, <<@bai@, t_HW \o v>>) : v \in VerTexts}
VerPairs(th) == IF th THEN VerBytes \X VerBytes ELSE {<<s, <<3, 4>> >> : s \in VerBytes} \cup {<< <<1, 2>>, h>> : h \in VerBytes}
FamA5(th) == UNION {{World("A5", 8, 1, Sl(181, @BAI00@, sh[1], sh[2]), Ents(Files(@vaillant@, P, 0))) : P \in UpTo2(NamesA5)} : sh \in VerPairs(th)}

(* A6: manufacturer byte against the directory the file lies in *)
MfBytes == {181, 16, 15, 253, 133, 21, 153, 0, 6, 254}
MfDirs == {@vaillant@, @tem@, @fh ostfalia@, @ebusd.eu@, @ebm-papst@, @landis-staefa@, @153@, @0@, @dungs@, @254@, @Vaillant@, @181@, @b5@,
           @TEM@, @16@, @10@, @99@, <<>>}
FamA6(th) == {World("A6", 8, 1, Sl(mf, @BAI00@, <<1, 2>>, <<3, 4>>), Ents(Files(d, {NameOf(@08@, <<@bai@>>)}, 0))) : mf \in MfBytes, d \in MfDirs}
             \cup {World("A6", 8, 1, Sl(mf, @BAI00@, <<1, 2>>, <<3, 4>>),
                         Ents(Files(d1, {NameOf(@08@, <<@bai@>>)}, 0) \cup Files(d2, {NameOf(@08@, <<@bai0@>>)}, 0))) :
                     mf \in {181, 153}, d1 \in MfDirs, d2 \in MfDirs}

(* A7: what else may lie in the directory *)
Listing == {<<@vaillant/08.bai.csv@, 0>>, <<@vaillant/08.bai0.csv@, 1>>, <<@vaillant/08.bai0.csv.bak@, 0>>, <<@vaillant/08.bai0.txt@, 0>>,
            <<@vaillant/08.bai0csv@, 0>>, <<@vaillant/x08.bai0.csv@, 0>>, <<@vaillant/08bai0.csv@, 0>>, <<@vaillant/_templates.csv@, 3>>,
            <<@vaillant/gen.csv@, 0>>, <<@vaillant/ab.csv@, 0>>, <<@vaillant/b.csv@, 0>>, <<@vaillant/sub/08.bai00.csv@, 0>>,
            <<@08.bai00.csv@, 0>>, <<@vaillant/15.bai00.csv@, 0>>, <<@vaillant/gen.inc@, 0>>, <<@vaillant/sub.csv@, 1>>}
FamA7(th) == {World("A7", 8, 1, BaseSl, Ents(E)) : E \in {Q \in (IF th THEN UpTo4(Listing) ELSE UpTo3(Listing)) : Q # {}}}

(* A8: addresses *)
Addrs == {8, 21, 10, 254, 16, 170, 169, 255, 0, 117}
FamA8(th) == UNION {{World("A8", a, 1, BaseSl, Ents(E)) :
                       E \in {Q \in UpTo2(Files(@vaillant@, {NameOf(Hex2(a), <<@bai@>>), NameOf(@08@, <<@bai@>>), NameOf(@0A@, <<@bai@>>)}, 0)) : Q # {}}} :
                    a \in Addrs}

(* A9: no or short identification *)
Short == {<<>>, <<0>>, <<9, 181>> \o @BAI00@ \o <<1, 2, 3>>, <<10, 181>> \o @BAI00@ \o <<1, 2, 3>>, <<10, 181>> \o @BAI00@ \o <<1, 2, 3, 4, 5>>,
          <<11, 181>> \o @BAI00@ \o <<1, 2, 3, 4, 5>>, <<9, 181>> \o @BAI00@ \o <<1, 2, 3, 4>>}
FamA9(th) == {World("A9", 8, 0, BaseSl, Ents(Files(@vaillant@, {NameOf(@08@, <<@bai@>>)}, 0)))}
             \cup {World("A9", 8, 1, sl, Ents(Files(@vaillant@, {NameOf(@08@, <<@bai@>>)}, 0))) : sl \in Short}

(* A10: definitions that take circuit and destination from the defaults of the file name *)
NamesA10 == {NameOf(@08@, <<@bai@>>), NameOf(@08@, <<@bai@, @hc@>>), NameOf(@08@, <<@bai@, @3@>>), NameOf(@08@, <<@bai@, @hc@, @3@>>),
             NameOf(@08@, <<<<>>, @hc@>>), NameOf(@08@, <<<<>>, @hc@, @3@>>), NameOf(@08@, <<@bai00@>>), NameOf(@08@, <<@bai@, @hc@, SWm>>),
             NameOf(@08@, <<@bai@, @3@, HWm>>), NameOf(@08@, <<@bai@, @hc@, @3@, SWm, HWm>>), NameOf(@08@, <<@bai0@, @longcirc@, @3@>>)}
FamA10(th) == {World("A10", 8, 1, BaseSl, Ents(Files(@vaillant@, {n}, 2) \cup X)) :
                 n \in NamesA10, X \in {{}, {<<@vaillant/_templates.csv@, 3>>, <<@vaillant/gen.csv@, 0>>}}}

(* the worlds as a sequence, family after family (a world that belongs to two families is simply run twice): no big set   *)
(* has to be normalised, and the judge compares the records with this list index by index                                 *)
SelSeq(th) == SetToSeq(FamA1(th)) \o SetToSeq(FamA2(th)) \o SetToSeq(FamA3(th)) \o SetToSeq(FamA4(th)) \o SetToSeq(FamA5(th))
              \o SetToSeq(FamA6(th)) \o SetToSeq(FamA7(th)) \o SetToSeq(FamA8(th)) \o SetToSeq(FamA9(th)) \o SetToSeq(FamA10(th))
FamilySizes(th) == <<Cardinality(FamA1(th)), Cardinality(FamA2(th)), Cardinality(FamA3(th)), Cardinality(FamA4(th)), Cardinality(FamA5(th)),
                     Cardinality(FamA6(th)), Cardinality(FamA7(th)), Cardinality(FamA8(th)), Cardinality(FamA9(th)), Cardinality(FamA10(th))>>

(* ---- names handed to the file-name reader alone ---- *)
FnExtra == {@08.csv@, @8.bai.csv@, @0g.bai.csv@, @aa.bai.csv@, @a9.bai.csv@, @0A.bai.csv@, @08.bailon.hc.csv@, @08.bai.hc.x.csv@,
            @08.SW0102.bai.csv@, @08.bai.SW01a2.csv@, @08.bai.SW0102.SW0103.csv@, @08.BAI.csv@, @08.bai.hc.3.x.SW0102.y.HW0304.z.csv@,
            @08.bai.txt@, @_templates.csv@, @gen.csv@, @08.bai.3.hc.csv@, @fe.bai.csv@, @08..hc.csv@, @08...csv@, @08.bai.hc.3@, @08@, @08.@,
            @08.bai.7.csv@, @08.bai.c.csv@, @08.bai.33.csv@, @08.bai.hc.33.csv@, @08.bai.33.x.csv@, @08.bai.3.x.csv@, @08.bai.hc.HW0304.x.SW0102.csv@}
FnNames == NamesA1 \cup FnExtra

(* ---- MASTER/SLAVE texts ---- *)
PmQQ == {@ff@, @10@, @08@, @aa@}
PmZZ == {@08@, @15@, @10@, @fe@, @aa@, @a9@}
PmTail == {@070400@, @070401b5@, @070401@, @0704@, @07040@, @07040g@, @0704 0@, @0704+0@, @070400b5@, @0704000@}
PmSlave == {<<>>, @00@, @01b5@, @02b5@, @0ab5424149303001020304@, @0@, @zz@, @0/@, @+1@, @01B5@}
PmSep == {<<SLASH>>, <<>>}
PmTexts == {q \o z \o t \o sep \o s : q \in PmQQ, z \in PmZZ, t \in PmTail, sep \in PmSep, s \in PmSlave}
           \cup {@FF08070400/0AB5454850303003277201@, @Ff08070400/@, @/@, <<>>, @/00@, @ff08070400//@}
PmCases == {[t |-> "pm", arg |-> a, oms |-> o, pre |-> 0] : a \in PmTexts, o \in {0, 1}}
           \cup {[t |-> "pm", arg |-> a, oms |-> 1, pre |-> 1] : a \in {@ff08070400/0ab5424149303001020304@, @ff15070400/00@, @ff08070400@, @1008070400/@}}
'''

def main(out):
    used = []
    def rep(m):
        s = m.group(1)
        name = "x_" + re.sub(r"[^A-Za-z0-9]", lambda c: "_%02x" % ord(c.group(0)), s)
        if s == "":
            return "<<>>"
        if (name, s) not in used:
            used.append((name, s))
        return name
    body = re.sub(r"@([^@\n]*)@", rep, BODY)
    hdr = ["------------------------------ MODULE ScanSelectDomain ------------------------------",
           "(* The enumerated domain of the scan selection check: a grammar of file names, families of small worlds (directory   *)",
           "(* entries x identification x address), names for the file-name reader, MASTER/SLAVE texts.  TLC enumerates it       *)",
           "(* completely (ScanSelectGen emits it as cases, ScanSelectJudge asserts that the records cover it).                   *)",
           "(* The x_... definitions are text literals spelled as character codes (written by the authoring script).             *)",
           "EXTENDS ScanSelect, SequencesExt",
           ""]
    for name, s in used:
        hdr.append("%s == %s   \\* \"%s\"" % (name, codes(s), s))
    with open(out, "w") as f:
        f.write("\n".join(hdr) + "\n" + body + "=============================================================================\n")

main(sys.argv[1])
