#!/bin/sh
# tools/mut.sh <Cxx> <file relative to repo> <python-regex-old> <new>   : apply a one-off mutation in a scratch worktree and run the check
P=$1; F=$2; OLD=$3; NEW=$4; shift 4
WT=/tmp/wt-lead-$$
git -C /repo worktree add --detach $WT HEAD >/dev/null 2>&1 || exit 2
python3 - "$WT/$F" "$OLD" "$NEW" <<'PY'
import sys,re
f,old,new=sys.argv[1:4]
s=open(f).read()
n=s.count(old)
if n!=1:
    print("MUTATION PATTERN COUNT",n); sys.exit(3)
open(f,'w').write(s.replace(old,new))
PY
rc=$?
if [ $rc = 0 ]; then VERIF_REPO=$WT /verif/bin/check $P "$@" 2>&1 | grep -v "^\[" | cut -c1-260 | tail -6; fi
git -C /repo worktree remove --force $WT
