#!/usr/bin/env python3
"""Regenerates MANIFEST.json from the table below (single source of truth for what is claimed)."""
import json
import os

ROOT = os.path.dirname(os.path.dirname(os.path.abspath(__file__)))

CHECKS = {
    "C07": dict(
        cat="exploration", ref="DESIGN.md 5/C07",
        technique="TLA+ WriteSafe oracle on digit-sequence arithmetic (BigDec): own grammar parser, documented type table, exact one-step "
                  "comparison incl. binary32 as exact decimal; TLC emits the definition x boundary-text domain (C07Gen), the harness replays "
                  "it on real DataField::create/write/read, TLC judges every record and asserts domain completeness (C07Judge)",
        text="107 definitions (all numeric base types, divisors/multipliers, 9 ranges, value lists, day types) x texts around min-1..max+1, "
             "replacement, 2^k-1..2^k+1 (k in 7,8,15,16,23,24,31,32,63,64) in raw and value units, 25-digit values, each in up to 16 spellings, "
             "95 malformed/special texts; thorough: all k, all spellings, 400 seeded random texts per definition (55.7k / 166.6k cases).",
        note="Trusted: TLC evaluation, harness logging, documented type ranges. errno cleared per case (history is C12). Rejected inputs "
             "unconstrained. Hex floats not generated."),
    "C12": dict(
        cat="exploration", ref="DESIGN.md 5/C12",
        technique="TLA+ memo automaton Purity (an op never has two results), model-checked itself (MC_Purity); TLC enumerates all op histories "
                  "and load permutations (PurityGen), the harness replays every history in one process lineage (fork tree), every op in an "
                  "exec'ed fresh process and every permutation in a fresh process; TLC validates the trace (PurityTV) and the completeness of "
                  "the replayed domain (PurityDomain)",
        text="34 ops (valid/ERANGE/malformed encodes for unsigned, signed, fixed-point, float, list; ranged-field creation; divisor derivation "
             "from plain vs. ranged-template types; decodes on one shared ostream after hex/fixed/padded/date-with-null fields; dumps): all "
             "40.5k histories <=3, thorough +234k of length 4 over 22 core ops; 72 load permutations of 3 sets of 4 independent lines with "
             "sorted dump and probe encodes.",
        note="Trusted: TLC, harness logging (errno preserved around harness I/O), fork() as model of a long-running thread. Hidden state "
             "outside the alphabet (e.g. locale) not exercised."),
    "C08": dict(
        cat="model_checking", ref="DESIGN.md 5/C08",
        technique="TLA+ MatchRef oracle (P) + transcription of createKey/add/find/checkId (S, MsgMatch.tla); TLC generates definition sets "
                  "in add order and derived telegrams, the harness replays them on a real MessageMap, TLC judges every find result and "
                  "evaluates S => P on the same domain",
        text="All sets of <=2 (thorough <=3) definitions over ID bytes {00,01}, ID length 0..6 (7), src any/10, dst any/08/FE/10, "
             "r/w/u/uw, one chained, one conditional, structured + seeded random triples; telegrams by keep/truncate/extend/mutate; "
             "2 destination modes x 8 direction sets x onlyAvailable.",
        note="Trusted: TLC evaluation, harness logging, CSV rendering (cross-checked by readback); small-scope byte alphabet; "
             "known finding C08:longer-chained-id-shadowed on the pinned tree."),
    "C09": dict(
        cat="model_checking", ref="DESIGN.md 5/C09",
        technique="TLA+ Build/Parts/Join/DecodeText/MustReject + part-arrival monitor (P); ChainedMessage cache state machine (S) "
                  "model-checked against P incl. 3 seeded defects; TLC-generated shapes x inputs x answers x arrival orders replayed on "
                  "real Message/ChainedMessage/MessageMap objects with a virtual clock, traces judged by TLC",
        text="read/write, master/slave/default parts, defaults, templates, ZZ lists, no-ZZ templates, boundary lengths 23-26, chained IDs "
             "with explicit lengths (read chains also with omitted lengths); all arrival orders x gaps {0,1,16,50} + window edges, seen "
             "and active flows.",
        note="Trusted: TLC, harness logging, CSV/input rendering (readback-checked). UCH/HEX/IGN only. MAX_POS=24 and 15 s x parts taken "
             "from code constants. The meaning of an omitted length in a chained write is deliberately outside P."),
    "C10": dict(
        cat="model_checking", ref="DESIGN.md 5/C10",
        technique="TLA+ ownership fold Own (Layout.tla; a set of admissible maps, two where the text leaves the sharing of a byte open) "
                  "as oracle; TLC explores S(getLength/read/write with hasFullByteOffset) x P to a fix-point (LayoutMC), enumerates "
                  "the field-sequence domain with its admissible maps (C10Cases), and judges black-box ownership records of the "
                  "real DataFieldSet (C10Judge)",
        text="TLC proves the transcribed bookkeeping refines Own for field sequences of any length and emits every P-specified "
             "sequence of the bounded domain (38k quick / 295k thorough); the harness builds each set from CSV text, discovers owned "
             "bits by encoding one field at a time and by flipping every bit before decoding in 7 output formats, compares the three "
             "length notions; TLC judges every record against the admissible map the real write realised and the "
             "composition/alone/round-trip laws.",
        note="Trusted: TLC's evaluation; harness logging. Domain bounded to 15 kinds, <=4(5) fields; descending/overlapping bit "
             "successions not generated; placement after a same-first-bit restart unspecified (both admitted, but length/encode/decode "
             "must agree); getLength with a '*' field only bounded; bit dependence observed on 4 base data per sequence."),
    "C16": dict(
        cat="model_checking", ref="DESIGN.md 5/C16",
        technique="TLA+ oracle Access.tla (token membership, session monitor, sink rule): TLC judges exhaustive records of the real "
                  "Message::checkLevel; TLC model-checks the code-shaped session model S against the monitor (S => P, vacuity: pinned "
                  "variant rejected); TLC generates small worlds x sessions that an in-process daemon (real MainLoop thread, UserList from "
                  "ACL file, MessageMap, BusHandler, DirectProtocolHandler on a fake transport with scripted slave, DataSink subclass) "
                  "replays; TLC judges every command's response class, disclosed values, telegrams on the bus and poll priorities",
        text="All level lists over {a,b,;,*} up to length 7 (8) x all levels over {a,b} up to length 3 are judged against Granted "
             "(completeness asserted in TLA+). 344 (1244) worlds (ACL with default via option or '*' line, <=2 users, prefix/suffix/infix "
             "level names, 3 message layouts) x 21 (43) sessions per layout (auth ok/bad/unknown/missing secret, read by name +-circuit, "
             "-f, -p, -h, write, write -h, HTTP /data with 6 (8) credential forms and required/poll/write/exact) are replayed on the real "
             "daemon and every command is judged; S => P is explored exhaustively for sessions of any length over the alphabet.",
        note="Trusted: TLC's evaluation; harness logging; in-line stepping of the bus thread; standing clock. Open by decision: behaviour "
             "after a failed auth (kept vs reset), error texts, 'usage' refusals. Outside: find -l, listen, define, MQTT/KNX classes "
             "themselves."),
    "C01": dict(
        cat="model_checking", ref="DESIGN.md 5/C01",
        technique="TLA+ reference telegram parser (RecvMon, spec/BusMonitors.tla) model-checked by TLC on the transition graph "
                  "extracted to a fix-point from the real DirectProtocolHandler (P-on-G, spec/ProtoGraph.tla)",
        text="The real handler + device are stepped over an environment that at every position offers the well-formed continuation "
             "or a fault (SYN, timeout, junk, bad CRC, NAK, invalid escape, non-master/self/own addresses); the reachable graph is "
             "closed (fix-point), so the monitor verdict holds for streams of any length over that alphabet; soundness, completeness "
             "and no-duplicate clauses are invariants of the product.",
        note="Assumes data independence inside a byte class (one representative per class, NN <= 1 quick / 2 thorough) and a complete "
             "state projection; both are bounds of the search, never part of the oracle."),
    "C02": dict(
        cat="model_checking", ref="DESIGN.md 5/C02",
        technique="TLA+ reference sender/verdict monitor (SendMon) model-checked by TLC on the real handler's extracted transition graph",
        text="For requests with escapes in data, every responder behaviour at every step (ACK/NAK/junk/SYN/silence, good/bad/escaped "
             "response CRC) and echo faults on every written byte are explored to a fix-point; SendMon fixes the admissible byte "
             "sequence, the ACK/NAK duty, the final SYN and the completion verdict (OK iff valid exchange, md_send iff OK).",
        note="Same alphabet/projection assumptions as C01; request shapes are the configured ones (MS with escape, broadcast, MM)."),
    "C03": dict(
        cat="model_checking", ref="DESIGN.md 5/C03",
        technique="TLA+ entitlement monitor (TxMon rules a-d, with RecvMon/ReqMon as inputs) model-checked by TLC on the real handler's graph",
        text="Every byte the real stack writes is judged: arbitration only directly after SYN with a pending request and an expired "
             "lock counter (>= 1 further SYN after a lost arbitration, configured count against another priority class), continuation "
             "only while every echo matched, answers only at the acknowledge position of a telegram to a registered address, AUTO-SYN "
             "only after the interval of silence, nothing in read-only mode.",
        note="Collision winners, submission points and passive traffic are the configured alphabets; initialSend is off (outside the property)."),
    "C04": dict(
        cat="model_checking", ref="DESIGN.md 5/C04",
        technique="TLA+ request life-cycle monitor (ReqMon) model-checked by TLC on the real handler's graph with fault injection "
                  "(read/write errors, signal loss, lost arbitration, submissions before steps and inside the ps_empty callback)",
        text="Exactly-once completion, no completion of idle requests, delete only after the final notify of self-deleting requests, "
             "waiter released with its own result, no pending request after signal loss; all interleavings of queue operations that "
             "the step harness can produce are in the graph.",
        note="Thread schedules are represented by the atomic queue operations (submission before a step / inside the callback / "
             "after a step); the real run() thread is not part of the graph extraction."),
    "C15": dict(
        cat="model_checking", ref="DESIGN.md 5/C15",
        technique="TLA+ reference answerer (AnswerMon: longest-prefix match, ACK, escaped response + CRC, one repetition) + TxMon "
                  "model-checked by TLC on the real handler's graph in answer mode",
        text="Tables with several ID lengths; telegrams with shorter/longer data, good/bad CRC, NAK of the response; both directions "
             "are checked: what is answered must be registered (longest prefix) and what is registered must be answered.",
        note="A bad-CRC master part may be answered with NAK or left alone (the property text is read leniently there)."),
    "C18": dict(
        cat="exploration", ref="DESIGN.md 5/C18",
        technique="explicit TLA+ oracle (ReqParse) + TLC-generated cases + conformance harness; TLC judges records",
        text="TLC enumerates argument lists with all client encodings, URIs (<=4 tokens, all <=5/6 chars, seeded longer) "
             "and matchable topic templates x triples; the harness replays them on RequestImpl::add/split, "
             "MainLoop::decodeRequest->executeGet (in-process daemon, model file system from the spec) and StringReplacer; "
             "TLC judges every record and asserts domain completeness",
        note="MQTT bound at StringReplacer level; query part and malformed-escape decoding unspecified; known finding: %3f in a path"),
    "C19": dict(
        cat="exploration", ref="DESIGN.md 5/C19",
        technique="explicit TLA+ oracle (Csv) + TLC-generated field lists and definition sets + conformance harness; TLC judges records",
        text="splitFields on every quoting of every field list; load spec text -> attributes -> dump (--dumpconfig and find -f "
             "paths) -> reload -> attributes -> dump; TLC checks attributes = definition, dump columns = definition under the "
             "spec's reader, idempotence",
        note="12 representative types, no level/range/condition/templates/defaults; fields compared up to outer blanks"),
    "C11": dict(
        cat="exploration", ref="DESIGN.md 5/C11",
        technique="TLA+ definitional oracle (EbusSymbols.tla: CRC by polynomial division, escape automaton, nibble classes) "
                  "evaluated by TLC on exhaustively enumerated records of the real functions + TLC-checked lemmas",
        text="All 65536 CRC update steps, all 256 addresses, all escaped strings up to length 2 (class alphabet for 3/4) are "
             "enumerated from the real functions and every record is judged by TLC against the TLA+ definitions; completeness of "
             "the enumeration is itself asserted in TLA+. Longer strings follow by the fold-induction lemma (TLC-checked) and are sampled.",
        note="Trusted: TLC's evaluation of the TLA+ operators; the harness logging; strings beyond the exhaustive bound rest on the "
             "per-step exhaustiveness + the fold structure of calcCrc (sampled with 2k/20k random long strings)."),
}

NOT_APPLICABLE = {
    "C20": "memory safety / crash freedom / bounded work for arbitrary bytes is not a behaviour an explicit TLA+ state model can "
           "express or TLC can decide (no notion of address, allocation, shift width or exception); the brief rules out switching "
           "to fuzzing/sanitizers as the deciding technique (see DESIGN.md section 6)",
}

PENDING = "check not built yet in this round (planned, see DESIGN.md section 5); not claimed until its command exists"


def main():
    props = [json.loads(l)["id"] for l in open(os.path.join(ROOT, "properties.jsonl"))]
    checks = []
    for pid in props:
        if pid not in CHECKS:
            continue
        c = CHECKS[pid]
        checks.append({
            "property_id": pid,
            "quick_cmd": "bin/check %s --tier quick" % pid,
            "thorough_cmd": "bin/check %s --tier thorough" % pid,
            "evidence_file": "/verif/evidence/%s.json" % pid,
            "replay_cmd_template": "bin/check %s --replay {path}" % pid,
            "engine": "tlc",
            "level_claimed": {"category": c["cat"], "text": c["text"], "design_ref": c["ref"]},
            "level_note": c["note"],
            "technique": c["technique"],
        })
    na = []
    for pid in props:
        if pid in CHECKS:
            continue
        na.append({"property_id": pid, "reason": NOT_APPLICABLE.get(pid, PENDING)})
    m = {
        "version": 1,
        "setup_cmd": "bin/setup",
        "hooks": {
            "guard": "EBUSD_VERIF",
            "enable": "checks compile /repo/src directly with g++ -DEBUSD_VERIF (lib/vf/build.py); the guard only adds "
                      "'friend struct VerifAccess;' declarations so harnesses can step and project private state",
            "baseline_off_cmd": "bin/baseline_off",
            "source_commits": HOOK_COMMITS,
            "add_only": True,
        },
        "engines": [{"name": "tlc", "path": "/usr/local/bin/tlc", "serves_properties": sorted(CHECKS),
                     "kind_free_text": "TLC 1.8.0 explicit-state model checker; P monitors and oracles in /verif/spec, bound to the "
                                       "code by C++ harnesses that extract transition graphs / records / traces from the real objects"}],
        "checks": checks,
        "not_applicable": na,
        "notes": "Every check: bin/check <id> --tier quick|thorough. Exit 0 held / 1 VIOLATION / 2 machinery failure. "
                 "Known findings: known_findings.json. Seeded breaking changes: seeded/.",
    }
    with open(os.path.join(ROOT, "MANIFEST.json"), "w") as f:
        json.dump(m, f, indent=1)
        f.write("\n")


HOOK_COMMITS = ["54407b0", "421500e"]

if __name__ == "__main__":
    main()
