#!/usr/bin/env python3
"""Regenerates MANIFEST.json from the table below (single source of truth for what is claimed)."""
import json
import os

ROOT = os.path.dirname(os.path.dirname(os.path.abspath(__file__)))

CHECKS = {
    "C11": dict(
        cat="exploration", ref="DESIGN.md 5/C11",
        technique="TLA+ definitional oracle (EbusSymbols.tla: CRC by polynomial division, escape automaton, nibble classes) "
                  "evaluated by TLC on exhaustively enumerated records of the real functions + TLC-checked lemmas",
        text="All 65536 CRC update steps, all 256 addresses, all escaped strings up to length 2 (class alphabet for 3/4) are "
             "enumerated from the real functions and every record is judged by TLC against the TLA+ definitions; completeness of "
             "the enumeration is itself asserted in TLA+. Longer strings follow by the fold-induction lemma (TLC-checked) and are sampled.",
        note="Trusted: TLC's evaluation of the TLA+ operators; the harness logging; strings beyond the exhaustive bound rest on the "
             "per-step exhaustiveness + the fold structure of calcCrc (sampled with 2k/20k random long strings)."),
}

NOT_APPLICABLE = {
    "C20": "memory safety / crash freedom / bounded work for arbitrary bytes is not a behaviour an explicit TLA+ state model can "
           "express or TLC can decide (no notion of address, allocation, shift width or exception); the brief rules out switching "
           "to fuzzing/sanitizers as the deciding technique (see DESIGN.md section 6)",
}

PENDING = "check not built yet in this round (planned, see DESIGN.md section 5); not claimed until its command exists"


def main():
    props = [json.loads(l)["id"] for l in open(os.path.join(ROOT, "properties.jsonl"))]
    checks = []
    for pid in props:
        if pid not in CHECKS:
            continue
        c = CHECKS[pid]
        checks.append({
            "property_id": pid,
            "quick_cmd": "bin/check %s --tier quick" % pid,
            "thorough_cmd": "bin/check %s --tier thorough" % pid,
            "evidence_file": "/verif/evidence/%s.json" % pid,
            "replay_cmd_template": "bin/check %s --replay {path}" % pid,
            "engine": "tlc",
            "level_claimed": {"category": c["cat"], "text": c["text"], "design_ref": c["ref"]},
            "level_note": c["note"],
            "technique": c["technique"],
        })
    na = []
    for pid in props:
        if pid in CHECKS:
            continue
        na.append({"property_id": pid, "reason": NOT_APPLICABLE.get(pid, PENDING)})
    m = {
        "version": 1,
        "setup_cmd": "bin/setup",
        "hooks": {
            "guard": "EBUSD_VERIF",
            "enable": "checks compile /repo/src directly with g++ -DEBUSD_VERIF (lib/vf/build.py); the guard only adds "
                      "'friend struct VerifAccess;' declarations so harnesses can step and project private state",
            "baseline_off_cmd": "bin/baseline_off",
            "source_commits": HOOK_COMMITS,
            "add_only": True,
        },
        "engines": [{"name": "tlc", "path": "/usr/local/bin/tlc", "serves_properties": sorted(CHECKS),
                     "kind_free_text": "TLC 1.8.0 explicit-state model checker; P monitors and oracles in /verif/spec, bound to the "
                                       "code by C++ harnesses that extract transition graphs / records / traces from the real objects"}],
        "checks": checks,
        "not_applicable": na,
        "notes": "Every check: bin/check <id> --tier quick|thorough. Exit 0 held / 1 VIOLATION / 2 machinery failure. "
                 "Known findings: known_findings.json. Seeded breaking changes: seeded/.",
    }
    with open(os.path.join(ROOT, "MANIFEST.json"), "w") as f:
        json.dump(m, f, indent=1)
        f.write("\n")


HOOK_COMMITS = []

if __name__ == "__main__":
    main()
