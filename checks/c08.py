"""C08 - a telegram is matched to the right message definition (MessageMap::find and friends).

P = spec/MsgMatch.tla  MatchRef/Allowed (destination, PBSB, ID bytes incl. chain parts, source restriction, direction,
    availability; longest ID wins; two documented lookup modes; scan special case).
S = spec/MsgMatch.tla  SLoad/SFind (createKey variants with XOR fold, m_maxIdLength/m_maxBroadcastIdLength, duplicate
    detection, descending probe, checkId).
TLC (spec/C08Gen.tla) generates the cases (definition sets in add order + derived telegrams), harness/c08_match.cpp replays
them on a real MessageMap, TLC (spec/C08Judge.tla) judges every returned definition against P, compares with S
(difference = drift) and evaluates S => P on the same domain."""
import glob
import json
import os
import shutil
import time
from concurrent.futures import ThreadPoolExecutor

from vf import build, recs, tlc

ANY = 170
MAXREC = 2000   # records per judge run


def hx(b):
    return "".join("%02x" % x for x in b)


def render_line(d, k):
    """abstract definition -> ebusd CSV line: type,circuit,name,comment,qq,zz,pbsb,id"""
    typ = ("[c]" if d["cond"] else "") + d["dir"]
    qq = "" if d["src"] == ANY else "%02x" % d["src"]
    zz = "" if d["dst"] == ANY else "%02x" % d["dst"]
    ident = ";".join(hx(i) for i in d["ids"])
    return "%s,c,m%d,,%s,%s,%s,%s" % (typ, k, qq, zz, hx([d["pb"], d["sb"]]), ident)


def render_cases(src_files, out_txt):
    n = 0
    ntel = 0
    with open(out_txt, "w") as out:
        for sf in src_files:
            with open(sf) as f:
                for line in f:
                    line = line.strip()
                    if not line:
                        continue
                    c = json.loads(line)
                    n += 1
                    out.write("C %d %d %d\nJ %s\n" % (n, c["ct"], c["oa0"], line))
                    for k, d in enumerate(c["defs"]):
                        out.write("L %s\n" % render_line(d, k + 1))
                    for t in c["tels"]:
                        out.write("T %s\n" % hx(t))
                        ntel += 1
                    out.write("E\n")
    return n, ntel


def key_of(reason):
    return "C08:" + reason


def run(ctx):
    ctx.level = "model_checking"
    wd = recs.workdir("C08")
    gen = os.path.join(wd, "gen")
    shutil.rmtree(gen, ignore_errors=True)
    os.makedirs(gen)
    for f in glob.glob(os.path.join(wd, "recs*")) + glob.glob(os.path.join(wd, "cases*")):
        os.remove(f)
    exe = build.build("c08_match", ["c08_match.cpp"], ["ebus", "utils"])
    sample = 8000 if ctx.thorough else 0
    t0 = time.time()
    if ctx.replay_path:      # re-run one recorded case instead of generating the domain
        with open(ctx.replay_path) as f:
            case = json.load(f)["replay"]["case"]
        with open(os.path.join(gen, "replay0.ndjson"), "w") as f:
            f.write(json.dumps(case, separators=(",", ":")) + "\n")
        g = {"vf": [["VF", "SHARD", "replay", 0, 1]]}
    else:
        g = tlc.run("C08Gen", "C08Gen.cfg", env={"VF_TIER": ctx.tier, "VF_OUT": gen, "VF_SAMPLE": sample, "VF_SEED": ctx.seed},
                    workers=12, timeout=900, heap="12g", tag="C08-gen")
    shards = {}
    for v in g["vf"]:
        if len(v) >= 5 and v[1] == "SHARD":
            shards["%s%d" % (v[2], v[3])] = v[4]
    files = sorted(glob.glob(os.path.join(gen, "*.ndjson")))
    if not files or len(files) != len(shards):
        raise RuntimeError("generator wrote %d files for %d shards" % (len(files), len(shards)))
    ctx.log("TLC generated %d cases in %d families (%.1fs)" % (sum(shards.values()), len(shards), time.time() - t0))
    cases_txt = os.path.join(wd, "cases.txt")
    ncase, ntel = render_cases(files, cases_txt)
    if ncase != sum(shards.values()):
        raise RuntimeError("rendered %d cases, TLC reported %d" % (ncase, sum(shards.values())))
    rf = os.path.join(wd, "recs.ndjson")
    t1 = time.time()
    recs.run_harness(ctx, exe, [cases_txt, rf])
    ctx.log("harness replayed %d cases / %d telegrams on the real MessageMap (%.1fs)" % (ncase, ntel, time.time() - t1))
    parts = recs.split_file(rf, MAXREC)
    t2 = time.time()

    def judge_one(kp):
        k, p = kp
        return recs.judge(ctx, "C08Judge", "C08Judge.cfg", p, workers=2, heap="4g", tag="C08-j%d" % k, timeout=1700,
                          env={"JAVA_TOOL_OPTIONS": "-XX:ParallelGCThreads=2"})

    with ThreadPoolExecutor(max_workers=7) as ex:
        results = list(ex.map(judge_one, enumerate(parts)))
    ctx.log("TLC judged %d records (%.1fs)" % (ncase, time.time() - t2))
    states = 0
    generated = 0
    notes = {}
    sp = {}
    nbad = 0
    samples = []
    witnesses = []
    for k, (res, bad) in enumerate(results):
        states += res["distinct"]
        generated += res["generated"]
        rr = None
        badrecs = {}
        for v in res["vf"]:
            if len(v) >= 5 and v[1] == "NOTE":
                kind, reason = v[3], v[4]
                if kind == "SP":
                    sp[reason] = sp.get(reason, 0) + 1
                else:
                    notes[reason] = notes.get(reason, 0) + 1
            if len(v) >= 5 and v[1] == "BAD":
                badrecs.setdefault(v[2], []).append((v[3], v[4]))
        for idx, sig in sorted(badrecs.items()):
            if rr is None:
                rr = recs.read_ndjson(parts[k])
            r = rr[idx - 1]
            nbad += 1
            for kind, reason in sig:
                if kind == "M":
                    raise RuntimeError("malformed record %d in %s" % (idx, parts[k]))
                if kind == "SP":
                    sp[reason] = sp.get(reason, 0) + 1
                elif kind == "S":
                    notes[reason] = notes.get(reason, 0) + 1
                elif kind == "P":
                    size = (len(r["c"]["defs"]), sum(len(i) for d in r["c"]["defs"] for i in d["ids"]), len(r["c"]["tels"]))
                    witnesses.append((size, reason, r))
    # smallest witness first: it becomes the replay of its signature
    for size, reason, r in sorted(witnesses, key=lambda w: w[0]):
        lines = [render_line(d, j + 1) for j, d in enumerate(r["c"]["defs"])]
        ctx.violation(key_of(reason), "find on %s returned a definition the oracle rejects (%s)" % (" | ".join(lines), reason),
                      {"lines": lines, "case": r["c"], "load": r["load"], "res": r["res"]})
    for reason, cnt in sorted(notes.items()):
        ctx.drift.append("S model MsgMatch differs from the code (%s) on %d records; P decides" % (reason, cnt))
    # measured: number of real find calls, and how many of them returned a definition / the scan message
    evals = 0
    hits = 0
    with open(rf) as f:
        for line in f:
            for row in json.loads(line)["res"]:
                for packed in row:
                    for _m in range(8):
                        evals += 1
                        if packed % 6 != 1:
                            hits += 1
                        packed //= 6
    first = recs.read_ndjson(parts[0])[:2]
    ctx.coverage = {
        "states": states, "transitions": generated, "traces_validated_against_impl": ncase,
        "evaluations": evals, "distinct_nontrivial": hits,
        "rule": "one evaluation = one real MessageMap::find call (telegram x anyDestination x 8 direction sets [x onlyAvailable]) "
                "on a freshly loaded definition set; all are distinct by construction (cases are elements of TLC sets, telegrams "
                "and modes are enumerated without repetition); counted as non-trivial: the calls that returned a definition or the "
                "scan message (the others check that nothing is returned for a truncated/mutated/foreign telegram or direction)",
        "samples": [{"lines": [render_line(d, j + 1) for j, d in enumerate(r["c"]["defs"])], "tels": [hx(t) for t in r["c"]["tels"][:3]],
                     "res": r["res"][:3]} for r in first],
        "cases": ncase, "telegrams": ntel, "families": shards, "records_rejected": nbad,
        "s_implies_p_counterexamples": sp, "s_conforms": not notes,
    }
    ctx.assumptions = ["TLC evaluates the TLA+ definitions correctly", "harness logs what find returned",
                       "checks/c08.py renders an abstract definition into the CSV line it denotes (cross-checked by reading the "
                       "attributes back from the loaded Message objects)",
                       "ID bytes over {00,01}, ID length <= 6 (7 thorough), <= 2 (3 thorough) definitions per set"]
