"""C12 - codec results are pure: independent of call history and load order.
P = spec/Purity.tla: memo automaton (an operation never returns two different results).  TLC enumerates the operation
histories (all sequences <= 3 over the op alphabet, thorough: + length 4 over the core ops) and the permutations of the
load sets (PurityGen); harness/c12_purity.cpp replays every history inside one process lineage (fork tree) on the real
codec, every single op in a freshly exec'ed process and every load permutation in a fresh process; TLC validates the
recorded trace against the automaton (PurityTV) and asserts that the domain was replayed completely (PurityDomain).
MC_Purity model-checks the automaton itself.  Python only maps rejected events to signatures."""
import concurrent.futures as cf
import os

from vf import build, recs, tlc


def run(ctx):
    ctx.level = "exploration"
    wd = recs.workdir("C12")
    p = lambda n: os.path.join(wd, n)
    # 1. the domain, emitted by TLC
    gen = tlc.run("PurityGen", "PurityGen.cfg", workers=2, heap="8g", timeout=1500, tag="C12-gen",
                  env={"VF_TIER": ctx.tier, "VF_OPS": p("ops.ndjson"), "VF_HIST": p("hist.ndjson"), "VF_LOADS": p("loads.ndjson")})
    g = [v for v in gen["vf"] if len(v) >= 5 and v[1] == "GEN"]
    if not g:
        raise tlc.TlcFailure("PurityGen did not announce the domain:\n" + gen["out"][-2000:])
    nops, nhist, nloads = g[0][2], g[0][3], g[0][4]
    ctx.log("TLC generated %d ops, %d histories, %d load permutations in %.1fs" % (nops, nhist, nloads, gen["wall_s"]))
    # 2. the automaton itself (no code involved)
    mc = tlc.run("MC_Purity", "MC_Purity.cfg", workers=2, timeout=300, tag="C12-mc")
    if mc["violated"]:
        raise tlc.TlcFailure("MC_Purity: design lemma violated: %s" % mc["violated"])
    # 3. replay on the real code
    exe = build.build("c12_purity", ["c12_purity.cpp"], ["ebus", "utils"])
    recs.run_harness(ctx, exe, ["fresh", p("ops.ndjson"), p("fresh.ndjson")])
    recs.run_harness(ctx, exe, ["tree", p("ops.ndjson"), p("hist.ndjson"), p("tree.ndjson"), 12], timeout=3000)
    recs.run_harness(ctx, exe, ["load", p("loads.ndjson"), p("loadrecs.ndjson")])
    ops = {o["id"]: o for o in recs.read_ndjson(p("ops.ndjson"))}
    tree = recs.read_ndjson(p("tree.ndjson"))
    loads = recs.read_ndjson(p("loadrecs.ndjson"))
    loadcases = [c for c in recs.read_ndjson(p("loads.ndjson")) if c["k"] == "load"]
    tags = {c["set"]: c["tag"] for c in loadcases}
    broken = [r for r in loads if r["res"]["trc"] != 0 or r["res"]["lrc"] != 0 or any(pr["rc"] == -99 for pr in r["res"]["probes"])]
    if broken:   # the load sets of Purity.tla consist of valid, independent lines: anything else is a broken test, not a verdict
        raise RuntimeError("load set %s does not load completely: %s" % (broken[0]["set"], str(broken[0]["res"])[:300]))
    # 4. domain completeness, judged by TLC on all records
    dom = tlc.run("PurityDomain", "PurityDomain.cfg", workers=2, heap="8g", timeout=1500, tag="C12-dom",
                  env={"VF_TIER": ctx.tier, "VF_HISTRECS": p("tree.ndjson"), "VF_LOADRECS": p("loadrecs.ndjson")})
    d = [v for v in dom["vf"] if v[1] == "DOMAIN"]
    if not d or d[0][2] != nhist or d[0][3] != nloads:
        raise tlc.TlcFailure("domain completeness failed: %s (expected %d histories, %d loads)" % (d, nhist, nloads))
    # 5. trace validation (shards: fresh results seed the memo of every shard)
    with open(p("events.ndjson"), "w") as f:
        for name in ("loadrecs.ndjson", "tree.ndjson"):
            with open(p(name)) as g2:
                f.write(g2.read())
    events = loads + tree
    shards = recs.split_file(p("events.ndjson"), 60000)

    def validate(k):
        return tlc.run("PurityTV", "PurityTV.cfg", workers=2, heap="6g", timeout=1500, cont=True, tag="C12-tv%d" % k,
                       env={"VF_FRESH": p("fresh.ndjson"), "VF_RECS": shards[k]})

    states = 0
    bad = []
    base = 0
    with cf.ThreadPoolExecutor(max_workers=4) as ex:
        for k, res in enumerate(ex.map(validate, range(len(shards)))):
            if res["violated"]:
                raise tlc.TlcFailure("PurityTV: unexpected violation %s" % res["violated"])
            sh = [v for v in res["vf"] if v[1] == "SHARD"]
            n = sum(1 for _ in open(shards[k]))
            if not sh or sh[0][2] != n or res["distinct"] != n + nops + 1:
                raise tlc.TlcFailure("PurityTV shard %d: validated %s states for %d events" % (k, res["distinct"], n))
            states += res["distinct"]
            for v in res["vf"]:
                if v[1] == "BAD":
                    if v[2] <= 0:
                        raise tlc.TlcFailure("fresh-process results are inconsistent: %s" % v)
                    bad.append(base + v[2] - 1)
            base += n
    fresh = {r["op"]: r for r in recs.read_ndjson(p("fresh.ndjson"))}
    badhist = {tuple(events[i]["h"]) for i in bad if events[i]["src"] == "hist"}

    def show(o):
        op = ops[o]
        s = "%s %s" % (op["act"], bytes(op["def"]).decode())
        if op["tpl"]:
            s += " [template %s]" % bytes(op["tpl"][1]).decode()
        if op["act"] == "enc":
            s += " text %r" % bytes(op["t"]).decode()
        elif op["act"] == "dec":
            s += " bytes %s" % bytes(op["b"]).hex()
        return s

    def showres(r):
        return "trc=%s crc=%s rc=%s out=%r" % (r["trc"], r["crc"], r["rc"], bytes(r["out"]).decode("latin1"))

    for i in bad:
        e = events[i]
        if e["src"] == "load":
            key = "C12:load-order:%s" % tags[e["set"]]
            ref = next(x for x in loads if x["set"] == e["set"])
            diff = [k for k, (a, b) in enumerate(zip(ref["res"]["probes"], e["res"]["probes"])) if a != b]
            ctx.violation(key, "load order %s of set %d gives other results than order %s (probe lines %s differ, dump %s)" % (
                e["perm"], e["set"], ref["perm"], [k + 1 for k in diff], "differs" if ref["res"]["dump"] != e["res"]["dump"] else "equal"),
                {"set": e["set"], "tag": tags[e["set"]], "perm": e["perm"], "reference_perm": ref["perm"],
                 "lines": [bytes(l).decode() for l in loadcases[0]["lines"]] if False else
                 [bytes(l).decode() for l in next(c for c in loadcases if c["set"] == e["set"])["lines"]],
                 "probes": e["res"]["probes"], "reference_probes": ref["res"]["probes"]})
            continue
        h = e["h"]
        probe = h[-1]
        # minimal culprit: the last earlier op c for which the two-step history <<c, probe>> is rejected as well
        culprit = None
        for c in reversed(h[:-1]):
            if (c, probe) in badhist:
                culprit = [c]
                break
        if culprit is None:
            culprit = h[:-1]
        key = "C12:%s:after:%s" % (ops[probe]["cls"], "+".join(ops[c]["cls"] for c in culprit))
        ctx.violation(key, "%s returns (%s) in a fresh process but (%s) after [%s]" % (
            show(probe), showres(fresh[probe]["res"]), showres(e["res"]), "; ".join(show(c) for c in culprit)),
            {"history": [show(c) for c in (culprit + [probe])], "history_ids": culprit + [probe], "fresh": fresh[probe]["res"], "after": e["res"]})
    deep = max(tree, key=lambda r: (len(r["h"]), tuple(r["h"]) in badhist))     # a longest history (a rejected one if there is any)
    nontrivial = sum(1 for r in tree if len(r["h"]) >= 2) + sum(1 for r in loads if r["perm"] != sorted(r["perm"]))
    ctx.coverage = {
        "evaluations": len(events) + len(fresh), "distinct_nontrivial": nontrivial,
        "rule": "one event per history (distinct by construction: PurityDomain asserts the set of replayed histories equals "
                "Purity!Histories) and per load permutation; non-trivial = history with at least one earlier operation, or a "
                "non-identity permutation",
        "samples": [{"history": [show(c) for c in deep["h"]], "result_of_last_op": deep["res"]},
                    {"load_set": loads[1]["set"], "perm": loads[1]["perm"], "probes": loads[1]["res"]["probes"]}],
        "ops": nops, "histories": nhist, "max_history_length": max(len(r["h"]) for r in tree), "load_permutations": nloads,
        "fresh_process_runs": len(fresh), "events_rejected": len(bad),
        "states": states, "transitions": states - len(shards), "traces_validated_against_impl": len(events),
        "tlc_generation_s": gen["wall_s"], "mc_purity_states": mc["distinct"],
    }
    ctx.assumptions = ["TLC evaluates the TLA+ definitions correctly", "harness logs what the codec returned and preserves errno "
                       "around its own I/O", "fork() preserves the process state a long-running thread would carry from one request "
                       "to the next (errno, derived-type cache, stream format flags)",
                       "the op alphabet touches the hidden state named by the property (C library error indicator, derived-type "
                       "cache, shared stream flags); other hidden state would need further ops",
                       "dump listings are compared as sorted line sets (the property is about codec results, not listing order)"]
