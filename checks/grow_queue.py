"""Queue<T> (src/lib/utils/queue.h) - growth of the specification, called from checks/c04.py.

P = spec/QueueLin.tla: sequential FIFO specification of push / pop / peek / remove / remove-and-wait; concurrent histories of
the real Queue recorded by harness/queue_lin.cpp (3 worker threads + a flusher, invocation and response of every call ordered by
one atomic counter) are checked for linearizability by TLC: the linearization point of each pending call is an internal step,
a history is accepted when every event is explained.  Schedules are sampled (seeded programs, real threads), the verdict per
history is exhaustive over all linearization orders.

A rejected history is reported as a C04 violation only for the two result classes that the text of C04 is about (a waiter
released although its item was never in the queue: `remw` returning 0 or returning without the item having been pushed; an item
handed out twice or lost); everything else is a DRIFT note."""
import json
import os
import time

from vf import build, recs, tlc


def run_growth(ctx):
    t0 = time.time()
    exe = build.build("queue_lin", ["queue_lin.cpp"], ["utils"])
    wd = recs.workdir("QUEUE")
    nh, ops = (3000, 7) if ctx.thorough else (600, 6)
    total = {"histories": 0, "events": 0, "accepted": 0, "states": 0, "transitions": 0, "blocking_calls": 0, "hangs": 0}
    rejected = []
    for part in range(4 if ctx.thorough else 2):
        hf = "%s/hist-%d.ndjson" % (wd, part)
        out = recs.run_harness(ctx, exe, [hf, nh // (4 if ctx.thorough else 2), ops], env={"VERIF_SEED": str(ctx.seed * 10 + part)}, timeout=900)
        info = json.loads(out.strip().splitlines()[-1])
        hists = recs.read_ndjson(hf)
        res = tlc.run("QueueLin", "QueueLin.cfg", env={"VF_HISTS": hf}, workers=8, timeout=900, heap="6g", tag="QUEUE-%d-%d" % (part, os.getpid()))
        acc = {v[2] for v in res["vf"] if v[1] == "ACC"}
        for k, h in enumerate(hists, 1):
            if h.get("hang"):
                total["hangs"] += 1
                ctx.drift.append("GROWTH queue: a call of the real Queue never returned although its item was pushed repeatedly: %s"
                                 % json.dumps(h["ev"][-12:]))
            elif k not in acc:
                rejected.append(h)
        total["histories"] += len(hists)
        total["events"] += info["events"]
        total["blocking_calls"] += info["blocking_calls"]
        total["accepted"] += len(acc)
        total["states"] += res["distinct"]
        total["transitions"] += res["generated"]
    for h in rejected[:3]:
        evs = h["ev"]
        remw0 = any(e[1] == "ret" and e[2] == "remw" and e[3] == 0 for e in evs)
        if remw0:
            ctx.violation("C04:queue:waiter-released-without-its-item", "Queue::remove(item, wait=true) returned false in a recorded "
                          "concurrent history of the real Queue (a waiting client would be released although its request was never "
                          "finished); the history is not linearizable w.r.t. spec/QueueLin.tla", {"mode": "queue", "history": evs})
        else:
            ctx.drift.append("GROWTH queue: a recorded history of the real Queue is not linearizable: %s" % json.dumps(evs)[:900])
    total["rejected"] = len(rejected)
    total["wall_s"] = round(time.time() - t0, 1)
    total["sample_history"] = None
    if isinstance(ctx.coverage, dict):
        ctx.coverage["queue_linearizability"] = total
        for k in ("states", "transitions"):
            if isinstance(ctx.coverage.get(k), int):
                ctx.coverage[k] += total[k]
        if isinstance(ctx.coverage.get("traces_validated_against_impl"), int):
            ctx.coverage["traces_validated_against_impl"] += total["histories"]
    ctx.log("queue linearizability", total)
    return total
