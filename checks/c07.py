"""C07 - writes are range-safe: a value is never wrapped, truncated or silently changed.
P = spec/WriteSafe.tla (digit-sequence arithmetic, module BigDec).  TLC generates the input domain (C07Gen: all numeric
base types x divisors x ranges x value lists, crossed with boundary texts around min/max/2^k and malformed spellings),
harness/c07_writesafe.cpp replays every case on the real DataField::create / write / read, TLC judges every record
(C07Judge).  Python only labels the rejected records with a signature (type class : kind of corruption)."""
import concurrent.futures as cf
import os
import re
from fractions import Fraction

from vf import build, recs, tlc

NUM_RE = re.compile(r"^[ \t]*([+-]?)(?:0[xX]([0-9a-fA-F]+)|((?:\d+\.?\d*|\.\d+))(?:[eE]([+-]?\d+))?)[ \t]*$")


def text_value(t):
    """exact value of a well-formed text (decimal reading), None if malformed; labelling only - TLC is the judge."""
    m = NUM_RE.match(t)
    if not m:
        return None
    sign, hx, mant, ex = m.groups()
    if hx is not None:
        v = Fraction(int(hx, 16))
    else:
        e = int(ex) if ex else 0
        if abs(e) > 2000:
            return None
        v = Fraction(mant if mant[-1] != "." else mant + "0") * Fraction(10) ** e
    return -v if sign == "-" else v


def type_class(d):
    """call-site class: value list / IEEE float / integer types by sign and divisor kind (BCD, HCD and bit types are
    parsed by the same code as the unsigned binary types; a configured range does not change the parsing path)."""
    if d["vals"]:
        return "list"
    div = "div1" if d["div"] == 1 else ("div" if d["div"] > 1 else "mul")
    if d["kind"] == "exp":
        return "float-" + div
    return ("signed-" if d["kind"] == "s" else "unsigned-") + div


def raw_of(d, b):
    """raw integer carried by the bytes (labelling only)."""
    if not b:
        return None
    msb = list(b) if d["rev"] else list(reversed(b))
    if d["kind"] in ("u", "s"):
        u = 0
        for x in msb:
            u = u * 256 + x
        if d["kind"] == "s" and u >= 1 << (d["bits"] - 1):
            u -= 1 << d["bits"]
        return u
    if d["kind"] == "bcd":
        u = 0
        for x in msb:
            u = u * 100 + (x >> 4) * 10 + (x & 15)
        return u
    if d["kind"] == "hcd":
        u = 0
        for x in msb:
            u = u * 100 + x
        return u
    if d["kind"] == "bit":
        return b[0] >> d["fb"]
    return None


def wrap_kind(d, rec, why):
    t = bytes(rec["t"]).decode("latin1")
    ts = t.strip(" \t")
    if why == "malformed":
        if re.match(r"^[+-]?\d+\.", ts):
            return "garbage-after-dot"
        if ts.lower().lstrip("+-") in ("nan", "inf", "infinity") or ts.lower().startswith("nan") or "nan" in ts.lower():
            return "nan-inf-accepted"
        if "inf" in ts.lower():
            return "nan-inf-accepted"
        return "malformed-accepted"
    if why == "null":
        return "null-written-as-value"
    if why in ("replacement", "decode", "name", "not-in-list", "length", "invalid-bcd", "cfg-range"):
        return why
    v = text_value(t)
    raw = raw_of(d, rec["b"])
    if v is not None and raw is not None:
        mul = -d["div"] if d["div"] < 0 else 1
        dv = d["div"] if d["div"] > 0 else 1
        want = v * dv / mul                      # requested raw value
        m = re.match(r"^[+-]?(\d+)\.\d*[eE][+-]?\d+$", ts)
        if m and (int(m.group(1)) * (-1 if ts[0] == "-" else 1) - raw) % (1 << min(32, d["bits"] if d["kind"] in "us" else 32)) == 0:
            return "exponent-ignored"            # only the digits before the '.' were used
        body = ts.lstrip("+-")
        mo = re.match(r"^(0[0-7]+)(\.\d*)?([eE][+-]?\d+)?$", body)
        if mo and (int(mo.group(1), 8) * (-1 if ts[0] == "-" else 1) - raw) % (1 << 32) == 0:
            return "leading-zero-octal"
        diff = Fraction(raw) - want
        if d["vals"] and raw < 0:
            diff += 1 << d["bits"]
        for width in (32, d["bits"]):
            q = round(diff / (1 << width))
            if q != 0 and abs(diff - q * (1 << width)) <= 1:     # a multiple of 2^width away (+- one step)
                if width == 32:
                    return "mod-2^64" if q % (1 << 32) == 0 else "mod-2^32"
                if d["kind"] in ("u", "s"):
                    return "mod-2^%d" % width
        if d["kind"] in ("bcd", "hcd") and diff.denominator == 1 and diff != 0 and int(diff) % (10 ** (d["bits"] // 4)) == 0:
            return "mod-10^%d" % (d["bits"] // 4)
        if why == "range":
            return "out-of-range"
        return "value-changed"
    return why if why != "step" else "value-changed"


def run(ctx):
    ctx.level = "exploration"
    wd = recs.workdir("C07")
    cases = os.path.join(wd, "cases.ndjson")
    rf = os.path.join(wd, "recs.ndjson")
    gen = tlc.run("C07Gen", "C07Gen.cfg", env={"VF_TIER": ctx.tier, "VERIF_SEED": ctx.seed, "VF_CASES": cases},
                  workers=2, heap="6g", timeout=1200, tag="C07-gen")
    g = [v for v in gen["vf"] if len(v) >= 4 and v[1] == "GEN"]
    if not g:
        raise tlc.TlcFailure("C07Gen did not announce the domain:\n" + gen["out"][-2000:])
    ndefs, ncases = g[0][2], g[0][3]
    ctx.log("TLC generated %d definitions, %d cases in %.1fs" % (ndefs, ncases, gen["wall_s"]))
    exe = build.build("c07_writesafe", ["c07_writesafe.cpp"], ["ebus", "utils"])
    recs.run_harness(ctx, exe, [cases, rf])
    allc = recs.read_ndjson(cases)
    defs = {c["d"]: c for c in allc if c["k"] == "def"}
    rr = recs.read_ndjson(rf)
    if len(rr) != ncases:
        raise RuntimeError("harness wrote %d records for %d cases" % (len(rr), ncases))
    shards = recs.split_file(rf, 60000)
    jobs = []
    first = 0
    for sp in shards:
        n = sum(1 for _ in open(sp))
        jobs.append((sp, first, n))
        first += n

    def judge(job):
        sp, first, n = job
        return job, recs.judge(ctx, "C07Judge", "C07Judge.cfg", sp, workers=4 if len(jobs) > 1 else 8, heap="6g", timeout=1500,
                               env={"VF_CASES": cases, "VF_FIRST": first, "VF_NDEFS": ndefs}, tag="C07-j%d" % first)

    states = covered = 0
    by_sig = {}
    with cf.ThreadPoolExecutor(max_workers=3) as ex:
        for (sp, first, n), (res, bad) in ex.map(judge, jobs):
            states += res["distinct"]
            sh = [v for v in res["vf"] if v[1] == "SHARD"]
            if [v for v in res["vf"] if v[1] == "INCOMPLETE"] or not sh or sh[0][2] != first or sh[0][3] != n or sh[0][4] != ncases:
                raise tlc.TlcFailure("domain completeness check failed for shard %s: %s" % (sp, sh))
            covered += n
            for idx, sig in bad:
                r = rr[sig[0]]
                c = defs[r["d"]]
                d = dict(c, dvs=bytes(c["dvs"]).decode(), rg=bytes(c["rg"]).decode(), lo=bool(c["rg"]), vals=c["nvals"] > 0)
                key = "C07:%s:%s" % (type_class(d), wrap_kind(d, r, sig[1]))
                what = "%s%s%s%s text %r accepted with bytes %s (decodes to %r): oracle clause '%s'" % (
                    d["ty"], (":%d" % d["len"]) if d["len"] else "", ("," + d["dvs"]) if d["dvs"] else "", (" range " + d["rg"]) if d["rg"] else "",
                    bytes(r["t"]).decode("latin1"), bytes(r["b"]).hex(), bytes(r["dt"]).decode("latin1"), sig[1])
                by_sig[key] = by_sig.get(key, 0) + 1
                ctx.violation(key, what, {"definition": "x,,%s%s,%s,%s" % (d["ty"], (":%d" % d["len"]) if d["len"] else "", d["dvs"], d["rg"]),
                                          "text": bytes(r["t"]).decode("latin1"), "rc": r["rc"], "bytes": r["b"],
                                          "decoded": bytes(r["dt"]).decode("latin1"), "clause": sig[1]})
    if covered != ncases:
        raise tlc.TlcFailure("shards cover %d of %d cases" % (covered, ncases))
    accepted = sum(1 for r in rr if r["rc"] == 0)
    distinct = len({(r["d"], bytes(r["t"])) for r in rr})
    samples = []
    for want in ("4294967297", "-32768.5", "0x7f", "nan"):
        for r in rr:
            if bytes(r["t"]).decode("latin1") == want:
                samples.append({"definition": defs[r["d"]]["ty"], "text": want, "rc": r["rc"], "bytes": r["b"]})
                break
    ctx.coverage = {
        "evaluations": len(rr), "distinct_nontrivial": distinct - sum(1 for r in rr if not r["t"]),
        "rule": "one record per (definition, text) pair generated by TLC from WriteSafe!TextsOf: distinct by construction "
                "(set of pairs); non-trivial = non-empty text. Every pair is replayed on the real DataField::create/write/read and "
                "judged by TLC; C07Judge asserts that the records are exactly the generated cases (domain completeness)",
        "samples": samples, "definitions": ndefs, "accepted_by_code": accepted, "rejected_by_code": len(rr) - accepted,
        "oracle_rejections_by_signature": by_sig, "tlc_states": states, "tlc_generation_s": gen["wall_s"],
        "tlc_lemmas": ["BigDecLemmas (digit-sequence arithmetic vs machine integers, 2^64, 2^32-1)",
                       "WriteSafeLemmas (grammar, decimal rendering, raw decoding, oracle accepts good / rejects classical wraps)"],
    }
    ctx.assumptions = ["TLC evaluates the TLA+ definitions correctly", "harness logs what the field code returned",
                       "type ranges/replacement values in WriteSafe!BaseTypes follow the documentation comments of the type list",
                       "errno is cleared before every case (history effects are C12's subject)",
                       "IEEE-754 types: one step = one unit in the last place of the stored binary32 value; no range demanded beyond finiteness",
                       "texts with binary exponent (0x1p3) or hexadecimal fractions are outside the property's grammar and not generated"]
