"""C18 - client requests are parsed to exactly what the client encoded.
P = spec/ReqParse.tla: (a) the reading rule for TCP command lines and the set of client encodings of an argument list,
(b) percent-decoding exactly once + confinement of served files to the HTML root (model file system defined in the spec),
(c) topic template formatting and its inverse.  spec/C18Gen.tla emits the cases (argument lists with all encodings, token
level URIs, templates, the model file system); harness/c18_reqparse.cpp replays them on RequestImpl::add/split,
MainLoop::decodeRequest->executeGet (in-process daemon, temporary HTML root) and StringReplacer, and enumerates all URIs up to
the length bound natively; spec/C18Judge.tla judges every record and asserts domain completeness per family."""
import json
import os
import shutil

from vf import build, recs, tlc

FAMILIES = ["tcp", "httptok", "httprand", "httpchar", "tpl"]


def _s(codes):
    return bytes(codes).decode("latin1")


def _key_and_what(r, sig):
    if r["k"] == "tcp":
        k = sig[1] if isinstance(sig, list) and len(sig) > 1 and isinstance(sig[1], int) else 0
        line = _s(r["lines"][k - 1]) if 0 < k <= len(r["lines"]) else ""
        out = [_s(a) for a in r["outs"][k - 1]] if 0 < k <= len(r["outs"]) else None
        words = [w for w in line.split(" ") if w]
        cls = "quoted-argument" if any(w[0] in "\"'" for w in words) else "blank-separated"
        return ("C18:tcp-split:" + cls, "line %r encodes %r but was split into %r" % (line, [_s(a) for a in r["args"]], out),
                {"line": line, "args": [_s(a) for a in r["args"]], "got": out,
                 "case": {"k": "tcp", "args": r["args"], "lines": [r["lines"][k - 1]] if 0 < k <= len(r["lines"]) else r["lines"]}})
    if r["k"] == "http":
        v = sig[1] if isinstance(sig, list) and len(sig) > 1 else "?"
        return ("C18:http:" + str(v), "GET %r -> lookup argument %r, status %d, body %r" %
                (_s(r["u"]), _s(r["p"]), r["st"], _s(r["body"])),
                {"request": "GET %s HTTP/1.1" % _s(r["u"]), "path_arg": _s(r["p"]), "status": r["st"], "body": _s(r["body"]),
                 "case": {"k": "uri", "u": r["u"]}})
    v = sig[1] if isinstance(sig, list) and len(sig) > 1 else []
    v = "+".join(sorted(v)) if isinstance(v, list) else str(v)
    return ("C18:mqtt:" + v, "topic template %r (effective %r): format/match round trip broken" % (_s(r["text"]), _s(r["eff"])),
            {"template": _s(r["text"]), "effective": _s(r["eff"]),
             "first": r["res"][0] if r["res"] else None,
             "case": {"k": "tpl", "parts": r["parts"], "texts": [r["text"]]}})


def _size(r):
    return len(r.get("u", [])) + len(r.get("text", [])) + sum(len(l) for l in r.get("lines", [])[:1]) + len(r.get("args", []))


def _replay(ctx, wd, cases):
    """re-judge the single case of a replay file: same generator (model file system), harness and judge"""
    with open(ctx.replay_path) as f:
        case = json.load(f)["replay"]["case"]
    tlc.run("C18Gen", "C18Gen.cfg", env={"VF_TIER": "quick", "VF_OUT": cases}, workers=4, heap="8g", timeout=600, tag="C18Gen")
    keep = [l for l in open(cases) if l.startswith('{"k":"fs"') or l.startswith('{"k":"ids"')]
    with open(cases, "w") as f:
        f.writelines(keep)
        f.write(json.dumps(case, separators=(",", ":")) + "\n")
    exe = build.build("c18_reqparse", ["c18_reqparse.cpp"], ["ebusd", "ebus", "utils", "knx"], libs=["-lmosquitto"])
    fs = os.path.join(wd, "fs")
    shutil.rmtree(fs, ignore_errors=True)
    os.makedirs(fs)
    recs.run_harness(ctx, exe, [cases, wd, "replay", fs])
    shutil.rmtree(fs, ignore_errors=True)
    n = 0
    for fam in ("tcp", "httptok", "tpl"):
        rf = os.path.join(wd, fam + ".ndjson")
        rr = recs.read_ndjson(rf)
        if not rr:
            continue
        res, bad = recs.judge(ctx, "C18Judge", "C18Judge.cfg", rf, workers=2, env={"VF_TIER": "quick", "VF_FAMILY": "replay"},
                              tag="C18-replay")
        n += len(rr)
        for idx, sig in bad:
            key, what, rep = _key_and_what(rr[idx - 1], sig)
            ctx.violation(key, what, rep)
    ctx.coverage = {"evaluations": n, "distinct_nontrivial": n, "rule": "replay of one recorded case", "samples": [case]}


def run(ctx):
    _run_main(ctx)
    if not ctx.replay_path:
        # growth: the client-connection layer (spec/NetHandoff*.tla): recorded histories of the real Network + MainLoop with real
        # TCP clients on loopback validated by TLC; S => P; notes only, no listed property
        try:
            from checks import grow_network
            ctx.coverage["growth_network"] = grow_network.run_growth(ctx)
        except Exception as e:   # a failing growth run is a machinery problem of the informing part only
            ctx.notes.append("network growth failed: %s" % str(e)[:300])
        # growth: payload of the `hex` command (spec/HexArgs.tla): what the tokens behind the split mean; notes only
        try:
            from checks import grow_hexargs
            ctx.coverage["growth_hexargs"] = grow_hexargs.run_growth(ctx)
        except Exception as e:
            ctx.notes.append("hex payload growth failed: %s" % str(e)[:300])


def _run_main(ctx):
    ctx.level = "exploration"
    wd = recs.workdir("C18")
    cases = os.path.join(wd, "cases.ndjson")
    if ctx.replay_path:
        return _replay(ctx, wd, cases)
    gen = tlc.run("C18Gen", "C18Gen.cfg", env={"VF_TIER": ctx.tier, "VF_OUT": cases}, workers=4, heap="8g",
                  timeout=600, tag="C18Gen")
    g = [v for v in gen["vf"] if len(v) > 1 and v[1] == "GEN"]
    if not g:
        raise tlc.TlcFailure("C18Gen wrote no cases:\n" + gen["out"][-2000:])
    ctx.log("cases generated by TLC (fs files, arg lists, token URIs, templates):", g[0][2:], "in %.1fs" % gen["wall_s"])
    exe = build.build("c18_reqparse", ["c18_reqparse.cpp"], ["ebusd", "ebus", "utils", "knx"], libs=["-lmosquitto"])
    fs = os.path.join(wd, "fs")
    shutil.rmtree(fs, ignore_errors=True)
    os.makedirs(fs)
    out = recs.run_harness(ctx, exe, [cases, wd, ctx.tier, fs])
    hstat = json.loads(out.strip().splitlines()[-1])
    shutil.rmtree(fs, ignore_errors=True)
    fam_counts, states, samples = {}, 0, []
    nontrivial = 0
    drift_mok = 0
    for fam in FAMILIES:
        rf = os.path.join(wd, fam + ".ndjson")
        rr = recs.read_ndjson(rf)
        res, bad = recs.judge(ctx, "C18Judge", "C18Judge.cfg", rf, workers=8, heap="12g", timeout=1500,
                              env={"VF_TIER": ctx.tier, "VF_FAMILY": fam}, tag="C18-" + fam)
        dom = [v for v in res["vf"] if len(v) > 3 and v[1] == "DOMAIN"]
        if not dom or dom[0][3] != len(rr):
            raise tlc.TlcFailure("C18Judge %s: domain line missing or wrong record count" % fam)
        states += res["distinct"]
        ctx.log("%s: %d records judged in %.1fs, %d rejected" % (fam, len(rr), res["wall_s"], len(bad)))
        for idx, sig in sorted(bad, key=lambda b: (_size(rr[b[0] - 1]), b[0])):   # smallest witness first
            r = rr[idx - 1]
            key, what, rep = _key_and_what(r, sig)
            ctx.violation(key, what, rep)
        # measured evidence
        if fam == "tcp":
            n = sum(len(r["lines"]) for r in rr)
            nontrivial += sum(1 for r in rr for l in r["lines"] if len(r["args"]) > 0)
            samples.append({"tcp_line": _s(rr[len(rr) // 2]["lines"][0]), "args": [_s(a) for a in rr[len(rr) // 2]["args"]],
                            "split": [_s(a) for a in rr[len(rr) // 2]["outs"][0]]})
        elif fam.startswith("http"):
            n = len(rr)
            nontrivial += sum(1 for r in rr if 37 in r["u"] or r["st"] == 200 or (46 in r["u"] and 47 in r["u"]))
            pick = [r for r in rr if r["st"] == 200 and 37 in r["u"]] or [r for r in rr if 37 in r["u"]] or rr
            r = pick[len(pick) // 2]
            samples.append({"http_uri": _s(r["u"]), "path_arg": _s(r["p"]), "status": r["st"], "body": _s(r["body"])})
        else:
            n = sum(6 * len(r["res"]) for r in rr)
            nontrivial += sum(6 * len(r["res"]) for r in rr if any(p[0] > 0 for p in r["parts"]))
            drift_mok += sum(1 for r in rr if r["pok"] == 1 and r["mok"] != 1)
            r = rr[len(rr) // 3]
            samples.append({"template": _s(r["text"]), "effective": _s(r["eff"]), "triple": [_s(x) for x in r["res"][5]["x"]],
                            "topic": _s(r["res"][5]["td"]), "matched_from_topic_plus_/get|/set|/list": [_s(x) for x in r["res"][5]["md"][0][1:]]})
        fam_counts[fam] = {"records": len(rr), "evaluations": n}
    if drift_mok:
        ctx.drift.append("checkMatchability() is false for %d templates the specification calls matchable "
                         "(only a log notice depends on it)" % drift_mok)
    evals = sum(f["evaluations"] for f in fam_counts.values())
    if evals != hstat["evaluations"]:
        raise RuntimeError("harness counted %d evaluations, records hold %d" % (hstat["evaluations"], evals))
    ctx.coverage = {
        "evaluations": evals, "distinct_nontrivial": nontrivial,
        "rule": "every evaluation has a distinct input by construction (distinct line / URI / (template text, triple, "
                "direction suffix, with/without default parts)); non-trivial = TCP lines with at least one argument, URIs "
                "that contain a '%' or both '.' and '/' or were served, template observations with at least one variable",
        "samples": samples, "exhaustive": True, "families": fam_counts, "tlc_states": states,
        "model_fs_files": hstat["fs_files"],
        "exhaustive_scope": "all families are complete enumerations of their bounded domain (asserted by TLC) except "
                            "httprand, which is a seeded sample of longer URIs",
        "tlc_lemmas": ["every argument <= 3 chars has an encoding", "RefSplit(ClientEncode(args)) = args",
                       "PctDecode is the identity without '%'", "%252e -> %2e (once)",
                       "matchable templates are unambiguous on the identifier domain"],
    }
    ctx.assumptions = [
        "TLC evaluates the TLA+ definitions correctly; the harness logs what the functions returned",
        "the MQTT part is bound at StringReplacer level with the call sequence of MqttHandler (parse(str,true,true), "
        "ensureDefault, get, rfind('/') + match); no MqttHandler object is instantiated",
        "HTTP: URIs of <= 4 tokens and <= 5 (quick) / 6 (thorough) characters exhaustively, longer ones (5-8 tokens) as a "
        "seeded random sample (VERIF_SEED); one request form ('GET <uri> HTTP/1.1' + Host header); in a path with a '%' that is not followed by two hex "
        "digits every character must arrive unchanged, only whether genuine escapes behind that '%' are still decoded is "
        "open; in the query part each genuine escape may be decoded or left, nothing else may change; a path with an encoded '/' need not be served",
        "TCP: argument lists of <= 2 arguments (length <= 3) exhaustively, triples over arguments of length <= 1 (quick) / "
        "<= 2 (thorough); unterminated quotes are unspecified",
    ]
