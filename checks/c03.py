"""C03 - ebusd transmits only when entitled.  P = TxMon (+ RecvMon/ReqMon as inputs) on the real handler's graph."""
from checks import proto_common as pc

QUICK = [
    ("arb-lock3", ["req=0:3115b50901a9", "submit=1", "qq=03", "zz=fe", "nn=0", "snn=1", "win=03,11,15", "buslost=2"]),
    ("readonly", ["req=0:3115b5090142", "submit=1", "qq=03", "zz=fe,15", "nn=0", "snn=0", "readonly=1"]),
    ("enh-arb", ["enhanced=1", "req=0:3115b5090100", "submit=1", "qq=03", "zz=fe", "nn=0", "snn=0", "win=03,11", "buslost=1", "echofaults=0"]),
    ("gensyn", ["gensyn=1", "req=0:31feb50900", "submit=1", "qq=03", "zz=fe", "nn=0", "snn=0", "win=03", "echofaults=0"]),
]
THOROUGH = QUICK


def run(ctx):
    pc.run_configs(ctx, "C03", "t", THOROUGH if ctx.thorough else QUICK)
