"""C03 - ebusd transmits only when entitled.  P = TxMon (+ RecvMon/ReqMon as inputs) on the real handler's graph."""
from checks import proto_common as pc

QUICK = [
    ("arb-lock3", ["req=0:3115b50901a9", "submit=1", "qq=03", "zz=fe", "nn=0", "snn=0", "win=03,11", "buslost=1"]),
    ("chunk2-arb", ["chunk2=1", "req=0:3115b5090100", "submit=1", "nn=0", "snn=0", "qq=03", "zz=fe", "win=03,11", "echofaults=0", "buslost=1"]),
    ("answer-and-request", ["answer=1", "ans=aa:36:b509:-:00", "req=0:31feb50900", "submit=1", "qq=03", "zz=36,fe", "nn=0", "snn=0", "win=03", "echofaults=0"]),
    ("readonly", ["req=0:3115b5090142", "submit=1", "qq=03", "zz=fe,15", "nn=0", "snn=0", "readonly=1"]),
    ("enh-arb", ["enhanced=1", "req=0:3115b5090100", "submit=1", "qq=03", "zz=fe", "nn=0", "snn=0", "win=03,11", "buslost=1", "echofaults=0"]),
    ("enh-err", ["enhanced=1", "enherr=1", "req=0:31feb50900", "submit=1", "qq=03", "zz=fe", "nn=0", "snn=0", "win=03", "buslost=0", "echofaults=0", "longto=0"]),
    ("readonly-gensyn", ["readonly=1", "gensyn=1", "req=0:31feb50900", "submit=1", "qq=03", "zz=fe", "nn=0", "snn=0"]),
    ("gensyn-werr", ["gensyn=1", "writeerr=1", "req=0:31feb50900", "submit=1", "qq=03", "zz=fe", "nn=0", "snn=0", "win=03", "echofaults=0"]),
    ("lock-auto", ["lock=0", "keyseen=1", "req=0:3115b5090100", "submit=1", "qq=03,71,10", "zz=fe", "nn=0", "snn=0", "win=03", "buslost=1",
                   "echofaults=0"]),
    ("gensyn", ["gensyn=1", "req=0:31feb50900", "submit=1", "qq=03", "zz=fe", "nn=0", "snn=0", "win=03", "echofaults=0"]),
]
THOROUGH = QUICK + [
    ("arb-lock3-full", ["req=0:3115b50901a9", "submit=1", "qq=03", "zz=fe", "nn=0", "snn=1", "win=03,11,15", "buslost=2", "maxnodes=1500000"]),
    ("arb-lock5", ["req=0:3115b50901a9", "submit=1", "qq=03", "zz=fe", "nn=0", "snn=1", "win=03,11,15", "buslost=2", "lock=5", "maxnodes=1500000"]),
    ("arb-submit-always", ["req=0:3115b5090100", "submit=2", "qq=03", "zz=fe,15", "nn=0", "snn=0", "win=03,11", "buslost=1", "echofaults=0", "maxnodes=1500000"]),
]


def run(ctx):
    if getattr(ctx, "replay_path", None):
        return pc.replay(ctx, "C03", "t")
    n = 400000 if ctx.thorough else 40000
    rnd = [("rnd-plain", n, ["req=0:3115b50900", "req=1:3115b50900", "buslost=1", "lock=5"]),
           ("rnd-enh", n, ["enhanced=1", "req=0:3115b50900", "buslost=1"])]
    pc.run_configs(ctx, "C03", "t", THOROUGH if ctx.thorough else QUICK, random_runs=rnd,
                   spec_fidelity=[("S:chunk2-arb", ["chunk2=1", "req=0:3115b5090100", "submit=1", "nn=0", "snn=0", "qq=03", "zz=fe", "win=03,11", "echofaults=0", "buslost=1"], 8)])
