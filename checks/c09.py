"""C09 - building, storing and decoding a message agree, including chained messages.

P = spec/MsgStore.tla  Eff (defaults, ZZ lists, templates), Build, BuildPart/Parts, Join, DecodeText, MustReject and the
    part-arrival monitor (no combination unless all parts are present and within 15 s x parts; then exactly the join in
    definition order).
S = spec/MsgStore.tla  SSeen/SBuilt/SAnswer/SCombine (ChainedMessage per-part caches with update times, combineLastParts);
    spec/MsgStoreMC.tla: TLC explores all arrival orders of 3 parts x gaps {0,1,16,50 s} x seen/active flows (S => P) and
    three seeded defects S' that P must reject.
TLC (spec/C09Gen.tla) generates definition shapes x inputs x answers x arrival orders, harness/c09_store.cpp replays them
on real Message/ChainedMessage/MessageMap objects with a virtual clock, TLC (spec/C09Judge.tla) judges the traces."""
import glob
import json
import os
import shutil
import time
from concurrent.futures import ThreadPoolExecutor

from vf import build, recs, tlc

ANY = 170
MAXREC = 1500
NONTRIVIAL = 0
TEMPLATES = {("UCH", 1): "tu", ("HEX", 1): "th1", ("HEX", 2): "th2", ("HEX", 3): "th3"}


def hx(b):
    return "".join("%02x" % x for x in b)


def field_cols(k, f):
    ty = f["ty"]
    if f["tpl"]:
        t = TEMPLATES[(ty, f["n"])]
    elif ty == "UCH":
        t = "UCH"
    else:
        t = "%s:%d" % (ty, f["n"])
    return [f.get("nm") or "f%d" % k, f["part"], t, "", "", ""]


def render_lines(d):
    """abstract definition -> CSV lines (optional defaults line + definition line)"""
    lines = []
    dfl = d["dfl"]
    if dfl["on"]:
        zz = "" if dfl["zz"] == ANY else "%02x" % dfl["zz"]
        lines.append("*%s,,,,,%s,%s,%s" % (d["dir"], zz, hx(dfl["pbsb"]), hx(dfl["idp"])))
    ids = []
    for c in d["chain"]:
        ids.append(hx(c["id"]) + (":%d" % c["len"] if c["len"] >= 0 else ""))
    cols = [d["dir"], "c", "msg", "", "", ";".join("%02x" % z for z in d["zzs"]), hx(d["pbsb"]), ";".join(ids)]
    for k, f in enumerate(d["fields"]):
        cols += field_cols(k + 1, f)
    lines.append(",".join(cols))
    return lines


def render_input(d, mvals):
    """field input text for the master fields (IGN fields take no input)"""
    zzs = d["zzs"] or ([d["dfl"]["zz"]] if d["dfl"]["on"] and d["dfl"]["zz"] != ANY else [])
    master_dst = bool(zzs) and (zzs[0] == 254 or ((zzs[0] & 15) in (0, 1, 3, 7, 15) and (zzs[0] >> 4) in (0, 1, 3, 7, 15)))
    mf = [f for f in d["fields"] if master_dst or f["part"] == "m" or (f["part"] == "" and d["dir"] == "w")]
    toks = []
    for f, v in zip(mf, mvals):
        if f["ty"] == "IGN":
            continue
        toks.append(str(v[0]) if f["ty"] == "UCH" else " ".join("%02x" % b for b in v))
    return ";".join(toks) if toks else "-"


def render_op(d, op):
    o = op[0]
    if o == "M":
        return "M %d" % op[1]
    if o == "T":
        return "T %d" % op[1]
    if o == "B":
        return "B %d %02x %02x %s" % (op[1], op[2], op[3], render_input(d, op[4]))
    if o == "F":
        return "F %d" % op[1]
    if o == "S":
        return "S %s %s" % (hx(op[1]), hx(op[2]) if op[2] else "-")
    if o == "R":
        return "R %d %s" % (op[1], hx(op[2]) if op[2] else "-")
    if o == "D":
        return "D"
    if o == "Q":
        return "Q %s %d" % (op[1], op[2])
    raise ValueError(op)


def render_cases(src_files, out_txt):
    n = nops = 0
    global NONTRIVIAL, SELECTIONS
    NONTRIVIAL = 0
    SELECTIONS = 0
    with open(out_txt, "w") as out:
        for sf in src_files:
            with open(sf) as f:
                for line in f:
                    line = line.strip()
                    if not line:
                        continue
                    c = json.loads(line)
                    n += 1
                    out.write("C %d\nJ %s\n" % (n, line))
                    out.write("P tu,UCH\nP th1,HEX:1\nP th2,HEX:2\nP th3,HEX:3\n")
                    for l in render_lines(c["def"]):
                        out.write("L %s\n" % l)
                    for op in c["ops"]:
                        out.write(render_op(c["def"], op) + "\n")
                        nops += 1
                        if op[0] not in ("M", "T"):  # selections (Q) count: each is one real decodeLastData call
                            NONTRIVIAL += 1
                        if op[0] == "Q":
                            SELECTIONS += 1
                    out.write("E\n")
    return n, nops


def run(ctx):
    ctx.level = "model_checking"
    wd = recs.workdir("C09")
    gen = os.path.join(wd, "gen")
    shutil.rmtree(gen, ignore_errors=True)
    os.makedirs(gen)
    for f in glob.glob(os.path.join(wd, "recs*")) + glob.glob(os.path.join(wd, "cases*")):
        os.remove(f)
    exe = build.build("c09_store", ["c09_store.cpp"], ["ebus", "utils_noclock"])

    # 1. S => P on the chained cache: all arrival orders x gaps x flows; seeded defects must be rejected
    t0 = time.time()
    mc = tlc.run("MsgStoreMC", "MC_MsgStore_thorough.cfg" if ctx.thorough else "MC_MsgStore.cfg", workers=6, timeout=1500,
                 heap="8g", tag="C09-mc") if not ctx.replay_path else {"violated": [], "distinct": 0, "generated": 0}
    if mc["violated"]:
        ctx.drift.append("S model of the chained cache violates the part-arrival monitor: %s" % mc["violated"])
    vac = {}
    for m in (() if ctx.replay_path else (1, 2, 3)):
        r = tlc.run("MsgStoreMC", "MC_MsgStore_mut%d.cfg" % m, workers=2, timeout=600, heap="4g", tag="C09-mcmut%d" % m)
        vac[m] = r["violated"]
        if not r["violated"]:
            raise RuntimeError("vacuity control failed: seeded defect %d of the chained cache model is accepted by P" % m)
    ctx.log("S => P model checking: %d states, %d transitions (%.1fs); seeded defects rejected: %s" %
            (mc["distinct"], mc["generated"], time.time() - t0, vac))

    # 2. TLC-generated cases replayed on the real objects, judged by TLC
    t0 = time.time()
    if ctx.replay_path:      # re-run one recorded case instead of generating the domain
        with open(ctx.replay_path) as f:
            case = json.load(f)["replay"]["case"]
        with open(os.path.join(gen, "replay0.ndjson"), "w") as f:
            f.write(json.dumps(case, separators=(",", ":")) + "\n")
        g = {"vf": [["VF", "SHARD", "replay", 0, 1]]}
    else:
        g = tlc.run("C09Gen", "C09Gen.cfg", env={"VF_TIER": ctx.tier, "VF_OUT": gen}, workers=6, timeout=900, heap="8g", tag="C09-gen")
    shards = {}
    for v in g["vf"]:
        if len(v) >= 5 and v[1] == "SHARD":
            shards["%s%d" % (v[2], v[3])] = v[4]
    files = sorted(glob.glob(os.path.join(gen, "*.ndjson")))
    if not files or len(files) != len(shards):
        raise RuntimeError("generator wrote %d files for %d shards" % (len(files), len(shards)))
    cases_txt = os.path.join(wd, "cases.txt")
    ncase, nops = render_cases(files, cases_txt)
    if ncase != sum(shards.values()):
        raise RuntimeError("rendered %d cases, TLC reported %d" % (ncase, sum(shards.values())))
    ctx.log("TLC generated %d cases / %d operations in %d families (%.1fs)" % (ncase, nops, len(shards), time.time() - t0))
    rf = os.path.join(wd, "recs.ndjson")
    t1 = time.time()
    recs.run_harness(ctx, exe, [cases_txt, rf])
    parts = recs.split_file(rf, MAXREC)

    def judge_one(kp):
        k, p = kp
        return recs.judge(ctx, "C09Judge", "C09Judge.cfg", p, workers=2, heap="4g", tag="C09-j%d" % k, timeout=1700,
                          env={"JAVA_TOOL_OPTIONS": "-XX:ParallelGCThreads=2"})

    with ThreadPoolExecutor(max_workers=6) as ex:
        results = list(ex.map(judge_one, enumerate(parts)))
    ctx.log("harness + TLC judge of %d traces (%.1fs)" % (ncase, time.time() - t1))
    states = mc["distinct"]
    generated = mc["generated"]
    notes = {}
    nbad = 0
    witnesses = []
    for k, (res, _bad) in enumerate(results):
        states += res["distinct"]
        generated += res["generated"]
        rr = None
        badrecs = {}
        for v in res["vf"]:
            if len(v) >= 5 and v[1] == "NOTE":
                notes[v[4]] = notes.get(v[4], 0) + 1
            if len(v) >= 5 and v[1] == "BAD":
                badrecs.setdefault(v[2], []).append((v[3], v[4]))
        for idx, sig in sorted(badrecs.items()):
            if rr is None:
                rr = recs.read_ndjson(parts[k])
            r = rr[idx - 1]
            nbad += 1
            for kind, reason in sig:
                if kind == "M":
                    raise RuntimeError("malformed record %d in %s" % (idx, parts[k]))
                if kind == "S":
                    notes[reason] = notes.get(reason, 0) + 1
                elif kind == "P":
                    witnesses.append(((len(r["c"]["ops"]), len(json.dumps(r["c"]["def"]))), reason, r))
    for _size, reason, r in sorted(witnesses, key=lambda w: w[0]):      # smallest witness becomes the replay of its signature
        lines = render_lines(r["c"]["def"])
        ops = [render_op(r["c"]["def"], op) for op in r["c"]["ops"]]
        ctx.violation("C09:" + reason, "definition %s: %s (operations %s ...)" % (" | ".join(lines), reason, "; ".join(ops[:8])),
                      {"lines": lines, "ops": ops, "events": r["ev"], "load": r["load"], "case": r["c"]})
    for reason, cnt in sorted(notes.items()):
        if reason == "loadable-definition-rejected":
            ctx.notes.append("%d generated definitions within the length limit were rejected when loaded (not demanded by the property)" % cnt)
        else:
            ctx.drift.append("S model MsgStore differs from the code (%s) on %d traces; P decides" % (reason, cnt))
    first = recs.read_ndjson(parts[0])[:2]
    ctx.coverage = {
        "states": states, "transitions": generated, "traces_validated_against_impl": ncase,
        "evaluations": nops, "distinct_nontrivial": NONTRIVIAL,
        "rule": "one evaluation = one operation executed on real objects and checked by the TLC judge; traces are distinct TLC "
                "values (elements of sets); counted as non-trivial: prepareMaster, find, storeLastData and decodeLastData calls "
                "(message selection and clock steps are not counted)",
        "samples": [{"lines": render_lines(r["c"]["def"]), "ops": [render_op(r["c"]["def"], op) for op in r["c"]["ops"]][:10],
                     "events": r["ev"][:10]} for r in first],
        "cases": ncase, "operations": nops, "field_selections": SELECTIONS, "families": shards, "records_rejected": nbad,
        "mc_states": mc["distinct"], "mc_transitions": mc["generated"], "mc_violated": mc["violated"],
        "seeded_model_defects_rejected": {str(k): v for k, v in vac.items()}, "s_conforms": not ctx.drift,
    }
    ctx.assumptions = ["TLC evaluates the TLA+ definitions correctly", "harness logs what the real functions returned",
                       "checks/c09.py renders abstract definitions/inputs into the CSV lines and input texts they denote "
                       "(cross-checked by reading ids, destination and part lengths back from the loaded objects)",
                       "field types UCH, HEX:n, IGN:n only; supported maximum = MAX_POS = 24 data bytes; chain window 15 s x parts"]
