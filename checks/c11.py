"""C11 - CRC, escaping and address classes follow the eBUS specification.
P = spec/EbusSymbols.tla (polynomial division, escape automaton, nibble classes); TLC judges records of the real
functions written by harness/c11_symbols.cpp (all 65536 update steps, all 256 addresses, all escaped strings <= 2 ...)."""
from vf import build, recs


def run(ctx):
    ctx.level = "exploration"
    exe = build.build("c11_symbols", ["c11_symbols.cpp"], ["ebus", "utils"])
    wd = recs.workdir("C11")
    rf = wd + "/recs.ndjson"
    recs.run_harness(ctx, exe, [rf, ctx.tier])
    rr = recs.read_ndjson(rf)
    total = 0
    states = 0
    for k, sp in enumerate([rf]):
        # one file: the completeness ASSUMEs of C11Judge talk about whole families
        res, bad = recs.judge(ctx, "C11Judge", "C11Judge.cfg", sp, workers=8, tag="C11-%d" % k, heap="12g")
        states += res["distinct"]
        base = 0
        for idx, sig in bad:
            r = rr[base + idx - 1]
            f = r["f"]
            if f in ("pe", "ph"):
                key = "C11:%s:%s" % (f, "accepts-invalid" if r["rc"] == 0 else "rejects-or-alters-valid")
            else:
                key = "C11:" + f
            ctx.violation(key, "record rejected by EbusSymbols oracle: %s" % str(r)[:300], r)
        total += res["generated"]
    fam = {}
    for r in rr:
        fam[r["f"]] = fam.get(r["f"], 0) + 1
    evals = fam.get("upd", 0) * 256 + fam.get("calc2", 0) * 256 + sum(v for k, v in fam.items() if k not in ("upd", "calc2"))
    ctx.coverage = {
        "evaluations": evals, "distinct_nontrivial": evals - 1,
        "rule": "exhaustive: 256x256 updateCrc steps, 256 addresses x 7 functions, calcCrc on all strings <=2, "
                "parseHexEscaped on all byte strings <=2 and on length 3(4) over a 12(32)-value class alphabet, parseHex; "
                "seeded random: long strings rich in A9/AA. Every record is distinct by construction (distinct input); "
                "all but the empty string are non-trivial",
        "samples": [dict(rr[3], r=rr[3]["r"][:8] + ["...256 values"]), rr[256 + 0x31], next(r for r in rr if r["f"] == "pe" and r["in"] == [169, 1]),
                    next(r for r in rr if r["f"] == "calc" and len(r["in"]) > 3)],
        "exhaustive": True, "records_by_family": fam, "tlc_states": states,
        "tlc_lemmas": ["25 masters", "master number bijection onto 1..25", "+5 mapping injective, inverse",
                       "SYN/ESC never valid", "Unescape(Escape(s)) = s", "CRC fold induction step"],
    }
    ctx.assumptions = ["TLC evaluates the TLA+ definitions correctly", "harness logs what the functions returned",
                       "strings longer than the exhaustive bound are covered by the fold-induction lemma + random samples"]
