"""C05 - decoding yields the specified value for every built-in data type.
P = spec/Codec.tla (type table + value semantics in integer/sequence arithmetic).  harness/c05_decode.cpp creates the
definitions with the real DataField::create and decodes enumerated byte patterns with DataField::read ->
DataType::readSymbols; TLC (spec/C05Judge.tla) judges every record and the per-family domain-completeness claims,
spec/CodecIndex.tla the coverage of the type table across shards."""
from checks import codec_common as cc


def run(ctx):
    stats, samples, by_group = cc.run_codec_check(ctx, "C05", "c05", "C05Judge")
    ctx.coverage = {
        "evaluations": stats["records"],
        "distinct_nontrivial": stats["distinct"] - stats["open"],
        "rule": "one evaluation = one (definition, output format, byte pattern) decoded by the real code and judged by the "
                "TLA+ oracle; distinct = distinct byte patterns per family (type, length, divisor, value list, format, "
                "master/slave) as counted by the harness and re-counted by TLC; non-trivial = the oracle determines the "
                "outcome (value text(s), null, error); records whose outcome the property leaves open are subtracted",
        "samples": [cc.describe(r) for r in samples[:10]],
        "families": stats["fams"], "shards": stats["shards"], "open_outcomes": stats["open"],
        "tlc_states": stats["states"], "tlc_wall_s": round(stats["tlc_s"], 1), "groups": by_group,
        "exhaustive": False,      # exhaustive sub-domains are listed below; 3/4-byte types and strings are sampled
        "exhaustive_subdomains": ["all 256 patterns of every 1-byte type/bit range/TTx", "BDA: every day 2000-2099"] +
                      (["all 65536 patterns of every 2-byte type x divisor", "every date type: every day 2000-2099",
                        "DAY, MIN, BTM/HTM/VTM, TEM_P: all 65536", "BTI/HTI/VTI: all 86401 valid times"] if ctx.thorough else
                       ["MIN 0..1500", "2-byte types: stratified 4096(+boundaries) sample"]),
        "tlc_lemmas": ["YearStart closed form = sum of year lengths 1900..2200", "MonthStart = sum of month lengths",
                       "CivilFromDays/DaysFromCivil inverse on 0..73500", "anchors 01.01.2000 Sat, 01.01.2009, DAY 65535 = 06.06.2079"],
    }
    ctx.assumptions = [
        "TLC evaluates the TLA+ definitions correctly; the harness logs what DataField::read returned",
        "outside the oracle (DESIGN 6): text of IEEE-754 EXP/EXR values (only their replacement pattern is judged)",
        "left open as in the property text: day 29-31 beyond the month's length, DTM above 02da4e1f, rounding ties, "
        "24:00:00 for the three-byte times, partly replaced date/time/BCD patterns (error or a text with '-' accepted)",
        "3/4-byte types: boundary + seeded random patterns (sampling), divisors {1,10,-10}",
    ]
