"""Configuration loading - growth of the specification (no listed property of its own; called from checks/c19.py).

P = spec/ConfigLoad.tla: LoadTemplates / LoadMessages on the text of a template file and a message definition file (header
line, comments, default rows `*type`, field groups, templates, ZZ lists, identity of messages), written from the documented
CSV conventions; results are ok / rejected at a line / open (outside the documentation).
spec/ConfigLoadDomain.tla is a small grammar of files that TLC enumerates completely (spec/ConfigLoadGen.tla emits them);
harness/cfg_load.cpp loads each into a real DataFieldTemplates + MessageMap, reads back templates and messages, dumps,
reloads the dump and dumps again; spec/ConfigLoadJudge.tla judges every record and asserts the domain is complete.

What is reported how:
  * VIOLATION keys `C19:load:*` - only the round-trip clause, which is the text of C19: what was loaded dumps (default
    columns) to a definition set that reloads to the same messages and dumps to the same text.
  * everything else (the real loader accepts / rejects / builds something else than ConfigLoad says) has no listed
    property: it goes to ctx.drift ("DRIFT" lines, exit 0) and ctx.notes.

Stand-alone:  python3 checks/cfg_load.py [--tier quick|thorough] [--replay file.json]   (writes no evidence file; replay files
of the violations it prints go to .build/cfg_load-replay/)
"""
import json
import os
import sys
import time
from collections import Counter, OrderedDict

if __name__ == "__main__":
    _root = os.path.dirname(os.path.dirname(os.path.abspath(__file__)))
    sys.path.insert(0, os.path.join(_root, "lib"))
    sys.path.insert(0, _root)
    os.chdir(_root)

from vf import build, recs, tlc

FAMILIES = ["A_default_x_row_aspects", "O_order_of_appearance", "TT_template_files", "TU_template_usage", "P_parts",
            "H_headers_and_lines", "K_identity", "X_mixed"]
SHARD = 40000         # records per TLC run
BASE_DIV = {"D2C": 16}


def _s(codes):
    return bytes(codes).decode("latin1")


def _file_text(r):
    return {"templates": [_s(l) for l in r["tpl"]], "messages": [_s(l) for l in r["msg"]]}


def _fld(f):
    s = "%s/%s:%s len%d" % (_s(f["name"]), "ams"[f["part"]], _s(f["tid"]), f["len"])
    if f["kind"] == 1 and f["div"] not in (0, 1):
        s += " div%d" % f["div"]
    if f["kind"] == 2:
        s += " {" + ";".join("%d=%s" % (v[0], _s(v[1])) for v in f["vals"]) + "}" + (" div%d" % f["div"] if f["div"] not in (0, 1) else "")
    if f["kind"] == 3:
        s += " const" + ("==" if f["cver"] else "=") + _s(f["cval"])
    if f["unit"] or f["comment"]:
        s += " [%s|%s]" % (_s(f["unit"]), _s(f["comment"]))
    return s


def _msg(m):
    ty = ("u" + ("w" if m["w"] else "")) if m["p"] else ("w" if m["w"] else "r" + (str(m["prio"]) if m["prio"] else ""))
    ids = ";".join(bytes(i[0]).hex() + (":%d" % i[1] if i[1] >= 0 else "") for i in m["ids"])
    return "%s %s%s %s qq=%s zz=%s id=%s [%s]" % (ty, _s(m["circuit"]), "#" + _s(m["level"]) if m["level"] else "", _s(m["name"]),
                                                 "%02x" % m["qq"] if m["qq"] >= 0 else "-", "%02x" % m["zz"] if m["zz"] >= 0 else "-",
                                                 ids, ", ".join(_fld(f) for f in m["fields"]))


def _rt_class(r):
    """input class of a round-trip failure: named only when the loaded messages show the symptom of that class"""
    for m in r["M"]:
        for f in m["fields"]:
            if f["kind"] == 2 and f["div"] != BASE_DIV.get(_s(f["tid"]), 1):
                return "value-list-on-template-with-divisor"
    return "other"


def _describe(r, sig):
    v = sig[0] if isinstance(sig, list) and sig else "?"
    arg = sig[1] if isinstance(sig, list) and len(sig) > 1 else 0
    t = _file_text(r)
    where = "templates %r, messages %r" % (t["templates"], t["messages"])
    got_m = "; ".join(_msg(m) for m in r["M"])
    if v == "T-rejected":
        return "the template file is fine by ConfigLoad but was rejected at line %s (%s): %s" % (arg, r["err"], where)
    if v == "T-differs":
        got = "; ".join("%s -> %s" % (_s(x["key"]), ", ".join(_fld(f) for f in x["fields"])) for x in r["T"])
        return "the template table differs from LoadTemplates: loaded {%s}: %s" % (got, where)
    if v == "T-accepted":
        return "ConfigLoad rejects the template file at line %s but it was accepted: %s" % (arg, where)
    if v == "T-line":
        return "the template file is rejected at line %s instead of line %s (%s): %s" % (r["tln"], arg, r["err"], where)
    if v == "T-early":
        return "the template file is rejected at line %s, in front of the first line ConfigLoad leaves open (%s): %s" % (arg, r["err"], where)
    if v == "M-rejected":
        return "the message file is fine by ConfigLoad but was rejected at line %s (%s): %s" % (arg, r["err"], where)
    if v == "M-differs":
        return "the loaded messages differ from LoadMessages: loaded {%s}: %s" % (got_m, where)
    if v == "M-accepted":
        return "ConfigLoad rejects the message file at line %s but it was accepted with {%s}: %s" % (arg, got_m, where)
    if v == "M-line":
        return "the message file is rejected at line %s instead of line %s (%s): %s" % (r["mln"], arg, r["err"], where)
    if v == "M-early":
        return "the message file is rejected at line %s, in front of the first line ConfigLoad leaves open (%s): %s" % (arg, r["err"], where)
    if v == "RT-reload-rejected":
        return "loaded {%s}; the dump %r is rejected when loaded again (%s): %s" % (got_m, _s(r["d1"]), r["err"], where)
    if v == "RT-differs":
        return "loaded {%s}; the dump %r reloads to other messages {%s}: %s" % (got_m, _s(r["d1"]), "; ".join(_msg(m) for m in r["M2"]), where)
    if v == "RT-dump":
        return "the dump %r reloads to the same messages but dumps differently: %r: %s" % (_s(r["d1"]), _s(r["d2"]), where)
    return "%s: %s" % (sig, where)


def _size(r):
    return sum(len(l) for l in r["tpl"]) + sum(len(l) for l in r["msg"])


def _nontrivial(r):
    """a file is non-trivial when it has a template row, a default row, two or more definition rows, or an explicit header"""
    body = [l for l in r["msg"][1:] if l and l[0] != 35 and l[:2] != [47, 47]]
    return bool(r["tpl"]) or any(l[0] == 42 for l in body) or len(body) >= 2 or (bool(r["msg"]) and r["msg"][0][:1] not in ([35], [], [47]))


def _judge(ctx, rr, recfile, family, tag, report):
    """judge one record file; report(record, sig) for rejected records; returns (#records judged, #open, tlc states)"""
    res, bad = recs.judge(ctx, "ConfigLoadJudge", "ConfigLoadJudge.cfg", recfile, workers=8, heap="8g", timeout=900,
                          env={"VF_TIER": ctx.tier, "VF_FAMILY": family}, tag=tag)
    dom = [v for v in res["vf"] if len(v) > 3 and v[1] == "DOMAIN"]
    if not dom:
        raise tlc.TlcFailure("ConfigLoadJudge: domain line missing:\n" + res["out"][-2000:])
    opens = [v for v in res["vf"] if len(v) > 3 and v[1] == "OPEN"]
    for idx, sig in sorted(bad, key=lambda b: (_size(rr[b[0] - 1]), b[0])):       # smallest witness first
        report(rr[idx - 1], sig)
    return dom[0][3], opens, res


def _reporter(ctx, stats):
    def report(r, sig):
        v = sig[0] if isinstance(sig, list) and sig else "?"
        what = _describe(r, sig)
        stats["rejected"][v] += 1
        if v.startswith("RT-"):
            # the text of C19: a dumped definition set reloads to the same messages, dump after load is idempotent
            key = "C19:load:%s:%s" % (v[3:], _rt_class(r))
            ctx.violation(key, what, {"verdict": v, "files": _file_text(r), "dump": _s(r["d1"]), "errors": r["err"],
                                      "case": {"tpl": r["tpl"], "msg": r["msg"]}})
        else:
            # no listed property is about plain loading: specification drift, never a violation
            stats["drift"].setdefault(v, []).append(what)
    return report


def _finish_drift(ctx, stats):
    for v, whats in stats["drift"].items():
        text = "configuration loading differs from spec/ConfigLoad.tla (%s, %d files; not a listed property); smallest: %s" % (
            v, len(whats), whats[0][:1500])
        ctx.drift.append(text)
        ctx.notes.append("cfg_load " + text)


def _replay(ctx, wd):
    with open(ctx.replay_path) as f:
        rp = json.load(f)
    if not str(rp.get("key", "")).startswith("C19:load:"):
        return None                                  # a replay file of another part of C19
    case = rp["replay"]["case"]
    cases = os.path.join(wd, "cases.ndjson")
    with open(cases, "w") as f:
        f.write(json.dumps(case, separators=(",", ":")) + "\n")
    exe = build.build("cfg_load", ["cfg_load.cpp"], ["ebus", "utils"])
    rf = os.path.join(wd, "recs.ndjson")
    recs.run_harness(ctx, exe, [cases, rf])
    rr = recs.read_ndjson(rf)
    stats = {"rejected": Counter(), "drift": OrderedDict()}
    _judge(ctx, rr, rf, "replay", "CFGLOAD-replay", _reporter(ctx, stats))
    _finish_drift(ctx, stats)
    return {"evaluations": len(rr), "distinct_nontrivial": len(rr), "rule": "replay of one recorded file pair", "samples": [_file_text(rr[0])]}


def run_growth(ctx):
    """runs the configuration loading check; adds violations (C19:load:*), drift and notes to ctx and returns a coverage dict"""
    t0 = time.time()
    wd = recs.workdir("CFGLOAD")
    if getattr(ctx, "replay_path", None):
        return _replay(ctx, wd)
    cases = os.path.join(wd, "cases.ndjson")
    gen = tlc.run("ConfigLoadGen", "ConfigLoadGen.cfg", env={"VF_TIER": ctx.tier, "VF_OUT": cases}, workers=4, heap="8g",
                  timeout=600, tag="ConfigLoadGen")
    g = [v for v in gen["vf"] if len(v) > 2 and v[1] == "GEN"]
    if not g:
        raise tlc.TlcFailure("ConfigLoadGen wrote no cases:\n" + gen["out"][-2000:])
    nfiles = g[0][2]
    fam = dict(zip(FAMILIES, g[0][3:]))
    ctx.log("cfg_load: %d files generated by TLC in %.1fs: %s" % (nfiles, gen["wall_s"], fam))
    exe = build.build("cfg_load", ["cfg_load.cpp"], ["ebus", "utils"])
    rf = os.path.join(wd, "recs.ndjson")
    out = recs.run_harness(ctx, exe, [cases, rf])
    hstat = json.loads(out.strip().splitlines()[-1])
    rr = recs.read_ndjson(rf)
    if len(rr) != nfiles or hstat["cases"] != nfiles:
        raise RuntimeError("cfg_load: %d files generated, harness ran %d, %d records" % (nfiles, hstat["cases"], len(rr)))
    stats = {"rejected": Counter(), "drift": OrderedDict()}
    report = _reporter(ctx, stats)
    shards = [rf] if len(rr) <= SHARD else recs.split_file(rf, SHARD)
    judged, states, opens, base = 0, 0, [], 0
    for k, sp in enumerate(shards):
        n = min(SHARD, len(rr) - base) if len(shards) > 1 else len(rr)
        cnt, op, res = _judge(ctx, rr[base:base + n], sp, "all" if len(shards) == 1 else "shard", "CFGLOAD-%d" % k, report)
        ctx.log("cfg_load[%d]: %d records judged in %.1fs, %d accepted through an open clause" % (k, cnt, res["wall_s"], len(op)))
        judged += cnt
        states += res["distinct"]
        opens += [(base + v[2], v[3]) for v in op]
        base += n
    if judged != nfiles:
        raise tlc.TlcFailure("ConfigLoadJudge judged %d of %d records" % (judged, nfiles))
    if len(shards) > 1 and len({(json.dumps(r["tpl"]), json.dumps(r["msg"])) for r in rr}) != nfiles:
        # completeness of a sharded run: every shard is a duplicate-free subset of the domain (asserted by TLC), the shards
        # are pairwise disjoint (here) and together as many as the domain TLC enumerated
        raise tlc.TlcFailure("cfg_load: records are not pairwise distinct")
    _finish_drift(ctx, stats)
    ok_t = sum(1 for r in rr if r["trc"] == 0)
    ok_m = sum(1 for r in rr if r["did"] == 2)
    rej_m = sum(1 for r in rr if r["did"] == 1)
    evals = hstat["template_loads"] + hstat["message_loads"] + hstat["reloads"] + hstat["dumps"]
    nontrivial = sum(1 for r in rr if _nontrivial(r))
    big = max((r for r in rr if r["did"] == 2 and r["tpl"]), key=lambda r: len(r["M"]) * 100 + len(r["tpl"]), default=rr[0])
    rejd = next((r for r in rr if r["did"] == 1 and r["mln"] > 3), rr[0])
    samples = [dict(_file_text(big), loaded=[_msg(m) for m in big["M"]], dump=_s(big["d1"])),
               dict(_file_text(rejd), rejected_at_line=rejd["mln"], error=rejd["err"])]
    summary = ("cfg_load (configuration loading, no listed property): %d files (%s); templates accepted %d / rejected %d; message "
               "files accepted %d / rejected %d; %d accepted through an open clause of ConfigLoad; rejected by the judge: %s; %.0fs"
               % (nfiles, ", ".join("%s %d" % (k.split("_")[0], v) for k, v in fam.items()), ok_t, nfiles - ok_t, ok_m, rej_m,
                  len(opens), dict(stats["rejected"]) or "none", time.time() - t0))
    ctx.log(summary)
    ctx.notes.append(summary)
    return {
        "evaluations": evals, "distinct_nontrivial": nontrivial, "exhaustive": True,
        "rule": "evaluations = template file loads + message file loads + reloads of the dump + dumps; files are pairwise distinct "
                "(TLC asserts it); non-trivial = a file with a template row, a default row, two or more definition rows or an "
                "explicit header line",
        "files": nfiles, "families": fam, "templates_accepted": ok_t, "messages_accepted": ok_m, "messages_rejected": rej_m,
        "open_clause": len(opens), "messages_loaded": hstat["messages"], "tlc_states": states, "samples": samples,
        "assumptions": [
            "ConfigLoad.tla models seven base types (UCH UIN D2C SCH ULG STR HEX); other type names are left open",
            "conventions C1-C5 of ConfigLoad.tla (circuit.N for ZZ lists, empty field groups are no fields, identity of messages, "
            "a row needs its own name, usage unit/comment apply to the first derived field) are stated as the specification "
            "although only the existence of the feature is documented",
            "corners O1-O6 of ConfigLoad.tla are left open (anything accepted); conditions, instructions, includes, ranges, "
            "language columns and defaults derived from the file name are out of scope",
        ],
    }


def main(argv):
    import argparse
    from vf import core
    ap = argparse.ArgumentParser()
    ap.add_argument("--tier", default=os.environ.get("VERIF_TIER", "quick"), choices=["quick", "thorough"])
    ap.add_argument("--replay", default=None)
    a = ap.parse_args(argv)
    ctx = core.Ctx("C19", a.tier, int(os.environ.get("VERIF_SEED", "1") or "1"))
    ctx.replay_path = a.replay
    ctx.level = "exploration"
    t0 = time.time()
    try:
        cov = run_growth(ctx)
    except tlc.TlcFailure as e:
        print("MODEL-FAILURE cfg_load %s" % str(e)[:4000])
        return 2
    known = {f["key"] for f in core.load_findings() if f.get("status") == "known" and f.get("property") == "C19"}
    for d in ctx.drift:
        print("DRIFT cfg_load %s" % d)
    rc = 0
    for v in ctx.violations:
        if v["key"] in known:
            print("KNOWN-FINDING: %s (%d witnesses)" % (v["key"], v["count"]))
            continue
        rc = 1
        rdir = os.path.join(build.BUILD, "cfg_load-replay")
        os.makedirs(rdir, exist_ok=True)
        rp = os.path.join(rdir, "".join(c if c.isalnum() else "_" for c in v["key"])[:80] + ".json")
        if not a.replay:
            with open(rp, "w") as f:
                json.dump({"property": "C19", "key": v["key"], "what": v["what"], "tier": a.tier, "replay": v["replay"]}, f, indent=1)
        print("VIOLATION property=C19 key=%s witnesses=%d replay=%s  # %s" % (v["key"], v["count"], rp, v["what"][:1500]))
    if cov is None:
        print("not a cfg_load replay file")
        return 2
    print(json.dumps({k: cov[k] for k in cov if k not in ("samples", "assumptions", "rule")}))
    print("%s cfg_load tier=%s wall=%.1fs" % ("FAIL" if rc else "PASS", a.tier, time.time() - t0))
    return rc


if __name__ == "__main__":
    sys.exit(main(sys.argv[1:]))
