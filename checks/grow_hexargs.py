"""Growth check: payload of the `hex` command (no listed property; a disagreement is a DRIFT note, never a VIOLATION).

P = spec/HexArgs.tla: a payload written as blank separated tokens is a sequence of bytes, two hex digits each, every token
holding whole bytes; the telegram put on the bus is QQ + exactly those bytes, anything else is refused with nothing sent.
The same module generates the cases (every split of a valid payload into <= 3 tokens, its upper-case form, a dangling
nibble, a wrong NN, a non-hex character); harness/grow_hexargs.cpp replays them on the in-process daemon (--enablehex,
scripted slave); the module judges the records and asserts that they are exactly its domain and that both verdicts occur.
`run_growth(ctx)` returns a coverage dict and appends findings to ctx.drift; `run(ctx)` = bin/check grow_hexargs."""
import json
import os
import time

from vf import build, recs, tlc

GROUPS = ["ebusd", "ebus", "utils", "knx"]


def _c(s):
    return [ord(x) for x in s]


WORLD = {"lay": 1, "dsrc": "none", "d": [], "d2": [], "users": [], "args": [_c("--enablehex")],
         "msgs": [{"k": "r", "c": "ca", "n": "rd", "lv": []}, {"k": "w", "c": "ca", "n": "wr", "lv": []}]}


def run_growth(ctx):
    t0 = time.time()
    wt = os.environ.get("VERIF_WORKTAG", "")
    wd = recs.workdir("GROWHEX" + wt)
    exe = build.build("grow_hexargs", ["grow_hexargs.cpp"], GROUPS, libs=["-lmosquitto"])
    cases, wf, rf = wd + "/cases.ndjson", wd + "/world.ndjson", wd + "/recs.ndjson"
    gen = tlc.run("HexArgs", "HexArgs.cfg", env={"VF_OUT": cases}, workers=1, timeout=300, heap="2g", tag="GROWHEX" + wt + "-gen")
    g = [v for v in gen["vf"] if len(v) > 1 and v[1] == "GEN"]
    if not g:
        raise tlc.TlcFailure("HexArgs generator printed no GEN line:\n" + gen["out"][-1500:])
    with open(wf, "w") as f:
        f.write(json.dumps(WORLD) + "\n")
    recs.run_harness(ctx, exe, [rf, wf, cases, wd], timeout=600)
    rr = recs.read_ndjson(rf)
    res, bad = recs.judge(ctx, "HexArgs", "HexArgs.cfg", rf, workers=1, heap="2g", timeout=300, tag="GROWHEX" + wt + "-j")
    classes = {}
    for idx, sig in bad:
        r = rr[idx - 1]
        line = "hex " + " ".join("".join(chr(c) for c in t) for t in r["t"])
        classes.setdefault(str(sig), []).append("%r -> %r, telegrams %s" % (
            line, "".join(chr(c) for c in r["a"])[:40], ["".join("%02x" % b for b in t) for t in r["bus"]]))
    for k, v in sorted(classes.items()):
        ctx.drift.append("GROWTH hex payload: %d of %d command lines [%s], e.g. %s" % (len(v), len(rr), k, v[0]))
    ctx.log("hex payload growth: %d command lines judged, %d rejected (%.1fs)" % (len(rr), len(bad), time.time() - t0))
    return {"cases": g[0][2], "records": len(rr), "rejected": len(bad), "classes": {k: len(v) for k, v in classes.items()},
            "accepted_payloads": sum(1 for r in rr if r["bus"]), "refused_payloads": sum(1 for r in rr if not r["bus"]),
            "sample": {"line": "hex " + " ".join("".join(chr(c) for c in t) for t in rr[0]["t"]),
                       "answer": "".join(chr(c) for c in rr[0]["a"])[:60]} if rr else None}


def run(ctx):
    ctx.level = "exploration"
    cov = run_growth(ctx)
    cov["samples"] = [cov.pop("sample", None)]
    cov["evaluations"] = cov["records"]
    cov["distinct_nontrivial"] = cov["records"]
    cov["rule"] = "distinct command lines"
    ctx.coverage = cov
    ctx.assumptions = ["growth check: no listed property; disagreements are drift notes, nothing here is a violation"]
