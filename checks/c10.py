"""C10 - fields of a message are laid out as defined and do not influence each other.

P = spec/Layout.tla `Own` (ownership fold over the field sequence).  S = the three bookkeeping loops of
DataFieldSet::getLength/read/write with hasFullByteOffset, transcribed in the same module.
1. spec/LayoutMC.tla   : TLC explores S x P to a fix-point => S => P for field sequences of any length
                         (for the pinned hasFullByteOffset and for the always-sharing variant; P admits both).
2. spec/C10Cases.tla   : TLC enumerates the bounded domain of field sequences with P's ownership map (case file),
                         checking the lemmas about P (disjoint, no gaps, length = span, prefix stability) on the way.
3. harness/c10_layout.cpp replays every case on real DataField objects built from CSV text and discovers ownership
                         black-box (encode varying one field, decode under every single-bit flip, all output formats).
4. spec/C10Judge.tla   : TLC judges every record against Own.  Only this step can produce a VIOLATION.
"""
import concurrent.futures as cf
import json
import os
import shutil
import time

from vf import build, recs, tlc



def _mc(ctx, cfg):
    res = tlc.run("LayoutMC", cfg, workers=4, cont=True, tag="C10-%s-%d" % (cfg, os.getpid()))
    traces = []
    for st in res["trace"]:
        if st["_n"] == 1:
            traces.append([])
        if st.get("last") and st["last"] != "<<>>":
            traces[-1].append(st["last"].replace("<<", "").replace(">>", "").replace('"', "").replace(", ", "/"))
    classes = {}
    for v in res["vf"]:
        if len(v) >= 4 and v[1] == "SP":
            classes[v[2]] = classes.get(v[2], 0) + 1
    return res, classes, traces


def run(ctx):
    ctx.level = "model_checking"
    tier = "thorough" if ctx.thorough else "quick"
    exe = build.build("c10_layout", ["c10_layout.cpp"], ["ebus", "utils"])
    wd = recs.workdir("C10-%s-%d" % (tier, os.getpid()))   # concurrent runs (mutation tests) must not share files
    try:
        _run(ctx, tier, exe, wd)
    finally:
        if not os.environ.get("VERIF_KEEP"):
            shutil.rmtree(wd, ignore_errors=True)


def _run(ctx, tier, exe, wd):

    # 1. S => P, all lengths -----------------------------------------------------------------------------------
    mc, mc_classes, mc_traces = _mc(ctx, "MC_Layout.cfg")
    mcf, mcf_classes, _ = _mc(ctx, "MC_LayoutFixed.cfg")
    if mcf["violated"]:
        raise tlc.TlcFailure("the always-sharing variant of hasFullByteOffset does not refine P:\n" + mcf["out"][-2000:])
    ctx.log("S=>P fix-point: pinned tree %d states, %d disagreements %s; always-sharing variant %d states, 0" %
            (mc["distinct"], sum(mc_classes.values()), mc_classes, mcf["distinct"]))
    if mc_classes:
        ctx.notes.append("design level (pure TLC): S of the pinned tree disagrees with P in %d minimal field successions, classes %s, "
                         "e.g. %s" % (sum(mc_classes.values()), mc_classes, " ; ".join(",".join(t) for t in mc_traces[:3])))

    # 2. the domain, emitted by TLC ----------------------------------------------------------------------------
    cs = tlc.run("C10Cases", "C10Cases_%s.cfg" % tier, workers=8, heap="12g", timeout=1500, tag="C10-cases-%d" % os.getpid())
    if cs["violated"]:
        raise tlc.TlcFailure("a lemma about P failed on the domain:\n" + cs["out"][-3000:])
    casefile = os.path.join(wd, "cases.ndjson")
    emitted = [json.loads(json.loads(line)) for line in cs["out"].splitlines() if line.startswith('"{')]
    emitted.sort(key=lambda c: (len(c["k"]), c["k"], c["p"]))   # TLC's workers print in any order: ids must not depend on it
    for c in emitted:
        c["alts"].sort(key=lambda a: (a["len"], a["own"]))
    nunspec = sum(1 for c in emitted if len(c["alts"]) > 1)
    altlens = {}
    cases, types = [], []
    with open(casefile, "w") as f:
        for c in emitted:
            c["id"] = len(cases) + 1
            if len(c["alts"]) > 1:
                altlens[c["id"]] = [a["len"] for a in c["alts"]]
            cases.append((tuple(c["k"]), tuple(c["p"])))
            types.append(c["t"])
            f.write(json.dumps(c, separators=(",", ":")) + "\n")
    del emitted
    ncases = len(cases)
    if ncases != cs["distinct"] - 1 or len(set(cases)) != ncases:
        raise RuntimeError("case emission incomplete: %d lines, %d distinct states" % (ncases, cs["distinct"]))
    idbase = 0
    if ctx.replay_path:      # --replay: only the sequence named in the replay file (it must be in the tier's domain)
        with open(ctx.replay_path) as f:
            want = json.load(f)["replay"]["record"]
        want = (tuple(want["k"]), tuple(want["p"]))
        if want not in cases:
            raise RuntimeError("replay sequence %s is not in the %s domain" % (want, tier))
        with open(casefile) as f:
            line = f.readlines()[cases.index(want)]
        c = json.loads(line)        # keeps its id: the seeded random data depends on it
        idbase = c["id"] - 1
        with open(casefile, "w") as f:
            f.write(json.dumps(c, separators=(",", ":")) + "\n")
        cases, types, ncases = [want], [c["t"]], 1
    ctx.log("domain: %d field sequences, %d of them with an unspecified placement (several admissible maps) (TLC %.0fs)" %
            (ncases, nunspec, cs["wall_s"]))

    # 3. replay on the real code, in parallel chunks ---------------------------------------------------------
    nproc = int(os.environ.get("VERIF_JOBS", "12"))
    chunk = max(500, (ncases + nproc * 4 - 1) // (nproc * 4))
    jobs = [(first, min(chunk, ncases - first + 1)) for first in range(1, ncases + 1, chunk)]   # (line of the case file, count)

    def one(job):
        out = os.path.join(wd, "recs.%07d" % job[0])
        recs.run_harness(ctx, exe, [casefile, out, job[0], job[1]], timeout=2400)
        return out
    t0 = time.time()
    with cf.ThreadPoolExecutor(max_workers=nproc) as ex:
        parts = list(ex.map(one, jobs))
    ctx.log("harness: %d cases replayed on the real code in %.0fs (%d processes)" % (ncases, time.time() - t0, nproc))
    t0 = time.time()
    # concatenate into judge shards, checking transport (record id/k/p == case id/k/p)
    shard_max = 60000
    shards, rr, out, n = [], [], None, 0
    for p in parts:
        with open(p) as f:
            for line in f:
                r = json.loads(line)
                if r["id"] - idbase != len(rr) + 1 or (tuple(r["k"]), tuple(r["p"])) != cases[len(rr)]:
                    raise RuntimeError("record %s does not belong to case %d" % (line[:80], len(rr) + 1))
                rr.append(r)
                if out is None or n >= shard_max:
                    if out:
                        out.close()
                    shards.append(os.path.join(wd, "shard.%03d" % len(shards)))
                    out, n = open(shards[-1], "w"), 0
                out.write(line)
                n += 1
    if out:
        out.close()
    if len(rr) != ncases:
        raise RuntimeError("harness produced %d records for %d cases" % (len(rr), ncases))
    dbg = {}
    for p in parts:
        with open(p + ".dbg", errors="replace") as f:
            for line in f:
                cid = line.split(" ", 1)[0]
                if cid.isdigit() and int(cid) not in dbg:
                    dbg[int(cid)] = line.strip()[:300]

    # 4. TLC judges ------------------------------------------------------------------------------------------------
    states = generated = 0
    ndrift = 0
    first_drift = None
    base = 0
    nbad = 0
    for k, sp in enumerate(shards):
        res, bad = recs.judge(ctx, "C10Judge", "C10Judge_%s.cfg" % tier, sp, workers=8, heap="8g", tag="C10-judge-%d-%d" % (k, os.getpid()))
        states += res["distinct"]
        generated += res["generated"]
        for v in res["vf"]:
            if len(v) >= 3 and v[1] == "DRIFT":
                ndrift += 1
                first_drift = first_drift or rr[base + v[2] - 1]
        for idx, sig in bad:
            r = rr[base + idx - 1]
            c = cases[r["id"] - idbase - 1]
            check, ftype = (sig + ["?", ""])[:2] if isinstance(sig, list) else ("?", "")
            names = ",".join("%s/%s" % tp for tp in zip(types[r["id"] - idbase - 1], c[1]))
            key = "C10:%s%s" % (check, ":" + ftype if ftype else "")
            nbad += 1
            ctx.violation(key, "fields %s: oracle Own rejects what the real code did (first failing check: %s)%s" %
                          (names, check, "; " + dbg[r["id"]] if r["id"] in dbg else ""),
                          {"definition": names, "record": r})
        with open(sp) as f:
            base += sum(1 for _ in f)
    ctx.log("judge: %d records, %d rejected, %d drifting from S, %.0fs" % (len(rr), nbad, ndrift, time.time() - t0))
    if ndrift:
        ctx.drift.append("%d records accepted by P differ from the S transcription (hasFullByteOffset model), e.g. %s" %
                         (ndrift, json.dumps(first_drift)[:300]))

    # evidence ---------------------------------------------------------------------------------------------------
    bylen = {}
    flips = 0
    nontrivial = 0
    taken = {"shares_everywhere": 0, "new_byte_everywhere": 0, "mixed": 0}
    for r in rr:
        if r.get("na", 1) > 1:
            tot = [sum(a) for a in altlens[r["id"]]]
            taken["shares_everywhere" if sum(r["wl"]) == min(tot) else "new_byte_everywhere" if sum(r["wl"]) == max(tot) else "mixed"] += 1
    for (k, p) in cases:
        bylen[len(k)] = bylen.get(len(k), 0) + 1
        if len(k) > 1:
            nontrivial += 1
    ctx.coverage = {
        "states": mc["distinct"] + mcf["distinct"] + cs["distinct"] + states,
        "transitions": mc["generated"] + mcf["generated"] + cs["generated"] + generated,
        "traces_validated_against_impl": ncases,
        "evaluations": ncases, "distinct_nontrivial": nontrivial,
        "rule": "one evaluation = one field sequence replayed on real DataField objects (2 encode bases x every alternative value "
                "per field; 4 data bases x every single-bit flip x up to 7 output formats x every field); distinct = distinct "
                "(kinds, parts) sequence (checked), non-trivial = more than one field",
        "sequences_by_length": bylen,
        "s_implies_p_fixpoint": {"pinned_states": mc["distinct"], "pinned_disagreements": mc_classes,
                                 "always_sharing_variant_states": mcf["distinct"], "always_sharing_variant_disagreements": 0},
        "sequences_with_unspecified_placement": nunspec,
        "unspecified_placement_taken_by_code": taken,
        "p_lemmas_on_domain": ["ownership pairwise disjoint", "every byte below the length has an owner",
                               "length = bytes spanned", "full-byte fields directly behind their predecessor",
                               "appending a field never moves an earlier one (action property)"],
        "records_rejected": nbad, "records_drifting_from_S": ndrift,
        "samples": [rr[0], rr[len(rr) // 3], rr[(2 * len(rr)) // 3], rr[-1]],
        "exhaustive": True,
    }
    ctx.assumptions = [
        "kind alphabet {UCH,UIN,D2C,BCD,BI0:1,BI1:2,BI3:3,BI7,BI0:7,IGN:1,STR:2,HDA:3,TTM,HEX:2,HEX:* (last of its part)}; " +
        ("all sequences of 1..3 fields over both parts and all kinds + 4 fields over both parts and 12 kinds (without D2C,BCD,TTM) "
         "+ 5 fields in the slave part over the 9 kinds that differ in bookkeeping"
         if ctx.thorough else
         "all sequences of 1..3 fields over both parts and all kinds + 4 fields in the slave part over 12 kinds (without D2C,BCD,TTM)") +
        "; S => P itself holds for any length (fix-point)",
        "dependence of decoding on a bit is observed by single-bit flips on 4 base data (two valid, two seeded random rich in 00/FF)",
        "unspecified placements (P admits sharing the open byte and a new byte, but getLength/read/write must agree on one of them and "
        "all other laws hold): a bit field whose bits are free in the open byte but not above everything used there (descending / "
        "interleaving order), and a bit field behind one that restarted a byte because of an equal first bit; overlapping bit ranges "
        "are not generated",
        "getLength(part, max) with a variable-length field is only bounded by P (fixed span <= result <= max), exact for max = fixed span",
        "TLC evaluates the TLA+ definitions correctly; the harness logs what the functions returned",
    ]

