"""Scan-based configuration file selection and raw traffic log - growth of the specification (no listed property).

(A) spec/ScanSelect.tla = P for ScanHelper::loadScanConfigFile (which CSV file of the manufacturer directory serves a scanned
    slave), the file-name convention behind it (MessageMap::extractDefaultsFromFilename, ScanHelper::collectConfigFiles) and the
    MASTER/SLAVE text of an injected message (ScanHelper::parseMessage).  spec/ScanSelectDomain.tla is a grammar of file names
    and ten families of small worlds (directory entries x identification x address) that TLC enumerates completely
    (ScanSelectGen emits them); harness/scan_select.cpp creates every world on disk, hands the identification to a real
    MessageMap the way main.cpp / BusHandler do, calls the real functions with the directory listed in ascending and in
    descending order, and logs what was chosen / loaded; ScanSelectJudge judges every record, checks the lemmas about P on
    every world and asserts that the records cover the domain.
(B) spec/RawLog.tla = P ("from the lines of --lograwdata the (direction, symbol) events can be reconstructed exactly, except for
    SYNs and the echo of a sent symbol": Decode(log) = Compress(events)) and S (the line buffer automaton of
    ProtocolHandler::notifyDeviceData).  TLC model-checks S => P over all event sequences <= 6 (MC_RawLog_*.cfg); RawLogGen
    emits all sequences <= 5/6 (alone, behind a filler that brings the buffer to its limit, symbol-wise and chunked, four sinks),
    harness/rawlog.cpp feeds them to the real function with a real RotateFile / log file behind it, RawLogJudge judges every
    prefix of every record against P and the final text against S.

Nothing here is a listed property: every disagreement of the real code goes to ctx.drift ("DRIFT" lines, exit 0) and ctx.notes,
with a witness file under .build/grow_scan-witness/ that `python3 checks/grow_scan.py --replay <file>` replays in text form.
A failing lemma / incomplete domain / TLC problem is a model failure (exit 2).  A crash of the real code is a harness failure.

Stand-alone:  python3 checks/grow_scan.py [--tier quick|thorough] [--only scan|rawlog] [--replay witness.json]
"""
import json
import os
import sys
import time
from collections import Counter, OrderedDict

if __name__ == "__main__":
    _root = os.path.dirname(os.path.dirname(os.path.abspath(__file__)))
    sys.path.insert(0, os.path.join(_root, "lib"))
    sys.path.insert(0, _root)
    os.chdir(_root)

from vf import build, recs, tlc

SCAN_GROUPS = ["ebusd", "ebus", "utils", "knx"]
SCAN_LIBS = ["-lmosquitto", "-ldl"]
FAMS = ["A1_single_name", "A2_two_candidates", "A3_three_four_candidates", "A4_ident_bytes", "A5_version_bytes", "A6_manufacturer",
        "A7_directory_entries", "A8_addresses", "A9_no_identification", "A10_defaults"]
# witnesses of runs against another tree (mutation tests) do not overwrite those of the real tree
WITNESS = os.path.join(build.BUILD, "grow_scan-witness" + ("" if os.path.realpath(build.REPO) == "/repo" else "-other-tree"))

SCAN_CLASSES = {
    "S-nothing-chosen": "a candidate matches (R3) but the result is an error",
    "S-output-touched": "the result is an error but the output string was changed (R6)",
    "S-no-output": "success without a file name (R6)",
    "S-not-a-candidate": "the returned file is no candidate of the manufacturer directory (R1/R2)",
    "S-not-matching": "the chosen file states an address / SW / HW / ident that the identification does not have (R3)",
    "S-shorter-ident-chosen": "a matching file with a longer ident lost (R4)",
    "S-less-specific-version-chosen": "a matching file that states more of SW/HW (same ident length) lost against one that states "
                                      "less (R5; the code ranks by ident length, then by the length of the file name)",
    "S-common-files": "the loaded files are not the chosen file plus the common files of the directory (R7)",
    "S-defaults": "the definitions of the chosen file did not get circuit / destination from its name",
    "F-refused": "a name of the convention is refused by extractDefaultsFromFilename",
    "F-address": "address read from the name differs", "F-version": "SW/HW read from the name differ",
    "F-ident": "ident read from the name differs", "F-circuit": "circuit / suffix read from the name differ",
    "F-accepted": "a name whose first segment is no address is accepted",
    "M-accepted": "parseMessage accepts a text ScanSelect!ParseMsg rejects", "M-refused": "parseMessage refuses a well-formed text",
    "M-differs": "parseMessage delivers other symbols than the text spells",
    "M-appended-to-target": "parseMessage appends to symbol strings that are not empty (main.cpp re-uses them for every --inject "
                            "argument in --checkconfig mode, so the second and later scan messages are read as the first one)",
}
RAW_CLASSES = {
    "R-echo-repeat": "after the echo of a sent symbol every further received symbol of the same value is dropped as well "
                     "(e.g. sent CRC 00, echo 00, ACK 00 of the slave: the ACK is missing in the log)",
    "R-wf": "a line is malformed or the continuation marks do not pair up", "R-prefix": "the log does not spell a prefix of the events",
    "R-syn": "the log is incomplete after a SYN", "R-pend": "more is pending than a line buffer holds",
    "R-long": "a line is longer than 64+6 characters", "R-cut": "a line is cut although it holds no more than 64 characters",
    "S-differs": "the lines differ from those of the S automaton (P holds)",
    "B-malformed": "bytes mode: malformed line", "B-differs": "bytes mode: the lines do not spell the symbols handed over",
    "B-lines": "bytes mode: number of lines",
}


def _s(codes):
    return bytes(codes).decode("latin1")


def _vf(res, tag):
    return [v for v in res["vf"] if len(v) > 1 and v[1] == tag]


# --------------------------------------------------------------------------------------------------------- (A) scan selection
def _scan_exe():
    return build.build("scan_select", ["scan_select.cpp"], SCAN_GROUPS, libs=SCAN_LIBS)


def _sel_text(r):
    ents = ", ".join("%s%s" % (_s(e[0]), {0: "", 1: "/", 2: " (defaults)", 3: " (templates)"}.get(e[1], "?")) for e in r["ents"])
    ident = "no identification" if not r["has"] else "identification %s" % bytes(r["sl"]).hex()
    runs = "; ".join("listing %s: %s" % ("ascending" if i == 0 else "descending",
                                          ("-> %s (loaded %s)" % (_s(x["file"]), ", ".join(_s(l) for l in x["loaded"]))) if x["rc"] == 0
                                          else "-> result %d" % x["rc"]) for i, x in enumerate(r["r"]))
    return "address %02x, %s, entries {%s}: %s" % (r["addr"], ident, ents, runs)


def _scan_describe(r):
    if r["t"] == "sel":
        return _sel_text(r)
    if r["t"] == "fn":
        return "extractDefaultsFromFilename(\"%s\") -> ok=%d dest=%02x sw=%d hw=%d ident=\"%s\" circuit=\"%s\" suffix=\"%s\"" % (
            _s(r["fn"]), r["ok"], r["dest"], r["sw"], r["hw"], _s(r["ident"]), _s(r["circuit"]), _s(r["suffix"]))
    return "parseMessage(\"%s\", onlyMasterSlave=%d%s) -> %s master=%s slave=%s" % (
        _s(r["arg"]), r["oms"], ", targets holding 3132 / 3334" if r["pre"] else "", "accepted" if r["ok"] else "refused",
        bytes(r["m"]).hex(), bytes(r["s"]).hex())


def _scan_size(r):
    if r["t"] == "sel":      # witness order: few entries, an ordinary ident in every name, short names
        odd = sum(1 for e in r["ents"] if "/08.bai" not in _s(e[0]))
        return len(r["ents"]) * 1000 + odd * 300 + sum(len(e[0]) for e in r["ents"])
    return len(r.get("fn", r.get("arg", [])))


def _case_of(r):
    if r["t"] == "sel":
        return {k: r[k] for k in ("t", "addr", "has", "sl", "ents")}
    if r["t"] == "fn":
        return {"t": "fn", "fn": r["fn"]}
    return {k: r[k] for k in ("t", "arg", "oms", "pre")}


def _witness(part, cls, case, what):
    os.makedirs(WITNESS, exist_ok=True)
    p = os.path.join(WITNESS, "%s-%s.json" % (part, "".join(c if c.isalnum() else "_" for c in cls)))
    with open(p, "w") as f:
        json.dump({"part": part, "class": cls, "what": what, "case": case}, f, indent=1)
    return p


def _report(ctx, part, classes, by_class, describe, case_of, size):
    """one DRIFT line per class with the smallest witness"""
    for cls, rs in by_class.items():
        rs.sort(key=size)
        what = describe(rs[0])
        wf = _witness(part, cls, case_of(rs[0]), what)
        text = "%s differs from spec/%s (%s: %s; %d cases; not a listed property); smallest: %s; replay: python3 checks/grow_scan.py --replay %s" % (
            "scan config selection" if part == "scan" else "raw traffic log", "ScanSelect.tla" if part == "scan" else "RawLog.tla",
            cls, classes.get(cls, "?"), len(rs), what[:1200], wf)
        ctx.drift.append(text)
        ctx.notes.append("grow_scan " + text)


def _scan_judge(ctx, rf, rr, family, tag):
    res, bad = recs.judge(ctx, "ScanSelectJudge", "ScanSelectJudge.cfg", rf, workers=8, heap="8g", timeout=900,
                          env={"VF_TIER": ctx.tier, "VF_FAMILY": family}, tag=tag)
    if _vf(res, "LEMMA"):
        i = _vf(res, "LEMMA")[0][2]
        raise tlc.TlcFailure("a lemma of ScanSelect.tla fails on the world of record %d: %s" % (i, _scan_describe(rr[i - 1])))
    if not _vf(res, "DOMAIN"):
        raise tlc.TlcFailure("ScanSelectJudge: domain line missing:\n" + res["out"][-2000:])
    by_class = OrderedDict()
    for idx, sig in bad:
        cls = sig[0] if isinstance(sig, list) and sig else "?"
        by_class.setdefault(cls, []).append(rr[idx - 1])
    opens = Counter(v[3] for v in _vf(res, "OPEN"))
    return res, by_class, opens


def _scan(ctx):
    t0 = time.time()
    wd = recs.workdir("GROWSCAN")
    cases = os.path.join(wd, "cases.ndjson")
    gen = tlc.run("ScanSelectGen", "ScanSelectGen.cfg", env={"VF_TIER": ctx.tier, "VF_OUT": cases}, workers=4, heap="8g", timeout=600,
                  tag="ScanSelectGen-%d" % os.getpid())
    g = _vf(gen, "GEN")
    if not g or not _vf(gen, "FAM1") or not _vf(gen, "FAM2"):
        raise tlc.TlcFailure("ScanSelectGen wrote no cases:\n" + gen["out"][-2000:])
    nsel, nfn, npm, decided, pmdecided = g[0][2:7]
    fam = dict(zip(FAMS, _vf(gen, "FAM1")[0][2] + _vf(gen, "FAM2")[0][2]))
    ctx.log("grow_scan/scan: TLC generated %d worlds (%s), %d names, %d texts in %.1fs" % (nsel, fam, nfn, npm, gen["wall_s"]))
    exe = _scan_exe()
    rf = os.path.join(wd, "recs.ndjson")
    out = recs.run_harness(ctx, exe, [cases, rf, os.path.join(wd, "fs")])
    hstat = json.loads(out.strip().splitlines()[-1])
    rr = recs.read_ndjson(rf)
    if len(rr) != nsel + nfn + npm or hstat["sel"] != nsel:
        raise RuntimeError("grow_scan/scan: %d cases generated, harness ran %d, %d records" % (nsel + nfn + npm, hstat["cases"], len(rr)))
    res, by_class, opens = _scan_judge(ctx, rf, rr, "all", "GROWSCAN")
    _report(ctx, "scan", SCAN_CLASSES, by_class, _scan_describe, _case_of, _scan_size)
    sel = [r for r in rr if r["t"] == "sel"]
    order_dep = sum(1 for r in sel if r["r"][0]["rc"] != r["r"][1]["rc"] or r["r"][0]["file"] != r["r"][1]["file"])
    chosen = sum(1 for r in sel if r["r"][0]["rc"] == 0)
    pm_ok = sum(1 for r in rr if r["t"] == "pm" and r["ok"])
    rejected = {k: len(v) for k, v in by_class.items()}
    big = max(sel, key=lambda r: (r["r"][0]["rc"] == 0, len(r["ents"]), len(r["r"][0]["loaded"])))
    summary = ("grow_scan/scan (no listed property): %d worlds x 2 listing orders (%s), %d chose a file, %d depend on the listing order "
               "(all inside O1); %d file names, %d MASTER/SLAVE texts (%d accepted); P decides %d worlds / %d texts, open clauses hit: %s; "
               "rejected by the judge: %s; %.0fs" % (nsel, ", ".join("%s %d" % (k.split("_")[0], v) for k, v in fam.items()), chosen, order_dep,
                                                    nfn, npm, pm_ok, decided, pmdecided, dict(sorted(opens.items())), rejected or "none",
                                                    time.time() - t0))
    ctx.log(summary)
    ctx.notes.append(summary)
    return {
        "evaluations": hstat["runs"] + nfn + npm,
        "distinct_nontrivial": sum(1 for r in sel if len(r["ents"]) >= 2) + nfn + npm,
        "rule": "evaluations = calls of loadScanConfigFile (two listing orders per world) + extractDefaultsFromFilename + parseMessage; "
                "TLC asserts that the records are the enumerated case list, index by index (names and texts are pairwise distinct, a world "
                "that belongs to two families is run twice); non-trivial = a world with at least two directory entries, every name, "
                "every text",
        "worlds": nsel, "families": fam, "names": nfn, "texts": npm, "files_created": hstat["files"], "chosen": chosen,
        "listing_order_dependent": order_dep, "decided_by_P": decided, "open_clause_hits": sum(opens.values()), "rejected": rejected,
        "tlc_states": res["distinct"],
        "samples": [_sel_text(big), _scan_describe(next(r for r in rr if r["t"] == "fn" and r["suffix"])),
                    _scan_describe(next(r for r in rr if r["t"] == "pm" and r["ok"] and r["s"]))],
    }


# --------------------------------------------------------------------------------------------------------- (B) raw traffic log
def _raw_exe():
    return build.build("rawlog", ["rawlog.cpp"], ["ebus", "utils"])


def _raw_describe(r):
    ev = " ".join("%s%02x" % ("<" if e[0] else ">", e[1]) for e in r["ev"])
    return "mode %s, %d filler symbols, %s: events %s logged as %s" % (
        r["mode"], r["pre"], "chunked calls" if r["chunk"] else "one call per symbol", ev or "(none)", [_s(l) for l in r["lines"]])


def _raw_judge(ctx, rf, rr, family, tag):
    res, bad = recs.judge(ctx, "RawLogJudge", "RawLogJudge.cfg", rf, workers=8, heap="8g", timeout=900,
                          env={"VF_TIER": ctx.tier, "VF_FAMILY": family}, tag=tag)
    if not _vf(res, "DOMAIN"):
        raise tlc.TlcFailure("RawLogJudge: domain line missing:\n" + res["out"][-2000:])
    by_class = OrderedDict()
    for idx, sig in bad:
        cls = sig[0] if isinstance(sig, list) and sig else "?"
        by_class.setdefault(cls, []).append(rr[idx - 1])
    return res, by_class


def _rawlog(ctx):
    t0 = time.time()
    # S => P, pure TLC
    mc = {}
    deep = "7" if ctx.thorough else ""          # thorough: all sequences <= 7
    for v, expect in (("code", False), ("fixed", False), ("doc", True)):
        cfg = "MC_RawLog_%s%s.cfg" % (v, deep if v != "doc" else "")
        r = tlc.run("MC_RawLog", cfg, workers=4, heap="4g", timeout=600, tag="MC_RawLog_%s-%d" % (v, os.getpid()))
        mc[v] = r
        if bool(r["violated"]) != expect and not expect:
            raise tlc.TlcFailure("MC_RawLog_%s.cfg: %s violated:\n%s" % (v, r["violated"], r["out"][-2500:]))
    if mc["doc"]["violated"]:
        tr = mc["doc"]["trace"]
        text = ("raw traffic log: the S automaton of the pinned code violates the documented P (MC_RawLog_doc.cfg, invariant %s) after the "
                "events %s; S with an echo-expected flag satisfies P (MC_RawLog_fixed.cfg, %d states), S as built satisfies P with the echo "
                "rule it implements (MC_RawLog_code.cfg, %d states)" % (mc["doc"]["violated"][0], tr[-1].get("rl_ev", "?") if tr else "?",
                                                                        mc["fixed"]["distinct"], mc["code"]["distinct"]))
        ctx.notes.append("grow_scan " + text)
    else:
        ctx.notes.append("grow_scan raw traffic log: the S automaton of the pinned code satisfies the documented P (MC_RawLog_doc.cfg)")
    wd = recs.workdir("GROWRAW")
    cases = os.path.join(wd, "cases.ndjson")
    gen = tlc.run("RawLogGen", "RawLogGen.cfg", env={"VF_TIER": ctx.tier, "VF_OUT": cases}, workers=4, heap="8g", timeout=600,
                  tag="RawLogGen-%d" % os.getpid())
    g = _vf(gen, "GEN")
    if not g:
        raise tlc.TlcFailure("RawLogGen wrote no cases:\n" + gen["out"][-2000:])
    ncases = g[0][2]
    exe = _raw_exe()
    rf = os.path.join(wd, "recs.ndjson")
    out = recs.run_harness(ctx, exe, [cases, rf, os.path.join(wd, "sink")])
    hstat = json.loads(out.strip().splitlines()[-1])
    rr = recs.read_ndjson(rf)
    if len(rr) != ncases:
        raise RuntimeError("grow_scan/rawlog: %d cases generated, %d records" % (ncases, len(rr)))
    res, by_class = _raw_judge(ctx, rf, rr, "all", "GROWRAW")
    _report(ctx, "rawlog", RAW_CLASSES, by_class, _raw_describe, lambda r: {k: r[k] for k in ("mode", "pre", "chunk", "ev")},
            lambda r: len(r["ev"]) * 100 + r["pre"])
    rejected = {k: len(v) for k, v in by_class.items()}
    modes = Counter(r["mode"] for r in rr)
    cont = sum(1 for r in rr if any(l[-3:] == [46, 46, 46] for l in r["lines"]))
    summary = ("grow_scan/rawlog (no listed property): S => P model-checked over %d states (as built, echo rule as built) + %d states (echo "
               "flag, documented P); %d event sequences on the real notifyDeviceData (%s), %d calls, %d symbols, %d lines, %d records with a "
               "\"...\" continuation; rejected by the judge: %s; %.0fs" % (mc["code"]["distinct"], mc["fixed"]["distinct"], ncases, dict(modes),
                                                                         hstat["calls"], hstat["symbols"], hstat["lines"], cont,
                                                                         rejected or "none", time.time() - t0))
    ctx.log(summary)
    ctx.notes.append(summary)
    return {
        "states": mc["code"]["distinct"] + mc["fixed"]["distinct"] + mc["doc"]["distinct"],
        "transitions": mc["code"]["generated"] + mc["fixed"]["generated"] + mc["doc"]["generated"],
        "traces_validated_against_impl": ncases, "evaluations": hstat["calls"],
        "distinct_nontrivial": sum(1 for r in rr if len(r["ev"]) >= 2),
        "rule": "evaluations = calls of notifyDeviceData; the event sequences are pairwise distinct (TLC asserts the records are exactly "
                "the enumerated domain); non-trivial = at least two events",
        "sequences": ncases, "modes": dict(modes), "with_continuation": cont, "rejected": rejected, "tlc_states": res["distinct"],
        "samples": [_raw_describe(max((r for r in rr if r["mode"] == "file" and r["pre"] == 0), key=lambda r: len(r["lines"]))),
                    _raw_describe(next(r for r in rr if r["pre"] == 31 and len(r["lines"]) >= 2))],
    }


# --------------------------------------------------------------------------------------------------------- entry points
def _replay(ctx, path):
    with open(path) as f:
        w = json.load(f)
    wd = recs.workdir("GROWREPLAY")
    cases = os.path.join(wd, "case.ndjson")
    with open(cases, "w") as f:
        f.write(json.dumps(w["case"], separators=(",", ":")) + "\n")
    rf = os.path.join(wd, "recs.ndjson")
    import subprocess
    if w["part"] == "scan":
        r = subprocess.run([_scan_exe(), cases, rf, os.path.join(wd, "fs"), "text"], capture_output=True, text=True)
        print(r.stdout + r.stderr)
        rr = recs.read_ndjson(rf)
        res, by_class, opens = _scan_judge(ctx, rf, rr, "replay", "GROWSCAN-replay")
        _report(ctx, "scan", SCAN_CLASSES, by_class, _scan_describe, _case_of, _scan_size)
    else:
        r = subprocess.run([_raw_exe(), cases, rf, os.path.join(wd, "sink"), "text"], capture_output=True, text=True)
        print(r.stdout + r.stderr)
        rr = recs.read_ndjson(rf)
        res, by_class = _raw_judge(ctx, rf, rr, "replay", "GROWRAW-replay")
        _report(ctx, "rawlog", RAW_CLASSES, by_class, _raw_describe, lambda r: {k: r[k] for k in ("mode", "pre", "chunk", "ev")},
                lambda r: len(r["ev"]))
    return {"evaluations": len(rr), "distinct_nontrivial": len(rr), "rule": "replay of one recorded case", "samples": [w.get("what", "")]}


def run_growth(ctx, only=None):
    """runs both parts; adds drift and notes to ctx (never a violation) and returns a coverage dict"""
    if getattr(ctx, "grow_replay", None):
        return _replay(ctx, ctx.grow_replay)
    cov = {}
    if only in (None, "scan"):
        cov["scan_select"] = _scan(ctx)
    if only in (None, "rawlog"):
        cov["rawlog"] = _rawlog(ctx)
    parts = list(cov.values())
    return {
        "evaluations": sum(p["evaluations"] for p in parts), "distinct_nontrivial": sum(p["distinct_nontrivial"] for p in parts),
        "rule": "; ".join(p["rule"] for p in parts), "states": cov.get("rawlog", {}).get("states", 0),
        "transitions": cov.get("rawlog", {}).get("transitions", 0),
        "traces_validated_against_impl": cov.get("rawlog", {}).get("traces_validated_against_impl", 0),
        "samples": [s for p in parts for s in p["samples"]], "parts": cov,
        "assumptions": [
            "ScanSelect.tla: rules R0-R7 are taken from the comments of scan.cpp / message.cpp, scan.h, the ChangeLog and test_coverage.sh; "
            "R5 (a file that states more of SW/HW beats one that states less) is the specification's reading of the optional "
            "[.SWxxxx][.HWxxxx] parts and is not written in the repository; O1-O6 are left open",
            "the directory listing order is controlled by a link-time readdir() of the harness (ascending / descending by name); HTTP "
            "configuration sources, language variants, conditions and includes are out of scope",
            "RawLog.tla: an echo is the received symbol directly behind a sent symbol of the same value, one per sent symbol; flush "
            "limit 64 as in the code comment; logging is on from the first symbol; the model-checked S uses a flush limit of 8 so "
            "that continuation lines occur within 6 symbols, the real function is driven to the real limit by a filler",
        ],
    }


def main(argv):
    import argparse
    from vf import core
    ap = argparse.ArgumentParser()
    ap.add_argument("--tier", default=os.environ.get("VERIF_TIER", "quick"), choices=["quick", "thorough"])
    ap.add_argument("--only", default=None, choices=["scan", "rawlog"])
    ap.add_argument("--replay", default=None)
    a = ap.parse_args(argv)
    ctx = core.Ctx("GROW", a.tier, int(os.environ.get("VERIF_SEED", "1") or "1"))
    ctx.grow_replay = a.replay
    ctx.level = "model_checking"
    t0 = time.time()
    try:
        cov = run_growth(ctx, a.only)
    except tlc.TlcFailure as e:
        print("MODEL-FAILURE grow_scan %s" % str(e)[:4000])
        return 2
    except RuntimeError as e:
        print("HARNESS-FAILURE grow_scan %s" % str(e)[:4000])
        return 2
    for d in ctx.drift:
        print("DRIFT grow_scan %s" % d)
    for n in ctx.notes:
        if not n.startswith("grow_scan scan config") and not n.startswith("grow_scan raw traffic log differs"):
            print("NOTE %s" % n)
    print(json.dumps({k: cov[k] for k in cov if k not in ("samples", "assumptions", "rule", "parts")}))
    print("PASS grow_scan tier=%s drift=%d wall=%.1fs" % (a.tier, len(ctx.drift), time.time() - t0))
    return 0


if __name__ == "__main__":
    sys.exit(main(sys.argv[1:]))
