"""C14 - adapter framing is decoded exactly and independently of read chunking.

P  = spec/DeviceEnhanced.tla part P: reference decoder written from docs/enhanced_proto.md (no notion of a chunk) and the
     monitor EnhMon around it; spec/Transport.tla part P (TrMon) for the plain byte transport.
S  = spec/DeviceEnhanced.tla part S (EnhRecvF/EnhLoop = EnhancedDevice::recv/handleEnhancedBufferedData ...) and
     spec/Transport.tla part S (ReadF/ConsF).  S => P: MC_DeviceEnhanced (all streams <= 5 bytes x all chunkings), pure TLC.
G  = transition graphs extracted from the REAL EnhancedDevice over a fake transport (harness/c14_enh.cpp, several alphabet
     configurations, each to a fix-point) and from the REAL FileTransport over a socketpair (harness/c14_transport.cpp);
     TLC model-checks the P monitors on them (C14Graph / C14TGraph); seeded random traces over all 256 byte values are
     validated by the same monitors as path graphs.  C14Fid / C14TFid judge every extracted edge against S (drift only).
Verdict: only what a P monitor rejects on G (graph or recorded trace) is a violation; S => P and fidelity inform.
"""
import json
import os
import re
import shutil

from vf import build, recs, graph, core

# (name, harness args, quick?)   sigma: 10/2a plain; c6 RECEIVED, c8 STARTED, e8 FAILED, cc INFO, c0 RESETTED, ec ERROR_EBUS,
# d4 unknown command 5 (first bytes); 80 81 82 85 aa b1 83 second bytes
DEV_CONFIGS = [
    ("symbols",   ["sigma=10,c6,aa,c8,e8", "cap=4", "arb=31,aa", "send=2a,aa,c5"], True),
    ("reset",     ["sigma=10,2a,c0,c8,80", "cap=4", "clk=1", "arb=31,aa", "send=2a,c5", "distinct=1"], True),
    ("malformed", ["sigma=10,d4,80,c6,ec", "cap=4", "arb=31,aa"], True),
    ("info",      ["sigma=10,cc,81,82,c0", "cap=3", "info=00", "arb=31", "distinct=1"], True),
    ("mix8",      ["sigma=10,c6,c8,e8,c0,ec,d4,81", "cap=3", "clk=1", "arb=31,aa", "send=aa", "distinct=1"], True),
    ("symbols9",  ["sigma=10,2a,c6,aa,85,c8,b1,e8,83", "cap=4", "arb=31,aa", "send=2a,aa"], False),
    ("reset6",    ["sigma=10,2a,c0,c8,80,81", "cap=4", "clk=1", "arb=31,aa", "distinct=1"], False),
    ("reset7",    ["sigma=10,2a,c6,c8,e8,c0,81,80", "cap=4", "clk=1", "arb=31,aa", "distinct=1"], False),
    ("info6",     ["sigma=10,cc,81,82,c0,d4", "cap=3", "clk=1", "arb=31,aa", "info=00,03", "send=2a,aa"], False),
    ("mix10",     ["sigma=10,2a,c6,c8,e8,c0,ec,d4,81,aa", "cap=3", "clk=1", "arb=31,aa", "distinct=1"], False),
]

# hand-minimised reproductions of the defects of the pinned tree (informational: replayed and judged, listed in the notes)
CURATED = [
    ("C14:reset-frame-drops-earlier-symbol", "one chunk [10 RESETTED(01)] right after open: the symbol 10 is never delivered "
     "(chunks [10][RESETTED] deliver it)", ["OPEN", "A=10", "A=c0", "A=81", "R", "R"]),
    ("C14:self-reset-close-drops-buffered-bytes", "self-reset RESETTED followed by 10 2A in the same chunk: 10 is delivered, 2A is "
     "flushed by Transport::close", ["OPEN", "A=c0", "A=81", "R", "CLK", "A=c0", "A=81", "A=10", "A=2a", "R", "R"]),
    ("C14:reset-frame-alters-earlier-arbitration-result", "one chunk [STARTED(01) RESETTED(01)] (self-reset): recv returns "
     "(01, as_error) instead of (01, as_won)", ["OPEN", "A=c0", "A=81", "R", "CLK", "A=c8", "A=81", "A=c0", "A=81", "R"]),
]


def _replay(extra, sig):
    for csig, what, ctoks in CURATED:
        if csig == sig:
            extra = dict(extra, minimal_reproduction={"what": what, "tokens": ctoks})
    return extra


# vacuity guard: event classes that must occur in the extracted graphs, otherwise the check's self-assessment fails (exit 2)
NEEDED = {"stray2": b'["ntf","stray2"', "missing2": b'["ntf","missing2"', "unknown": b'["ntf","unknown"', "ebus": b'["ntf","ebus"',
          "reset": b'["ntf","reset"', "info": b'["ntf","info"', "continue": b'["rv",1,', "device-error": b'["rv",3,',
          "close": b'["close"]', "tx-send": b'["call","send"', "tx-info": b'["call","info"', "tx-start": b'["call","start"'}
NEEDED_RE = {"won": rb'\["rv",[01],\d+,6,', "lost": rb'\["rv",[01],\d+,4,', "cancelled": rb'\["rv",\d,\d+,2,',
             "arb-timeout": rb'\["rv",[01],170,5,'}


def _scan(path, seen):
    with open(path, "rb") as f:
        data = f.read()
    for k, pat in NEEDED.items():
        seen[k] = seen.get(k, 0) + data.count(pat)
    for k, pat in NEEDED_RE.items():
        seen[k] = seen.get(k, 0) + len(re.findall(pat, data))


def _cap(args):
    for a in args:
        if a.startswith("cap="):
            return a[4:]
    return "3"


_confirmed = set()


def _confirm(ctx, exe, wd, name, sig, toks, env):
    """rule 5: a rejection is reported only if it reproduces when its token path is re-executed from a fresh object
    (done for the first witness of every signature)"""
    if name != "curated":
        if sig in _confirmed:
            return True
        _confirmed.add(sig)
    toks = [t for t in toks if not t.startswith("T=")]
    tf = "%s/replay-%s.tok" % (wd, name)
    pf = "%s/replay-%s.ndjson" % (wd, name)
    with open(tf, "w") as f:
        f.write("\n".join(toks) + "\n")
    recs.run_harness(ctx, exe, ["replay", pf, tf])
    _, found = graph.check(ctx, "C14Graph", "C14Graph.cfg", pf, env=env, workers=2, heap="2g", tag="C14-confirm-" + name)
    return sig in [s for s, _ in found]


def _device(ctx, exe, wd, cov):
    states = trans = nodes = edges = 0
    per = {}
    drift_nodes = 0
    seen = {}
    for name, args, quick in DEV_CONFIGS:
        if not (quick or ctx.thorough):
            continue
        gf = "%s/g-%s.ndjson" % (wd, name)
        out = recs.run_harness(ctx, exe, ["graph", gf] + args)
        info = json.loads(out.strip().splitlines()[-1])
        _scan(gf, seen)
        env = {"VF_CAP": _cap(args)}
        stats, found = graph.check(ctx, "C14Graph", "C14Graph.cfg", gf, env=env, workers=8, heap="10g", tag="C14-" + name)
        for sig, toks in found:
            if not _confirm(ctx, exe, wd, name, sig, toks, env):
                raise RuntimeError("rejection %s of config %s does not reproduce from its token path %s" % (sig, name, toks))
            ctx.violation(sig, "P monitor (reference decoder) rejects a path of the real EnhancedDevice's transition graph "
                          "(config %s, %d steps)" % (name, len(toks)), _replay({"harness": "c14_enh", "harness_args": args, "tokens": toks}, sig))
        if not info["fixpoint"] and not found:
            raise RuntimeError("no fix-point within maxnodes for config %s and no violation on the partial graph: %s" % (name, info))
        # S fidelity on the same graph (drift only)
        fres, fbad = recs.judge(ctx, "C14Fid", "C14Fid.cfg", gf, workers=8, heap="6g", tag="C14-fid-" + name) if info["fixpoint"] else (None, [])
        if fbad:
            drift_nodes += len(fbad)
            ctx.drift.append("S model of EnhancedDevice differs from the code on %d nodes of config %s (first: node %s edge %s)"
                             % (len(fbad), name, fbad[0][0], fbad[0][1]))
        per[name] = {"graph_nodes": info["nodes"], "graph_edges": info["edges"], "fixpoint": bool(info["fixpoint"]),
                     "product_states": stats["distinct"], "product_transitions": stats["generated"], "tlc_runs": stats["runs"],
                     "signatures": [s for s, _ in found], "s_conforms": not fbad, "harness_args": " ".join(args)}
        states += stats["distinct"]; trans += stats["generated"]; nodes += info["nodes"]; edges += info["edges"]
        ctx.log("device", name, info, stats, [s for s, _ in found], "fidelity-bad=%d" % len(fbad))
        os.remove(gf)
    cov["device_configs"] = per
    cov["event_classes_in_graphs"] = seen
    missing = [k for k, v in seen.items() if v == 0 and k not in ("close", "device-error")]   # a repaired self-reset path need not close
    known = {f["key"] for f in core.load_findings() if f.get("property") == "C14" and f.get("status") == "known"}
    if missing and not [v for v in ctx.violations if v["key"] not in known]:   # a rejected tree may legitimately lack a class
        raise RuntimeError("vacuity: event classes never produced by any extracted graph: %s" % missing)
    cov["device_graph_nodes"] = nodes
    cov["device_graph_edges"] = edges
    return states, trans, drift_nodes == 0


def _device_random(ctx, exe, wd, cov):
    ntr, steps = (1500, 120) if ctx.thorough else (300, 100)
    gf = "%s/random.ndjson" % wd
    out = recs.run_harness(ctx, exe, ["random", gf, ntr, steps])
    info = json.loads(out.strip().splitlines()[-1])
    env = {"VF_CAP": "16"}
    stats, found = graph.check(ctx, "C14Graph", "C14Graph.cfg", gf, env=env, workers=8, heap="10g", tag="C14-random")
    for sig, toks in found:
        if not _confirm(ctx, exe, wd, "random", sig, toks, env):
            raise RuntimeError("rejection %s of a random trace does not reproduce from its token path" % sig)
        ctx.violation(sig, "P monitor (reference decoder) rejects a recorded random trace of the real EnhancedDevice (%d steps)"
                      % len(toks), _replay({"harness": "c14_enh", "tokens": [t for t in toks if not t.startswith("T=")]}, sig))
    fres, fbad = recs.judge(ctx, "C14Fid", "C14Fid.cfg", gf, workers=8, heap="6g", tag="C14-fid-random")
    if fbad:
        ctx.drift.append("S model of EnhancedDevice differs from the code on %d steps of the random traces (first: node %s edge %s)"
                         % (len(fbad), fbad[0][0], fbad[0][1]))
    cov["device_random"] = {"traces": info["traces"], "steps": info["edges"] - info["traces"], "stream_bytes": info["bytes"],
                            "signatures": [s for s, _ in found], "s_conforms": not fbad, "seed": ctx.seed}
    ctx.log("device-random", info, stats, [s for s, _ in found], "fidelity-bad=%d" % len(fbad))
    os.remove(gf)
    return stats["distinct"], stats["generated"], info["traces"]


KNOWN_DESIGN = {"C14:self-reset-close-drops-buffered-bytes":
                "C14-design:self-reset-closes-transport (EnhLoop, self-reset branch: Transport::close flushes the rest of the chunk)"}
PINNED_082 = {"C14:reset-frame-drops-earlier-symbol", "C14:reset-frame-alters-earlier-arbitration-result"}


def _design(ctx, cov):
    """S => P on the bounded model (no code involved): design assurance, defect discovery, vacuity guard of P"""
    cfg = "MC_DeviceEnhanced.cfg" if ctx.thorough else "MC_DeviceEnhanced_quick.cfg"
    stats, found = graph.check(ctx, "MC_DeviceEnhanced", cfg, "/dev/null", env={"VF_CAP": "5"}, workers=8, heap="12g",
                               timeout=1500, tag="C14-mc")
    sigs = [s for s, _ in found]
    notes = [KNOWN_DESIGN[s] for s in sigs if s in KNOWN_DESIGN]
    other = [s for s in sigs if s not in KNOWN_DESIGN]
    cov["design_mc"] = {"cfg": cfg, "states": stats["distinct"], "transitions": stats["generated"], "tlc_runs": stats["runs"],
                        "design_notes": notes, "s_violates_p_otherwise": other, "witnesses": {s: t for s, t in found}}
    for n in notes:
        ctx.notes.append("design note %s: S => P (all streams <= 5 bytes x all chunkings, %d states) is refuted only by it" % (n, stats["distinct"]))
    for s, t in found:
        if s in other:
            ctx.drift.append("S => P: the code-shaped model of EnhancedDevice violates P with %s (witness %s)" % (s, t))
    states, trans = stats["distinct"], stats["generated"]
    if ctx.thorough:
        # for the record and as a vacuity guard of P: the S of the tree before the C14 fixes must be rejected with their signatures
        ostats, ofound = graph.check(ctx, "MC_DeviceEnhanced", "MC_DeviceEnhanced_pinned082.cfg", "/dev/null", env={"VF_CAP": "5"},
                                     workers=8, heap="12g", timeout=1500, tag="C14-mc-old")
        osigs = {s for s, _ in ofound}
        cov["design_mc_pinned082"] = {"states": ostats["distinct"], "transitions": ostats["generated"], "s_violates_p_with": sorted(osigs)}
        if not PINNED_082 <= osigs:
            raise RuntimeError("vacuity: P does not reject the S model of the tree before the C14 fixes with %s (got %s)"
                               % (sorted(PINNED_082), sorted(osigs)))
        states += ostats["distinct"]; trans += ostats["generated"]
    ctx.log("design-mc", stats, sigs)
    return states, trans, set(sigs)


def _curated(ctx, exe, wd, cov):
    res = []
    for sig, what, toks in CURATED:
        ok = _confirm(ctx, exe, wd, "curated", sig, toks, {"VF_CAP": "8"})
        res.append({"signature": sig, "what": what, "tokens": toks, "reproduces_on_this_tree": ok})
    cov["curated_reproductions"] = res
    ctx.log("curated", [(r["signature"], r["reproduces_on_this_tree"]) for r in res])


def _transport(ctx, texe, wd, cov):
    gf = "%s/tg.ndjson" % wd
    out = recs.run_harness(ctx, texe, ["graph", gf])
    info = json.loads(out.strip().splitlines()[-1])
    if info["bufsize"] != 32:
        ctx.notes.append("FileTransport buffer size is %d, not 32" % info["bufsize"])
    stats, found = graph.check(ctx, "C14TGraph", "C14TGraph.cfg", gf, workers=4, heap="4g", tag="C14-tgraph")
    for sig, toks in found:
        ctx.violation(sig, "transport monitor rejects a path of the real FileTransport's fill/consume graph (%d steps)" % len(toks),
                      {"harness": "c14_transport", "tokens": toks})
    if not info["fixpoint"] and not found:
        raise RuntimeError("transport graph: no fix-point and no violation on the partial graph: %s" % info)
    fres, fbad = recs.judge(ctx, "C14TFid", "C14TFid.cfg", gf, workers=4, heap="4g", tag="C14-tfid") if info["fixpoint"] else (None, [])
    if fbad:
        ctx.drift.append("S model of FileTransport (32-byte buffer, overflow when more than 24 bytes are buffered at the next read) "
                         "differs from the code on %d nodes (first: node %s edge %s)" % (len(fbad), fbad[0][0], fbad[0][1]))
    rf = "%s/tr.ndjson" % wd
    steps = 60000 if ctx.thorough else 15000
    rout = recs.run_harness(ctx, texe, ["random", rf, steps])
    rinfo = json.loads(rout.strip().splitlines()[-1])
    rstats, rfound = graph.check(ctx, "C14TGraph", "C14TGraph.cfg", rf, workers=4, heap="4g", tag="C14-trandom")
    for sig, toks in rfound:
        ctx.violation(sig, "transport monitor rejects a recorded long run of the real FileTransport (step %d)" % len(toks),
                      {"harness": "c14_transport", "tokens": toks[-40:], "seed": ctx.seed})
    cov["transport"] = {"graph_nodes": info["nodes"], "graph_edges": info["edges"], "fixpoint": bool(info["fixpoint"]),
                        "product_states": stats["distinct"], "product_transitions": stats["generated"],
                        "signatures": [s for s, _ in found] + [s for s, _ in rfound], "s_conforms": not fbad,
                        "random_steps": rinfo["edges"], "random_stream_bytes": rinfo["bytes"]}
    ctx.log("transport", info, stats, rinfo, rstats, [s for s, _ in found], "fidelity-bad=%d" % len(fbad))
    os.remove(gf); os.remove(rf)
    return stats["distinct"] + rstats["distinct"], stats["generated"] + rstats["generated"]


def _replay_file(ctx, exe, texe):
    """check C14 --replay f: re-execute the recorded token path on the real code and let the monitor judge it"""
    with open(ctx.replay_path) as f:
        rp = json.load(f)
    r = rp["replay"]
    wd = os.path.join(recs.workdir("C14"), "replay-%d" % os.getpid())
    os.makedirs(wd, exist_ok=True)
    toks = (r.get("minimal_reproduction") or r)["tokens"]
    tf, pf = wd + "/r.tok", wd + "/r.ndjson"
    with open(tf, "w") as f:
        f.write("\n".join(toks) + "\n")
    transport = r.get("harness") == "c14_transport"
    recs.run_harness(ctx, texe if transport else exe, ["replay", pf, tf])
    mod = "C14TGraph" if transport else "C14Graph"
    _, found = graph.check(ctx, mod, mod + ".cfg", pf, env={"VF_CAP": "16"}, workers=2, heap="2g", tag="C14-replayfile")
    for sig, t in found:
        ctx.violation(sig, "replayed token path is rejected by the P monitor after %d steps" % len(t), r)
    ctx.coverage = {"states": len(toks) + 1, "transitions": len(toks), "traces_validated_against_impl": 1,
                    "samples": [{"tokens": toks, "signatures": [s for s, _ in found]}]}
    shutil.rmtree(wd, ignore_errors=True)


def run(ctx):
    ctx.level = "model_checking"
    exe = build.build("c14_enh", ["c14_enh.cpp"], ["ebus", "utils_noclock"])
    texe = build.build("c14_transport", ["c14_transport.cpp"], ["ebus", "utils"])
    if getattr(ctx, "replay_path", None):
        return _replay_file(ctx, exe, texe)
    wd = os.path.join(recs.workdir("C14"), str(os.getpid()))   # concurrent runs (mutation tests) do not share files
    os.makedirs(wd, exist_ok=True)
    cov = {}
    s1, t1, conforms = _device(ctx, exe, wd, cov)
    s2, t2, ntraces = _device_random(ctx, exe, wd, cov)
    s3, t3 = _transport(ctx, texe, wd, cov)
    s4, t4, design_sigs = _design(ctx, cov)
    _curated(ctx, exe, wd, cov)
    impl_sigs = {v["key"] for v in ctx.violations}
    if impl_sigs - design_sigs - {s for s in impl_sigs if s.startswith("C14:transport")}:
        ctx.notes.append("signatures rejected on the real code but not on the S model: %s" % sorted(impl_sigs - design_sigs))
    first = next(iter(cov["device_configs"]))
    cov.update({
        "states": s1 + s2 + s3 + s4, "transitions": t1 + t2 + t3 + t4,
        "traces_validated_against_impl": len(cov["device_configs"]) + ntraces + 2,
        "samples": [{"config": first, **cov["device_configs"][first]}] + cov["curated_reproductions"],
        "s_conforms": conforms and not ctx.drift,
        "exhaustive": all(c["fixpoint"] for c in cov["device_configs"].values()) and cov["transport"]["fixpoint"],
        "rule": "states/transitions: products (extracted graph or recorded trace) x P monitor explored by TLC, plus the S => P "
                "model; every device configuration and the transport graph are extracted from the real objects to a fix-point",
    })
    ctx.coverage = cov
    shutil.rmtree(wd, ignore_errors=True)
    ctx.assumptions = [
        "the fake transport has the read semantics of FileTransport (timeout > 0 hands over the buffer only when new bytes arrived; "
        "timeout 0 returns what is buffered); recv is called with timeout 0 exactly after RESULT_CONTINUE, as the protocol handler does",
        "alphabet abstraction per configuration (listed in harness_args), at most cap pending transport bytes in the graphs; "
        "complemented by seeded random traces over all 256 byte values (chunks up to 10 bytes)",
        "visited-key = m_arbitrationMaster, m_arbitrationCheck, reset-window class, m_resetRequested, m_extraFeatures, m_infoLen, "
        "m_infoPos, m_infoBuf[0], transport bytes, last-result-was-CONTINUE; left out: m_infoBuf[1..] and the m_enhInfo* strings "
        "(they only influence the text of 'extra info' notifications, which is not judged)",
        "left open in P: number of 'reset' notifications, position of as_error relative to symbols, info notifications unless the "
        "request was written at a quiescent point, delivery delay after a frame with an unknown command (until the next arrival)",
        "transport: real FileTransport over an AF_UNIX socketpair, content-agnostic stream (bytes identified by their distance "
        "from the write head), writes of 1..33 bytes, at most 40 bytes in flight",
    ]
