"""Shared driver of the codec record checks C05 (decode) and C06 (round trip): runs harness/c05_decode.cpp group by
group, lets TLC judge every shard (records + the family claims of the shard), then the family index of all shards."""
import concurrent.futures as cf
import glob
import hashlib
import json
import os
import time

from vf import build, recs, tlc

# short class codes printed by the judges -> signature keys of the defect classes found on the pinned tree
CODES = {
    "DAYLOFF": "DAY:low-byte-ff",
    "DAY1900": "DAY:pre-1900-03-01",
    "MINLOFF": "MIN:low-byte-ff",
    "YEARFF": "date:year-byte-ff-shown-as-2255",
    "HDAY100": "HDA:year-byte-100-254-shown-as-value",
    "MUL32": "num32:multiplier:float-default-format",
    "F24": "fixed-point:float24-precision",
    "VLUNL": "valuelist:unlisted-number-not-writable",
    "PAIRCTX": "pair:field-text-depends-on-preceding-field",
    "PINOCT": "PIN:leading-zero-parsed-as-octal",
    "MIN24": "time3:minute-24-with-seconds-rejected-on-write",
    "T24SS": "time3:24:00:ss-accepted-on-write",
    "DAYPART": "DAY:partial-null-text-accepted",
    "MINPART": "MIN:partial-null-text-accepted",
}


def groups(ctx):
    pairs = ["pairs"] if ctx.pid == "C05" else []
    g = ["dates.0/2", "dates.1/2", "days", "num34", "times", "num1", "bits", "lists", "tem", "strings"] + pairs
    if ctx.thorough:
        return g[:4] + ["num2.%d/10" % k for k in range(10)] + g[4:]
    return g[:3] + ["num2.0/2", "num2.1/2"] + g[3:]


def _txt(codes):
    try:
        return bytes(codes).decode("latin-1")
    except Exception:
        return str(codes)


def describe(r):
    d = "%s%s" % (r["t"], (":%d" % r["l"]) if r.get("l") else "")
    if r.get("d"):
        d += ",div=%d" % r["d"]
    if r.get("v"):
        d += ",list#%d" % r["v"]
    s = "%s fmt=%d bytes=%s -> rc=%d text=%r" % (d, r.get("f", 0), " ".join("%02x" % x for x in r["b"]), r["rc"], _txt(r["o"]))
    if r.get("f") in (5, 6):
        s = "message of two fields %s%s,div=%d then %s: data=%s -> rc=%d text=%r | first alone rc=%d %r | probe alone rc=%d %r" % (
            r["ft"], (":%d" % r["fl"]) if r["fl"] else "", r["fd"], d, " ".join("%02x" % x for x in r["b"]), r["rc"],
            _txt(r["o"]), r["frc"], _txt(r["fo"]), r["prc"], _txt(r["po"]))
    if "rc2" in r:
        s += " | encode rc=%d bytes=%s | decode rc=%d text=%r | encode rc=%d bytes=%s" % (
            r["rc2"], " ".join("%02x" % x for x in r["b2"]), r["rc3"], _txt(r["o3"]), r["rc4"],
            " ".join("%02x" % x for x in r["b4"]))
    if "x" in r:
        s = "%s text=%r -> encode rc=%d bytes=%s | decode rc=%d text=%r | encode rc=%d bytes=%s" % (
            d, _txt(r["x"]), r["rc2"], " ".join("%02x" % x for x in r["b2"]), r["rc3"], _txt(r["o3"]), r["rc4"],
            " ".join("%02x" % x for x in r["b4"]))
    return s


def generic_key(pid, r, kind):
    if pid == "C05":
        what = {"val": "wrong-text" if r["rc"] == 0 else "valid-pattern-rejected",
                "listed": "wrong-text" if r["rc"] == 0 else "valid-pattern-rejected",
                "null": "replacement-not-null", "nullval": "replacement-not-null",
                "err": "invalid-pattern-shown-as-value", "errnull": "invalid-pattern-shown-as-value",
                "lenient": "invalid-pattern-shown-as-value", "errval": "wrong-text", "empty": "ignored-field-shown",
                "strsub": "wrong-text"}.get(kind, kind)
    else:
        what = kind
    if r.get("f") in (5, 6):
        return "%s:pair:%s-then-%s%s:%s" % (pid, r["ft"], r["t"], "+json" if r["f"] == 6 else "", what)
    t = r["t"] + ("+div" if r.get("d") else "") + ("+list" if r.get("v") else "") + ("+json" if r.get("f") in (1, 4) else "")
    return "%s:%s:%s" % (pid, t, what)


def pick_lines(path, idxs):
    want = set(idxs)
    out = {}
    with open(path) as f:
        for n, line in enumerate(f, 1):
            if n in want:
                out[n] = json.loads(line)
                if len(out) == len(want):
                    break
    return out


def run_codec_check(ctx, pid, mode, judge, extra=None):
    """extra: optional callable(ctx, exe, wd, judge_shard) for additional (TLC generated) record files."""
    ctx.level = "exploration"
    # thorough: ASan/UBSan build (a sanitizer report aborts the harness => machinery failure, never a silent pass)
    flags = ("-fsanitize=address,undefined", "-fno-sanitize-recover=all") if ctx.thorough else ()
    henv = {"ASAN_OPTIONS": "detect_leaks=0"}        # the harness keeps its definitions alive until exit
    exe = build.build("c05_decode", ["c05_decode.cpp"], ["ebus", "utils"], extra_flags=flags)
    # own work directory per (property, tier, source tree): concurrent runs (e.g. mutants) do not disturb each other
    uniq = "%s-%s-%s" % (pid, ctx.tier, hashlib.sha1(build.REPO.encode()).hexdigest()[:6])
    wd = recs.workdir(uniq)
    for f in glob.glob(wd + "/g_*"):
        os.remove(f)
    stats = {"records": 0, "distinct": 0, "open": 0, "states": 0, "fams": 0, "shards": 0, "tlc_s": 0.0}
    fam_lines = []
    samples = []
    by_group = {}
    conc = 3
    workers = 5

    def judge_shard(sp, idx, tag, tier=None):
        res, bad = recs.judge(ctx, judge, judge + ".cfg", sp, workers=workers, heap="7g", timeout=1700,
                              env={"VF_FAMS": idx, "VF_TIER": tier or ctx.tier}, tag=tag)
        for v in res["vf"]:
            if len(v) >= 3 and v[1] == "INCOMPLETE":
                raise tlc.TlcFailure("incomplete enumeration: %s" % (v,))
        nopen = sum(v[2] for v in res["vf"] if len(v) >= 3 and v[1] == "OPEN")
        if bad:
            got = pick_lines(sp, [b[0] for b in bad])
            for idxn, sig in bad:
                r = got[idxn]
                kind, code = (sig + ["-", "-"])[:2] if isinstance(sig, list) else ("?", "-")
                key = ("%s:%s" % (pid, CODES[code])) if code in CODES else generic_key(pid, r, kind)
                what = ("oracle expects '%s'; real code: %s" if pid == "C05" else "round trip clause %s violated: %s") % (kind, describe(r))
                ctx.violation(key, what, r)
        return res, nopen

    if ctx.replay_path:
        # re-run exactly the recorded input(s) on the tree as it is now and let TLC judge the fresh record(s)
        with open(ctx.replay_path) as f:
            rp = json.load(f)
        one = os.path.join(wd, "replay_in.ndjson")
        with open(one, "w") as f:
            f.write(json.dumps(rp["replay"], separators=(",", ":")) + "\n")
        prefix = os.path.join(wd, "g_replay")
        recs.run_harness(ctx, exe, [prefix, "replay", mode, "replay", one], env=henv)
        res, nopen = judge_shard(prefix + ".000.ndjson", prefix + ".000.idx", uniq + "-replay", tier="replay")
        stats["records"] = stats["distinct"] = 1
        return stats, [rp["replay"]], {}

    def do_group(g):
        t0 = time.time()
        prefix = os.path.join(wd, "g_" + g.replace("/", "of"))
        recs.run_harness(ctx, exe, [prefix, ctx.tier, mode, g], env=henv)
        shards = sorted(glob.glob(prefix + ".*.ndjson"))
        n = 0
        for sp in shards:
            idx = sp[:-len(".ndjson")] + ".idx"
            with open(idx) as f:
                fl = [l for l in f if l.strip()]
            res, nopen = judge_shard(sp, idx, "%s-%s" % (uniq, os.path.basename(sp)))
            with open(sp) as f:      # a record from the middle of the shard as a sample of what was explored
                f.seek(os.path.getsize(sp) // 2 + 7919 * len(samples))
                f.readline()
                mid = f.readline() or "{}"
            fam_lines.extend(fl)
            if len(samples) < 12 and mid.strip().startswith("{\"t\""):
                samples.append(json.loads(mid))
            for l in fl:
                h = json.loads(l)
                stats["records"] += h["n"]
                stats["distinct"] += h["u"]
                n += h["n"]
            stats["open"] += nopen
            stats["states"] += res["distinct"]
            stats["shards"] += 1
            stats["tlc_s"] += res["wall_s"]
            os.remove(sp)
        by_group[g] = {"records": n, "wall_s": round(time.time() - t0, 1)}
        ctx.log("group %s: %d records, %.1fs" % (g, n, time.time() - t0))

    with cf.ThreadPoolExecutor(max_workers=conc) as ex:
        for fut in [ex.submit(do_group, g) for g in groups(ctx)]:
            fut.result()
    if extra:
        extra(ctx, exe, wd, judge_shard, stats, samples, uniq)
    # coverage of the type table across all shards
    allidx = os.path.join(wd, "all.idx")
    with open(allidx, "w") as f:
        f.writelines(fam_lines)
    try:
        res = tlc.run("CodecIndex", "CodecIndex.cfg", env={"VF_FAMS": allidx, "VF_TIER": ctx.tier, "VF_MODE": mode},
                      workers=1, timeout=300, heap="2g", tag=uniq + "-index")
    except tlc.TlcFailure as e:
        miss = [l for l in str(e).splitlines() if "MISSING" in l]
        raise tlc.TlcFailure("family index incomplete: %s\n%s" % (miss, str(e)[-1500:]))
    stats["fams"] = len(fam_lines)
    return stats, samples, by_group
