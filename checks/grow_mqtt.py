"""Growth check: the MQTT data handler (src/ebusd/mqtthandler.cpp, datahandler.cpp, the sink feed of MainLoop::run) - no listed
property; never a VIOLATION.

P = spec/MqttHandler.tla part P: a monitor over observables (events of a session; what the handler asked its MQTT client to publish /
subscribe; every telegram on the bus; poll priorities), written from the documentation that is in the repository (`--help` texts of the
mqtt options, ChangeLog.md, contrib/etc/ebusd/mqtt-integration.cfg / mqtt-hassio.cfg, interface comments of datahandler.h /
mqttclient.h).  S = part S: the handler as coded, with a set FIX of corrections.
(0) spec/MC_MqttHandler: TLC explores S in lock-step with the monitor over every event sequence up to 3 (4) events from a 16-letter
    alphabet in 8 small worlds: S(all corrections) => P must hold, S(as coded) must be rejected; thorough: leaving out any single
    correction must be rejected as well (each documented-vs-coded difference is reachable at design level).
(1) spec/MqttGen emits worlds (2 message families x option sets) and sessions; harness/grow_mqtt.cpp replays them on the REAL MqttHandler
    inside the in-process daemon of harness/c16_daemon.h.  The harness is linked WITHOUT mqttclient.cpp / mqttclient_mosquitto.cpp and
    supplies `MqttClient::create` (fake client: records publish/subscribe, injects incoming topics and connection state, steps the real
    run() loop one iteration at a time); one forked process per session.
(2) spec/MqttJudge: TLC judges every record with the monitor (classes of disagreement with the documentation, each with count and a
    minimal witness) and compares it with S as coded (DRIFT).
`run_growth(ctx)` returns a coverage dict and appends its findings to ctx.drift as "GROWTH mqtt: ..." notes; `run(ctx)` makes it
runnable on its own (bin/check grow_mqtt).  The classes the pinned tree shows are listed in BASELINE: they are by-catch for the lead
to judge; a class that is not in BASELINE is reported as NEW."""
import concurrent.futures as cf
import hashlib
import os
import subprocess
import sys
import time

from vf import build, recs, tlc

# the daemon without main.cpp and WITHOUT the mosquitto client: harness/grow_mqtt.cpp supplies MqttClient::create (mock seam)
EBUSD_NO_MQTTCLIENT = [s for s in build.GROUPS["ebusd"] if "mqttclient" not in s]
SRC_GROUPS = ["ebus", "utils_noclock", "knx"]

ALL_FIXES = ["version-flags", "empty-qos", "changed-window", "publish-once", "scan-connected", "short-keys", "global-prefix",
             "set-needs-write", "store-after-send", "match-all", "global-def-field"]

# classes of disagreement between the documented behaviour and the pinned code (what each means); by-catch, not violations
BASELINE = {
    "qos-differs-from-mqttqos:version": "global/version is published with qos 1 and not retained: notifyMqttStatus passes `true` in the qos "
                                        "position of MqttClient::publishTopic(topic, data, qos, retain) (--mqttqos: 'for all topics')",
    "retain:global-not-retained:version": "same call: with --mqttretain ('retain all topics') global/version is still not retained",
    "qos-differs-from-mqttqos:message-without-data": "publishEmptyTopic always uses qos 0 (--mqttqos: 'for all topics')",
    "payload:json-short": "--mqttjson=short ('value directly below field key') uses the field index as key (\"0\":21) although the field is "
                          "named (mqtt-integration.cfg: the field name is the key for JSON objects unless missing or not unique)",
    "connect:running-not-published": "--mqttglobal=gl/ ('use TOPIC for global data', default 'global/' is a prefix): without %name in it every "
                                     "global item collapses to the topic itself and only `running` is published (on 'gl/')",
    "publish-to-undocumented-topic": "same: `running` is published on the bare --mqttglobal text",
    "publish-while-disconnected": "the scan status is published from the main loop's thread while the broker connection is down",
    "republished-after-request-answer": "the answer of a /get or /set is published at once and a second time when the main loop reports the "
                                        "same update (one update, two publishes)",
    "republished-without-new-update": "an update that arrives between the sink feed and the handler's flush is published with the earlier "
                                      "notification and again with its own (and after topics with trailing text, see below)",
    "update-not-published": "--mqttchanges: a change is lost when the message is updated again (unchanged) in the next second before the "
                            "main loop's sink feed ran: `changed` is judged against the start of a window the change never was in; also: a "
                            "telegram of a message forgets the pending update of its read/write pendant of the same name (invalidateCache)",
    "request:nothing:set-on-message-without-write-definition:unexpected-publish": "/set on a name that only has a passive definition "
                                                                                   "re-publishes the passive value (no write happens)",
    "value-of-a-set-that-was-never-sent-is-published": "/set without bus signal: nothing is sent, yet the value is stored by prepareMaster and "
                                                       "published as if it had been written",
    "request:nothing:get-unknown-message:unexpected-telegram": "topic template with text behind %name: trailing topic levels are ignored "
                                                                "(hp/ca_two/x/b/get reads ca/two)",
    "poll-priority": "same: the poll priority of that message is set",
    "definition:global:field-variable-not-set": "integration file with def_global-topic = %prefixn/config/global/%FIELD as in the shipped "
                                                "mqtt-integration.cfg: %field is not set for the global items, all six definitions go to the one "
                                                "topic .../config/global/ (mqtt-hassio.cfg uses %TOPIC instead)",
    "definition:global:missing": "same: no global item gets a definition topic of its own",
}


def build_harness():
    """like build.build, with an own source list (lib/vf/build.py is not edited)"""
    flags = list(build.BASE_FLAGS)
    srcs = [os.path.join(build.VERIF, "harness", "grow_mqtt.cpp")]
    srcs += [os.path.join(build.REPO, s) for s in EBUSD_NO_MQTTCLIENT]
    for g in SRC_GROUPS:
        srcs += [os.path.join(build.REPO, s) for s in build.GROUPS[g]]
    with cf.ThreadPoolExecutor(max_workers=int(os.environ.get("VERIF_JOBS", "16"))) as ex:
        objs = list(ex.map(lambda s: build._compile(s, flags), srcs))
    lk = hashlib.sha256(" ".join(objs).encode()).hexdigest()[:16]
    bindir = os.path.join(build.BUILD, "bin")
    os.makedirs(bindir, exist_ok=True)
    exe = os.path.join(bindir, "grow_mqtt-%s" % lk)
    if not os.path.exists(exe):
        tmp = exe + ".%d.tmp" % os.getpid()
        cmd = ["g++", "-pthread"] + objs + ["-o", tmp, "-lssl", "-lcrypto", "-lpthread", "-lrt"]
        r = subprocess.run(cmd, capture_output=True, text=True)
        if r.returncode != 0:
            sys.stderr.write("LINK FAILED: %s\n%s\n" % (" ".join(cmd)[:2000], r.stderr[-4000:]))
            raise SystemExit(2)
        os.replace(tmp, exe)
    return exe


def vf_lines(out):
    """PrintT values wider than a line are wrapped by TLC: collect from a line starting with << "VF" until the brackets balance"""
    res, cur, depth = [], None, 0
    for line in out.splitlines():
        t = line.strip()
        if cur is None:
            if t.startswith('<<"VF"') or t.startswith('<< "VF"'):
                cur, depth = "", 0
            else:
                continue
        cur += " " + t
        depth += t.count("<<") + t.count("{") + t.count("[") - t.count(">>") - t.count("}") - t.count("]")
        if depth <= 0:
            res.append(tlc.parse_tla_value(cur.strip()))
            cur = None
    return res


def _txt(c):
    return "".join(chr(x) for x in c)


def _cls(c):
    return ":".join(x if isinstance(x, str) else _txt(x) for x in c if x != "")


def _ev(e):
    if e["e"] == "T":
        return "+%ds" % e["n"]
    if e["e"] == "U":
        return "bus:m%d=%s" % (e["m"], e["v"])
    if e["e"] == "R":
        return "client-read:m%d" % e["m"]
    if e["e"] == "I":
        return "mqtt-in:base%d/%s%s%s" % (e["b"], _txt(e["d"]), _txt(e["a"]), (" '" + _txt(e["pl"]) + "'") if e["pl"] else "")
    return {"F": "feed", "M": "iterate", "D": "broker-down", "B": "broker-up"}.get(e["e"], e["e"])


def _outs(o):
    r = []
    for x in o["outs"]:
        if x["k"] == "bus":
            r.append("tg %s/%s" % (bytes(x["t"]).hex(), bytes(x["p"]).hex()))
        elif x["k"] == "run":
            r.append("client.run %d>%d%s" % (x["r"], x["q"], " connack" if x["e"] else ""))
        elif x["k"] == "pub":
            r.append("pub %s=%r%s%s" % (_txt(x["t"]), _txt(x["p"])[:60], " retain" if x["r"] else "", (" qos%d" % x["q"]) if x["q"] else ""))
        elif x["k"] == "in":
            r.append("deliver %s" % _txt(x["t"]))
        else:
            r.append("%s %s" % (x["k"], _txt(x["t"])))
    return "; ".join(r)


def _witness(w, s, r, k):
    k = max(1, min(k, len(s["ev"])))
    steps = ["%s%s" % (_ev(e), (" -> " + _outs(o)) if o["outs"] else "") for e, o in zip(s["ev"][:k], r["o"][1:k + 1])]
    return {"options": " ".join(_txt(a) for a in w["args"][2:]) or "(defaults)", "no_signal": w["nosig"], "broker_down_at_start": w["brokerdown"],
            "event": k, "steps": steps}


def _mc_cfg(wd, name, depth, fix, show, wsel="{1, 2, 3, 4, 5, 6, 7, 8}"):
    path = os.path.join(wd, name + ".cfg")
    with open(path, "w") as f:
        f.write("INIT Init\nNEXT Next\n%sINVARIANT McOk\nCONSTANT DEPTH = %d\nCONSTANT WSEL = %s\nCONSTANT MCHIST = FALSE\nCONSTANT FIX = {%s}\n"
                % ("INVARIANT McShow\n" if show else "", depth, wsel, ", ".join('"%s"' % x for x in fix)))
    return path


def run_growth(ctx):
    t00 = time.time()
    wt = os.environ.get("VERIF_WORKTAG", "")
    wd = recs.workdir("GROWMQTT" + wt)
    tier = ctx.tier
    jobs = int(os.environ.get("VERIF_JOBS_MQTT", "8"))
    exe = build_harness()
    notes = []

    # ---- (0) S => P at design level -------------------------------------------------------------------------------------
    depth = 4 if ctx.thorough else 3
    mc = tlc.run("MC_MqttHandler", _mc_cfg(wd, "mc-doc", depth, ALL_FIXES, False), workers=jobs, timeout=1500, heap="8g", tag="GROWMQTT" + wt + "-mc")
    if mc["violated"]:
        raise tlc.TlcFailure("MqttHandler: S(all corrections) => P does not hold (model or oracle wrong):\n" + mc["out"][-2500:])
    mcp = tlc.run("MC_MqttHandler", _mc_cfg(wd, "mc-pinned", 2, [], True), workers=2, timeout=600, heap="4g", tag="GROWMQTT" + wt + "-mcp")
    pinned_rejected = "McOk" in mcp["violated"]
    if not pinned_rejected:
        notes.append("the handler as modelled from the code (S, no corrections) is now accepted by the monitor at design level")
    needed = {}
    if ctx.thorough:
        for fx in ALL_FIXES:
            # changed-window needs 4 events (update, tick, same update, feed) in the --mqttchanges world; the others show within 3
            d, ws = (4, "{2}") if fx == "changed-window" else (3, "{1, 2, 3, 4, 5, 6, 7, 8}")
            r1 = tlc.run("MC_MqttHandler", _mc_cfg(wd, "mc-wo", d, [x for x in ALL_FIXES if x != fx], True, ws), workers=jobs, timeout=900, heap="6g",
                         tag="GROWMQTT" + wt + "-mcw")
            cls = sorted({_cls(c) for v in vf_lines(r1["out"]) if v[1] == "CLS" for c in v[2]})
            needed[fx] = cls
            if "McOk" not in r1["violated"]:
                raise tlc.TlcFailure("MqttHandler: S without the correction '%s' is accepted by the monitor (vacuous clause?)" % fx)
    ctx.log("mqtt: S(corrected) => P: %d states, %d transitions at depth %d; S(as coded) %s (%.1fs)"
            % (mc["distinct"], mc["generated"], depth, "rejected by P" if pinned_rejected else "accepted", time.time() - t00))

    # ---- (1) generated sessions on the real handler ---------------------------------------------------------------------
    t0 = time.time()
    wf, sf, rf, pf = wd + "/worlds.ndjson", wd + "/sessions.ndjson", wd + "/recs.ndjson", wd + "/pairs.ndjson"
    gen = tlc.run("MqttGen", "MqttGen.cfg", env={"VF_TIER": tier, "VF_WORLDS": wf, "VF_SESSIONS": sf}, workers=1, timeout=900, heap="6g",
                  tag="GROWMQTT" + wt + "-gen")
    if not [v for v in gen["vf"] if v[1] == "GEN"]:
        raise tlc.TlcFailure("MqttGen printed no GEN line:\n" + gen["out"][-1500:])
    worlds, sessions = recs.read_ndjson(wf), recs.read_ndjson(sf)
    hd = wd + "/h"
    os.makedirs(hd, exist_ok=True)
    try:
        recs.run_harness(ctx, exe, ["run", rf, wf, sf, hd, jobs], timeout=1500)
    except RuntimeError as e:
        ctx.drift.append("GROWTH mqtt: the harness could not replay the generated sessions on the real handler: " + str(e)[-600:])
        return {"crashed": True}
    rr = recs.read_ndjson(rf)
    t_h = time.time() - t0

    # ---- (2) TLC judges ---------------------------------------------------------------------------------------------------
    t1 = time.time()
    with open(pf, "w") as f:
        for r in rr:
            f.write('{"w":%d,"s":%d}\n' % (r["w"], r["s"]))
    shards = recs.split_file(rf, 6000)
    vfs, states, trans = [], 0, 0
    off = 0
    for sh in shards:
        res = tlc.run("MqttJudge", "MqttJudge.cfg", env={"VF_TIER": tier, "VF_WORLDS": wf, "VF_SESSIONS": sf, "VF_RECS": sh, "VF_PAIRS": pf},
                      workers=jobs, timeout=1500, heap="8g", cont=True, tag="GROWMQTT" + wt + "-j")
        n = sum(1 for _ in open(sh))
        for v in vf_lines(res["out"]):
            if v[1] in ("BAD", "DRIFT"):
                v[2] += off
                vfs.append(v)
        if res["violated"] and not [v for v in vfs if v[1] == "BAD"]:
            raise tlc.TlcFailure("MqttJudge: invariant violated without BAD line:\n" + res["out"][-2500:])
        states += res["distinct"]
        trans += res["generated"]
        off += n
    classes = {}
    crashed = 0
    for v in vfs:
        if v[1] != "BAD":
            continue
        idx, k, c = v[2], v[3], _cls(v[4])
        r = rr[idx - 1]
        if "crash" in r:
            crashed += 1
        e = classes.setdefault(c, {"count": 0, "worlds": set(), "w": None})
        e["count"] += 1
        e["worlds"].add(r["w"])
        rank = (len(sessions[r["s"] - 1]["ev"]), k, idx)
        if e["w"] is None or rank < e["w"][0]:
            e["w"] = (rank, idx, k)
    drift = [v for v in vfs if v[1] == "DRIFT"]
    nev = sum(len(r["o"]) - 1 for r in rr)
    npub = sum(1 for r in rr for o in r["o"] for x in o["outs"] if x["k"] == "pub")
    ntg = sum(1 for r in rr for o in r["o"] for x in o["outs"] if x["k"] == "bus")
    distinct = {(r["w"], tuple((tuple(x["t"]), tuple(x["p"]), x["r"], x["q"]) for x in o["outs"] if x["k"] in ("pub", "bus", "sub")))
                for r in rr for o in r["o"] if o["outs"]}
    found = {}
    for c, e in sorted(classes.items()):
        _, idx, k = e["w"]
        r = rr[idx - 1]
        wit = _witness(worlds[r["w"] - 1], sessions[r["s"] - 1], r, k)
        found[c] = {"count": e["count"], "worlds": len(e["worlds"]), "baseline": c in BASELINE, "meaning": BASELINE.get(c, ""), "witness": wit}
        ctx.drift.append("GROWTH mqtt: %s%d sessions (%d worlds) disagree with the documentation [%s]%s, e.g. with %s: %s"
                         % ("" if c in BASELINE else "NEW: ", e["count"], len(e["worlds"]), c, (" = " + BASELINE[c]) if c in BASELINE else "",
                            wit["options"], " | ".join(wit["steps"])[:700]))
    for c in sorted(set(BASELINE) - set(classes)):
        ctx.drift.append("GROWTH mqtt: GONE: the class [%s] of the baseline no longer occurs (%s)" % (c, BASELINE[c][:120]))
    if drift:
        byk = sorted(drift, key=lambda v: (len(sessions[rr[v[2] - 1]["s"] - 1]["ev"]), v[3]))
        idx, k = byk[0][2], byk[0][3]
        r = rr[idx - 1]
        wit = _witness(worlds[r["w"] - 1], sessions[r["s"] - 1], r, k)
        ctx.drift.append("GROWTH mqtt: %d sessions differ from the handler as modelled (S), first at event %d with %s: %s"
                         % (len(drift), k, wit["options"], " | ".join(wit["steps"])[:700]))
    if crashed:
        ctx.drift.append("GROWTH mqtt: the daemon process died in %d sessions" % crashed)
    for n in notes:
        ctx.drift.append("GROWTH mqtt: " + n)
    ctx.log("mqtt: %d worlds, %d sessions -> %d records (%d events, %d publishes, %d telegrams; harness %.1fs) judged in %.1fs: %d classes "
            "(%d not in the baseline), %d records differ from S" % (len(worlds), len(sessions), len(rr), nev, npub, ntg, t_h, time.time() - t1,
                                                                   len(classes), len([c for c in classes if c not in BASELINE]), len(drift)))
    sample = rr[len(rr) // 2]
    return {
        "states": mc["distinct"] + states, "transitions": mc["generated"] + trans,
        "traces_validated_against_impl": len(rr), "events_replayed": nev, "publishes_judged": npub, "telegrams_judged": ntg,
        "distinct_nontrivial": len(distinct), "rule": "distinct (world, outputs of one event) with at least one publish/subscribe/telegram",
        "evaluations": nev, "worlds": len(worlds), "sessions": len(sessions),
        "mc": {"S_corrected_implies_P": True, "depth": depth, "states": mc["distinct"], "transitions": mc["generated"],
               "S_as_coded_rejected_by_P": pinned_rejected, "class_when_a_correction_is_left_out": needed},
        "documentation_disagreements": found, "new_classes": sorted(c for c in classes if c not in BASELINE),
        "gone_classes": sorted(set(BASELINE) - set(classes)),
        "s_conforms": not drift, "s_drift_records": len(drift),
        "sample": _witness(worlds[sample["w"] - 1], sessions[sample["s"] - 1], sample, len(sessions[sample["s"] - 1]["ev"])),
        "wall_s": round(time.time() - t00, 1),
    }


def run(ctx):
    """stand-alone entry (bin/check grow_mqtt): same work, the coverage dict becomes the evidence"""
    ctx.level = "model_checking"
    cov = run_growth(ctx)
    cov.setdefault("samples", [cov.pop("sample", None)])
    ctx.coverage = cov
    ctx.assumptions = ["growth check: no listed property; disagreements with the documentation are drift notes, nothing here is a violation",
                       "the MQTT client is a fake (mock seam MqttClient::create) whose contract follows MqttClientMosquitto: CONNACK, incoming "
                       "messages and connection loss are delivered from inside run()",
                       "one handler loop iteration per step; time() is virtual; no wall-clock enters a verdict"]
