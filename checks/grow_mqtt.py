"""Growth check: the MQTT data handler (src/ebusd/mqtthandler.cpp, datahandler.cpp) - no listed property; never a VIOLATION.
(work in progress: build helper)"""
import concurrent.futures as cf
import hashlib
import json
import os
import subprocess
import sys
import time

from vf import build, recs, tlc

# the daemon without main.cpp and WITHOUT the mosquitto client: harness/grow_mqtt.cpp supplies MqttClient::create (mock seam)
EBUSD_NO_MQTTCLIENT = [s for s in build.GROUPS["ebusd"] if "mqttclient" not in s]
SRC_GROUPS = ["ebus", "utils_noclock", "knx"]


def build_harness():
    """like build.build, with an own source list (lib/vf/build.py is not edited)"""
    flags = list(build.BASE_FLAGS)
    srcs = [os.path.join(build.VERIF, "harness", "grow_mqtt.cpp")]
    srcs += [os.path.join(build.REPO, s) for s in EBUSD_NO_MQTTCLIENT]
    for g in SRC_GROUPS:
        srcs += [os.path.join(build.REPO, s) for s in build.GROUPS[g]]
    with cf.ThreadPoolExecutor(max_workers=int(os.environ.get("VERIF_JOBS", "16"))) as ex:
        objs = list(ex.map(lambda s: build._compile(s, flags), srcs))
    lk = hashlib.sha256(" ".join(objs).encode()).hexdigest()[:16]
    bindir = os.path.join(build.BUILD, "bin")
    os.makedirs(bindir, exist_ok=True)
    exe = os.path.join(bindir, "grow_mqtt-%s" % lk)
    if not os.path.exists(exe):
        tmp = exe + ".%d.tmp" % os.getpid()
        cmd = ["g++", "-pthread"] + objs + ["-o", tmp, "-lssl", "-lcrypto", "-lpthread", "-lrt"]
        r = subprocess.run(cmd, capture_output=True, text=True)
        if r.returncode != 0:
            sys.stderr.write("LINK FAILED: %s\n%s\n" % (" ".join(cmd)[:2000], r.stderr[-4000:]))
            raise SystemExit(2)
        os.replace(tmp, exe)
    return exe


if __name__ == "__main__":
    print(build_harness())
