"""C01 - passive reception reports exactly the valid telegrams.
P = RecvMon (spec/BusMonitors.tla, reference telegram parser); G = transition graph of the real DirectProtocolHandler
extracted to fix-point by harness/proto.cpp; TLC model-checks RecvMon on G (spec/ProtoGraph.tla)."""
from checks import proto_common as pc

QUICK = [
    ("plain-nn1", ["submit=0", "nn=1", "snn=1"]),
]
THOROUGH = QUICK + [
    ("plain-nn2", ["submit=0", "nn=2", "snn=2", "qq=03,15", "zz=fe,03,15,36"]),
]


def run(ctx):
    pc.run_configs(ctx, "C01", "r", THOROUGH if ctx.thorough else QUICK)
