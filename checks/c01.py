"""C01 - passive reception reports exactly the valid telegrams.
P = RecvMon (spec/BusMonitors.tla, reference telegram parser); G = transition graph of the real DirectProtocolHandler
extracted to fix-point by harness/proto.cpp; TLC model-checks RecvMon on G (spec/ProtoGraph.tla)."""
from checks import proto_common as pc

QUICK = [
    ("plain-nn1", ["submit=0", "nn=1", "snn=1"]),
    ("enh-nn1", ["enhanced=1", "submit=0", "nn=1", "snn=1", "qq=03,15", "zz=fe,03,15"]),
    ("plain-escqq", ["submit=0", "nn=0", "snn=0", "escqq=1", "qq=03", "zz=fe,15"]),
    ("plain-chunk2", ["chunk2=1", "submit=0", "nn=1", "snn=1", "qq=03,15", "zz=fe,03,15"]),
    ("enh-split", ["enhanced=1", "chunk2=1", "enhsplit=1", "submit=0", "nn=1", "snn=1", "qq=03", "zz=fe,15,03"]),
    ("plain-answer-conflict", ["answer=1", "ans=aa:36:b509:-:00", "submit=0", "nn=0", "snn=0", "qq=03,31", "zz=fe,36,31,15"]),
]
THOROUGH = QUICK + [
    ("plain-nn2", ["submit=0", "nn=2", "snn=2", "qq=03,15", "zz=fe,03,15,36", "maxnodes=1500000"]),
    ("enh-long-nn1", ["enhanced=1", "enhlong=1", "submit=0", "nn=1", "snn=1", "qq=03,71,15", "zz=fe,03,15,36"]),
    ("plain-readonly", ["readonly=1", "submit=0", "nn=1", "snn=1", "qq=03", "zz=fe,15,03"]),
    ("plain-gensyn", ["gensyn=1", "submit=0", "nn=1", "snn=0", "qq=03", "zz=fe,15"]),
    ("plain-lock0-keyseen", ["submit=0", "lock=0", "keyseen=1", "nn=0", "snn=0", "qq=03,71", "zz=fe,03"]),
]


def run(ctx):
    n = 400000 if ctx.thorough else 40000
    rnd = [("rnd-plain", n, ["req=0:3115b50900", "buslost=1"]), ("rnd-enh", n, ["enhanced=1", "req=0:3115b50900", "buslost=1"])]
    pc.run_configs(ctx, "C01", "r", THOROUGH if ctx.thorough else QUICK, random_runs=rnd,
                   spec_fidelity=[("S:plain-nn1", ["submit=0", "nn=1", "snn=1"], 8)], spec_mc=True)
