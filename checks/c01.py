"""C01 - passive reception reports exactly the valid telegrams.
P = RecvMon (spec/BusMonitors.tla, reference telegram parser); G = transition graph of the real DirectProtocolHandler
extracted to fix-point by harness/proto.cpp; TLC model-checks RecvMon on G (spec/ProtoGraph.tla)."""
from checks import proto_common as pc

QUICK = [
    ("plain-nn1", ["submit=0", "nn=1", "snn=1"]),
    ("enh-nn1", ["enhanced=1", "submit=0", "nn=1", "snn=1", "qq=03,15", "zz=fe,03,15"]),
    ("plain-escqq", ["submit=0", "nn=0", "snn=0", "escqq=1", "qq=03", "zz=fe,15"]),
    ("plain-chunk2", ["chunk2=1", "submit=0", "nn=1", "snn=1", "qq=03,15", "zz=fe,03,15"]),
    ("enh-split", ["enhanced=1", "chunk2=1", "enhsplit=1", "submit=0", "nn=1", "snn=1", "qq=03", "zz=fe,15,03"]),
    ("enh-ctl", ["enhanced=1", "enhctl=1", "submit=0", "nn=1", "snn=1", "qq=03", "zz=fe,15,03"]),
    ("plain-answer-conflict", ["answer=1", "ans=aa:36:b509:-:00", "submit=0", "nn=0", "snn=0", "qq=03,31", "zz=fe,36,31,15"]),
]
THOROUGH = QUICK + [
    ("plain-nn2", ["submit=0", "nn=2", "snn=2", "qq=03,15", "zz=fe,03,15,36", "maxnodes=1500000"]),
    ("enh-long-nn1", ["enhanced=1", "enhlong=1", "submit=0", "nn=1", "snn=1", "qq=03,71,15", "zz=fe,03,15,36"]),
    ("plain-readonly", ["readonly=1", "submit=0", "nn=1", "snn=1", "qq=03", "zz=fe,15,03"]),
    ("plain-gensyn", ["gensyn=1", "submit=0", "nn=1", "snn=0", "qq=03", "zz=fe,15"]),
    ("plain-lock0-keyseen", ["submit=0", "lock=0", "keyseen=1", "nn=0", "snn=0", "qq=03,71", "zz=fe,03"]),
]


def run(ctx):
    if getattr(ctx, "replay_path", None):
        return pc.replay(ctx, "C01", "r")
    n = 400000 if ctx.thorough else 40000
    rnd = [("rnd-plain", n, ["req=0:3115b50900", "buslost=1"]), ("rnd-enh", n, ["enhanced=1", "req=0:3115b50900", "buslost=1"])]
    pc.run_configs(ctx, "C01", "r", THOROUGH if ctx.thorough else QUICK, random_runs=rnd,
                   spec_fidelity=[("S:plain-nn1", ["submit=0", "nn=1", "snn=1"], 8)], spec_mc=True)
    telegram_lemma(ctx)


def telegram_lemma(ctx):
    """P-internal lemma (no code involved): the incremental reference parser RecvMon accepts exactly the language of the
    declarative telegram grammar (spec/EbusTelegram.tla) on well-formed telegrams of every kind and all their one-symbol
    mutations.  A disagreement means the oracle itself is inconsistent: machinery failure (exit 2), never a verdict."""
    from vf import tlc
    env = {"VF_CFG": '{"own":49,"lock":3,"gensyn":0,"readonly":0,"answers":[]}'}
    if not ctx.thorough:
        env["VF_TELEGRAM_QUICK"] = "1"
    r = tlc.run("EbusTelegram", "EbusTelegram.cfg", env=env, workers=12, timeout=3000, cont=True, heap="8g")
    st = [v for v in r["vf"] if v[1] == "STAT"]
    bad = [v for v in r["vf"] if v[1] == "BAD"]
    ctx.coverage["p_lemma_grammar_equals_parser"] = {
        "base_telegrams": len(st), "wire_sequences": sum(v[2] for v in st), "with_a_reported_telegram": sum(v[3] for v in st),
        "left_open_by_P": sum(v[4] for v in st), "disagreements": len(bad), "wall_s": r["wall_s"]}
    ctx.log("telegram lemma", ctx.coverage["p_lemma_grammar_equals_parser"])
    if bad or r["violated"] or not st:
        raise RuntimeError("EbusTelegram lemma failed (the C01 oracle and the telegram grammar disagree): %s" % (bad[:2],))
