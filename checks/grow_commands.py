"""Growth check: command semantics of read / write / find beyond access control (no listed property; never a VIOLATION
unless the daemon crashes).

P = spec/Commands.tla, written from the usage texts of MainLoop::executeRead/executeWrite/executeFind: a monitor over the
answer text, the telegrams on the bus and the poll priorities whose state is what MAY / SURELY is cached (fed only by the
telegrams it saw).  S = the decisions as coded ("pinned") and as documented ("doc").
(0) spec/MC_Commands: TLC explores S exhaustively against the monitor for all sessions up to 3 (4) commands over a command
    alphabet with clock ticks {0,1,299,301}: "doc" must hold, "pinned" must be rejected (it is: cached values are returned
    for another destination / other parameters / beyond the age limit when a passive twin exists).
(1) spec/CommandsGen emits 5 small worlds (2-4 messages) x sessions (<= 4 commands with ticks) from an option grammar;
    harness/grow_commands.cpp replays them on the in-process daemon of harness/c16_daemon.h (virtual clock, scripted slave
    whose answer changes with every telegram); spec/CommandsJudge judges every command and names the class of a rejection.
`run_growth(ctx)` returns a coverage dict and appends its findings to ctx.drift; `run(ctx)` makes it runnable on its own
(bin/check grow_commands)."""
import json
import os
import time

from vf import build, recs, tlc

GROUPS = ["ebusd", "ebus", "utils", "knx"]


def _txt(c):
    return "".join(chr(x) for x in c)


def _cmd_text(c):
    keys = [k for k in c if k not in ("op", "tk") and c[k] not in (0, "", [], -1)]
    return "+%ds %s %s" % (c["tk"], c["op"], " ".join(
        "%s=%s" % (k, _txt(c[k]) if isinstance(c[k], list) and k != "data" else c[k]) for k in keys))


def run_growth(ctx):
    t00 = time.time()
    wt = os.environ.get("VERIF_WORKTAG", "")
    wd = recs.workdir("GROWCMD" + wt)
    tier = ctx.tier
    jobs = int(os.environ.get("VERIF_JOBS_C16", "8"))
    exe = build.build("grow_commands", ["grow_commands.cpp"], GROUPS, libs=["-lmosquitto"])
    notes = []

    # ---- (0) S => P at design level -------------------------------------------------------------------------------------
    mc = tlc.run("MC_Commands", "MC_CommandsThorough.cfg" if ctx.thorough else "MC_Commands.cfg", workers=jobs, timeout=1200,
                 heap="6g", tag="GROWCMD" + wt + "-mc")
    if mc["violated"]:
        raise tlc.TlcFailure("Commands: S(doc) => P does not hold (model or oracle wrong): " + str(mc["vf"][:2])[:800])
    mcp = tlc.run("MC_Commands", "MC_CommandsPinned.cfg", workers=2, timeout=600, heap="4g", tag="GROWCMD" + wt + "-mcp")
    if "McOk" not in mcp["violated"]:
        notes.append("the coded cache decisions (S pinned) are now accepted by the monitor at design level")
    if "McCacheTracked" in mcp["violated"]:
        raise tlc.TlcFailure("Commands: the monitor's may/sure cache state does not bracket the coded cache state")
    ctx.log("commands: S(doc) => P: %d states, %d transitions; S(pinned) %s (%.1fs)"
            % (mc["distinct"], mc["generated"], "rejected by P" if "McOk" in mcp["violated"] else "accepted", time.time() - t00))

    # ---- (1) generated sessions on the daemon ---------------------------------------------------------------------------
    t0 = time.time()
    wf, sf, rf = wd + "/worlds.ndjson", wd + "/sessions.ndjson", wd + "/recs.ndjson"
    gen = tlc.run("CommandsGen", "CommandsGen.cfg", env={"VF_TIER": tier, "VF_WORLDS": wf, "VF_SESSIONS": sf}, workers=1,
                  timeout=600, heap="4g", tag="GROWCMD" + wt + "-gen")
    if not [v for v in gen["vf"] if v[1] == "GEN"]:
        raise tlc.TlcFailure("CommandsGen printed no GEN line:\n" + gen["out"][-1500:])
    worlds, sessions = recs.read_ndjson(wf), recs.read_ndjson(sf)
    crashed = None
    try:
        recs.run_harness(ctx, exe, ["cmd", rf, wf, sf, wd], timeout=900)
    except RuntimeError as e:
        crashed = str(e)
    if crashed:
        # no listed property is about this: a crash of the real daemon code is reported as a note, never as a violation
        ctx.drift.append("GROWTH commands: the in-process daemon crashed while replaying generated read/write/find sessions: "
                         + crashed[-600:])
        return {"crashed": True}
    rr = recs.read_ndjson(rf)
    res, bad = recs.judge(ctx, "CommandsJudge", "CommandsJudge.cfg", rf, workers=jobs, heap="6g", timeout=1200,
                          env={"VF_TIER": tier, "VF_WORLDS": wf, "VF_SESSIONS": sf}, tag="GROWCMD" + wt + "-j")
    ncmd = sum(len(r["o"]) for r in rr)
    by_op = {}
    distinct = set()
    for r in rr:
        w = worlds[r["w"] - 1]
        for c, o in zip(sessions[r["s"] - 1]["cmds"], r["o"]):
            by_op[c["op"]] = by_op.get(c["op"], 0) + 1
            distinct.add((w["fam"], json.dumps(c, sort_keys=True), _txt(o["a"]), json.dumps(o["bus"])))
    classes = {}
    for v in res["vf"]:
        if v[1] != "BAD":
            continue
        idx, k, cls = v[2], v[3], v[4]
        r = rr[idx - 1]
        cm = sessions[r["s"] - 1]["cmds"]
        e = classes.setdefault(cls, {"count": 0, "witness": None})
        e["count"] += 1
        last = cm[k - 1]
        telling = (cls.endswith("parameters") and last.get("i")) or (cls.endswith("destination") and last.get("d")) or \
            not (cls.endswith("parameters") or cls.endswith("destination"))
        rank = (0 if telling else 1, len(cm))
        if e["witness"] is None or rank < e["witness"]["rank"]:
            e["witness"] = {"rank": rank, "world_family": worlds[r["w"] - 1]["fam"],
                            "definitions": _txt(worlds[r["w"] - 1]["csv"]).strip().split("\n"),
                            "session": ["%s -> %r bus=%s" % (_cmd_text(c), _txt(o["a"])[:80], o["bus"]) for c, o in zip(cm[:k], r["o"][:k])]}
    drift = [v for v in res["vf"] if v[1] == "DRIFT"]
    for cls, e in sorted(classes.items()):
        ctx.drift.append("GROWTH commands: %d sessions contradict the usage text [%s], e.g. %s"
                         % (e["count"], cls, " ; ".join(e["witness"]["session"])[:600]))
    if drift:
        idx, k = drift[0][2], drift[0][3]
        r = rr[idx - 1]
        cm = sessions[r["s"] - 1]["cmds"]
        ctx.drift.append("GROWTH commands: %d sessions differ from the coded-decision model S(pinned), first: %s"
                         % (len(drift), " ; ".join("%s -> %r bus=%s" % (_cmd_text(c), _txt(o["a"])[:60], o["bus"])
                                                    for c, o in zip(cm[:k], r["o"][:k]))[:700]))
    for n in notes:
        ctx.drift.append("GROWTH commands: " + n)
    ctx.log("commands: %d worlds, %d sessions -> %d records (%d commands) judged: %d contradict the usage text in %d classes, "
            "%d differ from S (%.1fs)" % (len(worlds), len(sessions), len(rr), ncmd, len(bad), len(classes), len(drift), time.time() - t0))
    sample = rr[len(rr) // 2]
    return {
        "states": mc["distinct"] + res["distinct"], "transitions": mc["generated"] + res["generated"],
        "traces_validated_against_impl": len(rr), "commands_judged": ncmd, "commands_by_op": by_op,
        "distinct_command_outcomes": len(distinct), "worlds": len(worlds), "sessions": len(sessions),
        "mc": {"S_doc_implies_P": True, "states": mc["distinct"], "transitions": mc["generated"],
               "S_pinned_rejected_by_P": "McOk" in mcp["violated"]},
        "usage_contradictions": {k: {"count": v["count"], "witness": v["witness"]["session"]} for k, v in classes.items()},
        "s_conforms": not drift, "s_drift_records": len(drift),
        "sample": {"world_family": worlds[sample["w"] - 1]["fam"],
                   "session": ["%s -> %r bus=%s" % (_cmd_text(c), _txt(o["a"])[:60], o["bus"])
                               for c, o in zip(sessions[sample["s"] - 1]["cmds"], sample["o"])]},
        "wall_s": round(time.time() - t00, 1),
    }


def run(ctx):
    """stand-alone entry (bin/check grow_commands): same work, the coverage dict becomes the evidence"""
    ctx.level = "model_checking"
    cov = run_growth(ctx)
    cov.setdefault("samples", [cov.pop("sample", None)])
    ctx.coverage = cov
    ctx.assumptions = ["growth check: no listed property; disagreements are drift notes, nothing here is a violation"]
