"""C13 - conditional availability follows the referenced value through any history.

P  = spec/ConditionP.tla  ("availability = Pred(value stored last)", resolution rule), written from the property text.
S  = spec/Condition.tla   (cache m_lastCheckTime/m_isTrue vs. m_lastChangeTime at 1 s resolution); S => P by pure TLC.
G  = transition graph of the real MessageMap/Condition objects, extracted breadth-first by harness/c13_cond.cpp under a
     virtual clock for a set of small "worlds" (CSV definitions with conditions of every shape); spec/C13Graph.tla runs
     the P monitor in lock-step on G.  A rejected step is re-executed linearly on the real code before it is reported.
Resolution: spec/C13Resolve.tla defines the case domain (1..4 fields x kinds x condition shape), TLC emits the cases,
     the harness calls the real resolveConditions, TLC judges the answers.
"""
import json
import os

from vf import build, recs, tlc

_PID = "-%d" % os.getpid()


# ---------------------------------------------------------------------------------------------------------------
# worlds: structured description -> CSV text for the real MessageMap  +  JSON for the P monitor
# (only syntax is rendered here; what "<3" or "2-4" *means* is defined in ConditionP.tla)

def _item(txt, strlist=False):
    t = txt.strip()
    if t.startswith("'"):
        return {"op": "str", "a": 0, "b": 0, "s": [ord(c) for c in t.strip("'")]}
    if strlist:
        # an unquoted item of a string list (the list starts with a quote): what it means is not documented; P gets its literal
        # text and the world's stored alphabet never contains a value that any reading of it could equal, so P stays agnostic
        return {"op": "str", "a": 0, "b": 0, "s": [ord(c) for c in t]}
    for pre, op in (("<=", "le"), (">=", "ge"), ("<", "lt"), (">", "gt")):
        if t.startswith(pre):
            return {"op": op, "a": int(t[len(pre):]), "b": 0, "s": []}
    if "-" in t:
        a, b = t.split("-")
        return {"op": "range", "a": int(a), "b": int(b), "s": []}
    return {"op": "eq", "a": int(t), "b": int(t), "s": []}


def _enc(kind, v):
    if kind == "num":
        return "%02x" % v
    if kind == "num16":
        return "%02x%02x" % (v & 0xff, v >> 8)
    if kind == "pin":
        return "%02d%02d" % (v // 100, v % 100)
    return "".join("%02x" % ord(c) for c in v)


class W:
    def __init__(self, name):
        self.name, self.lines, self.refs, self.vals, self.deps, self.finds, self.findms = name, [], [], [], [], [], []
        self.conds = {}
        self.nextid = 0x10
        self.fieldnames = {}

    def fid(self, n):
        if not n:
            return 0
        return self.fieldnames.setdefault(n, len(self.fieldnames) + 1)

    def ref(self, name, fields, typ="R", idhex=None, file=1):
        """fields: list of (name, kind, csvtype); typ R = active read, P = passive with master data, S = scan of 08"""
        idhex = idhex or "0d%02x00" % (len(self.refs) + 1)
        r = {"name": name, "fields": fields, "typ": typ, "id": idhex}
        if typ == "S":
            self.refs.append(r)
            return len(self.refs)
        part = "m" if typ == "P" else ""
        line = ("u" if typ == "P" else "r") + ",ref,%s,,,08,b509,%s" % (name, idhex)
        for (fn, kind, ct) in fields:
            line += ",%s,%s,%s,,," % (fn, part, ct)
        self.lines.append(("@2 " if file == 2 else "") + line)
        self.refs.append(r)
        return len(self.refs)

    def cond(self, cname, refidx, values, field="", kind=None, file=1):
        """file = 2: the condition is defined in a second definition file (same names may be used in both files)"""
        r = self.refs[refidx - 1]
        items = [_item(x, values.startswith("'")) for x in values.split(";")] if values else []
        k = kind or ("seen" if not items else "str" if items[0]["op"] == "str" else "num")
        if r["typ"] == "S":
            self.lines.insert(0, "*[%s],,,,%s,08,%s" % (cname, field, values))
        else:
            self.lines.insert(0, ("@2 " if file == 2 else "") + "*[%s],ref,%s,,%s,,%s" % (cname, r["name"], field, values))
        self.conds[cname + ("@2" if file == 2 else "")] = {"r": refidx, "k": k, "fn": self.fid(field), "items": items}

    def derived(self, cname, base, values):
        b = self.conds[base]
        items = [_item(x) for x in values.lstrip("=").split(";")]
        self.conds[cname] = {"r": b["r"], "k": "str" if items[0]["op"] == "str" else "num", "fn": b["fn"], "items": items}

    def dep(self, condnames, name=None, idhex=None, file=1):
        name = name or "d%d" % (len(self.deps) + 1)
        if idhex is None:
            idhex = "0d%02x00" % self.nextid
            self.nextid += 1
        idx = sum(1 for d in self.deps if d["name"] == name)
        self.lines.append(("@2 " if file == 2 else "") + "%sr,dep,%s,,,08,b509,%s,,,UCH" % ("".join("[%s]" % c for c in condnames), name, idhex))
        self.deps.append({"name": name, "idx": idx, "id": idhex, "conds": [self.conds[c + ("@2" if file == 2 else "")] for c in condnames]})
        return len(self.deps)

    def val(self, refidx, values):
        r = self.refs[refidx - 1]
        data = "".join(_enc("pin" if ct == "PIN" else kind, v) for (fn, kind, ct), v in zip(r["fields"], values))
        if r["typ"] == "S":
            master, slave = "ff08070400", "0ab54142434445" + data + "0101"
            f = [181, [65, 66, 67, 68, 69], values[0], 101]
        elif r["typ"] == "P":
            n = len(data) // 2 + 3
            master, slave = "ff08b509%02x%s%s" % (n, r["id"], data), "00"
            f = [[ord(c) for c in v] if isinstance(v, str) else v for v in values]
        else:
            master, slave = "ff08b50903" + r["id"], "%02x%s" % (len(data) // 2, data)
            f = [[ord(c) for c in v] if isinstance(v, str) else v for v in values]
        self.vals.append({"r": refidx, "f": f, "master": master, "slave": slave})

    def find(self, name):
        self.finds.append({"name": name, "cands": [i + 1 for i, d in enumerate(self.deps) if d["name"] == name]})

    def findm(self, idhex):
        self.findms.append({"master": "ff08b50903" + idhex, "cands": [i + 1 for i, d in enumerate(self.deps) if d["id"] == idhex]})

    def text(self):
        o = ["W " + self.name] + ["L " + l for l in self.lines]
        for r in self.refs:
            o.append("R %s %s %s 08" % ("ref" if r["typ"] != "S" else "scan", r["name"], r["typ"]))
        for v in self.vals:
            o.append("V %d %s %s" % (v["r"] - 1, v["master"], v["slave"]))
        for d in self.deps:
            o.append("D dep %s %d" % (d["name"], d["idx"]))
        for f in self.finds:
            o.append("F dep %s" % f["name"])
        for m in self.findms:
            o.append("M " + m["master"])
        return "\n".join(o + ["E"]) + "\n"

    def spec(self):
        refs = []
        for r in self.refs:
            if r["typ"] == "S":   # ident fields MF (value list), ID (string), SW, HW (PIN)
                fields = [{"n": self.fid("MF"), "k": "num"}, {"n": self.fid("ID"), "k": "str"},
                          {"n": self.fid("SW"), "k": "num"}, {"n": self.fid("HW"), "k": "num"}]
            else:
                fields = [{"n": self.fid(fn), "k": "str" if kind == "str" else "num"} for (fn, kind, ct) in r["fields"]]
            refs.append({"fields": fields})
        return {"name": self.name, "refs": refs, "vals": [{"r": v["r"], "f": v["f"]} for v in self.vals],
                "deps": [{"conds": d["conds"]} for d in self.deps],
                "finds": [{"cands": f["cands"]} for f in self.finds], "findms": [{"cands": f["cands"]} for f in self.findms]}


NUM1 = [("", "num", "UCH")]


def _simple(name, values, vals, field="", fields=None, typ="R"):
    w = W(name)
    r = w.ref("x", fields or NUM1, typ)
    w.cond("c", r, values, field)
    w.dep(["c"])
    for v in vals:
        w.val(r, v if isinstance(v, (list, tuple)) else [v])
    w.find("d1")
    w.findm(w.deps[0]["id"])
    return w


def worlds(thorough):
    ws = [
        _simple("numlist", "1;3", [0, 1, 2, 3, 4]),
        _simple("numrange", "2-4", [1, 2, 3, 4, 5]),
        _simple("lt", "<3", [0, 2, 3, 4]),
        _simple("le", "<=3", [2, 3, 4]),
        _simple("gt", ">3", [2, 3, 4]),
        _simple("ge", ">=3", [2, 3, 4, 255]),
        _simple("seen", "", [0, 1]),
        _simple("strset", "'ab';'cd'", ["ab", "cd", "ac", "xy"], fields=[("", "str", "STR:2")]),
        _simple("strnamed", "'ab'", ["ab", "a ", "ba"], field="s", fields=[("s", "str", "STR:2")]),
        # mixed quoting: the quoted items keep their documented meaning whatever stands beside them (seed C13f)
        _simple("strmixlast", "'ab';zz", ["ab", "xy", "a "], fields=[("", "str", "STR:2")]),
        _simple("strmixmid", "'ab';zz;'cd'", ["ab", "cd", "xy"], fields=[("", "str", "STR:2")]),
        _simple("mixed", "0;2-3;>=5", [0, 1, 2, 3, 4, 5, 6]),
        _simple("passive", "1;3", [0, 1, 3], typ="P"),
    ]
    w = W("comb2refs")
    r1, r2 = w.ref("n1", NUM1), w.ref("n2", NUM1)
    w.cond("c1", r1, "1;3"); w.cond("c2", r2, ">=2")
    w.dep(["c1", "c2"]); w.dep(["c1"])
    for v in (1, 2):
        w.val(r1, [v])
    for v in (1, 2):
        w.val(r2, [v])
    ws.append(w)
    w = W("combsameref")
    r = w.ref("x", NUM1)
    w.cond("ca", r, ">=2"); w.cond("cb", r, "<=3")
    w.dep(["ca", "cb"]); w.dep(["cb", "ca"])
    for v in (1, 2, 3, 4):
        w.val(r, [v])
    ws.append(w)
    w = W("derived")
    r = w.ref("x", NUM1)
    w.cond("b", r, "")
    w.derived("b=2", "b", "=2"); w.derived("b>=4", "b", ">=4")
    w.dep(["b=2"]); w.dep(["b>=4"]); w.dep(["b"])
    for v in (1, 2, 4, 5):
        w.val(r, [v])
    ws.append(w)
    w = W("findsame")
    r = w.ref("x", NUM1)
    w.cond("c", r, "")
    w.derived("c=1", "c", "=1"); w.derived("c=2", "c", "=2")
    w.dep(["c=1"], name="x", idhex="0d2000"); w.dep(["c=2"], name="x", idhex="0d2000")
    for v in (1, 2, 3):
        w.val(r, [v])
    w.find("x"); w.findm("0d2000")
    ws.append(w)
    # two definition files that use the same condition names and the same combined list, each on its own messages:
    # a guarded message follows the referenced messages of ITS OWN file
    w = W("twofiles")
    r1 = w.ref("x1", NUM1)
    r2 = w.ref("x2", NUM1, file=2)
    w.cond("modeon", r1, ">=1"); w.cond("pumpon", r1, "<=2")
    w.cond("modeon", r2, ">=1", file=2); w.cond("pumpon", r2, "<=2", file=2)
    w.dep(["modeon", "pumpon"]); w.dep(["modeon", "pumpon"], file=2)
    for v in (1, 3):
        w.val(r1, [v])
    for v in (1, 3):
        w.val(r2, [v])
    ws.append(w)
    multi = [("a", "num", "UCH"), ("b", "num", "UCH"), ("s", "str", "STR:2")]
    mvals = [(1, 1, "ab"), (2, 1, "ab"), (1, 2, "ab"), (1, 2, "cd"), (2, 2, "cd")]
    w = W("multinamed")
    r = w.ref("x", multi)
    w.cond("ca", r, "1", "a"); w.cond("cb", r, "2", "b"); w.cond("cs", r, "'ab'", "s")
    w.dep(["ca"]); w.dep(["cb"]); w.dep(["cs"])
    for v in mvals:
        w.val(r, v)
    ws.append(w)
    w = W("multiunnamed")       # "if unnamed, a first field of the required kind"
    r = w.ref("x", [("s", "str", "STR:2"), ("a", "num", "UCH"), ("b", "num", "UCH")])
    w.cond("cu", r, "1"); w.cond("cus", r, "'ab'")
    w.dep(["cu"]); w.dep(["cus"])
    for v in [("ab", 1, 1), ("ab", 2, 1), ("ab", 1, 2), ("cd", 1, 2), ("cd", 2, 2)]:
        w.val(r, v)
    ws.append(w)
    w = W("scan")
    r = w.ref("scan", [("SW", "num", "PIN")], "S")
    w.cond("sc", r, ">=2", "SW"); w.cond("ss", r, "")
    w.dep(["sc"]); w.dep(["ss"])
    for v in (1, 2, 3):
        w.val(r, [v])
    ws.append(w)
    if thorough:
        ws.append(_simple("biglist", "1;3;5-6;>=9", list(range(0, 11))))
        ws.append(_simple("str3", "'ab';'cd';'ef'", ["ab", "cd", "ef", "a ", "fe", "  "], fields=[("", "str", "STR:2")]))
        ws.append(_simple("uin", "255-256;>1000", [254, 255, 256, 257, 1000, 1001], fields=[("", "num16", "UIN")]))
        w = W("comb3")
        r1, r2 = w.ref("n1", NUM1), w.ref("n2", NUM1)
        w.cond("c1", r1, ">=2"); w.cond("c2", r2, "1;3"); w.cond("c3", r1, "<=3")
        w.dep(["c1", "c2", "c3"]); w.dep(["c3", "c2"])
        for v in (1, 2, 3, 4):
            w.val(r1, [v])
        for v in (1, 2):
            w.val(r2, [v])
        ws.append(w)
        w = W("find3")
        r = w.ref("x", NUM1)
        w.cond("c", r, "")
        for k in (1, 2, 3):
            w.derived("c=%d" % k, "c", "=%d" % k)
            w.dep(["c=%d" % k], name="x", idhex="0d2000")
        w.derived("c>=2", "c", ">=2")
        w.dep(["c>=2"], name="x", idhex="0d2000")
        for v in (1, 2, 3, 4):
            w.val(r, [v])
        w.find("x"); w.findm("0d2000")
        ws.append(w)
    return ws


# ---------------------------------------------------------------------------------------------------------------

def _tlc_graph(ctx, graph, worldsjson, tag, target=None, cont=True):
    env = {"VF_GRAPH": graph, "VF_WORLDS": worldsjson}
    if target:
        env["VF_TARGET"] = target
    return tlc.run("C13Graph", "C13Graph.cfg", env=env, workers=4, timeout=900, heap="6g", cont=cont, tag=tag + _PID)


def _bad_sigs(res):
    sigs = {}
    for v in res["vf"]:
        if len(v) >= 5 and v[1] == "BAD":
            sigs.setdefault(v[3], []).append((v[2], v[4]))
    return sigs


def _trace_inputs(res):
    """input sequence (world, [(kind, arg)]) of the counterexample TLC printed"""
    world, ins = None, []
    for st in res["trace"]:
        li = tlc.parse_tla_value(st["lastIn"]) if "lastIn" in st else None
        if not li or li["k"] == "init":
            continue
        if li["k"] == "world":
            world = li["a"]
        else:
            ins.append((li["k"], li["a"], li["out"]))
    return world, ins


def run(ctx):
    ctx.level = "model_checking"
    wd = recs.workdir("C13")   # per process, removed at exit
    exe = build.build("c13_cond", ["c13_cond.cpp"], ["ebus", "utils_noclock"])
    notes = {}

    # 1. S => P on the code-shaped model (no code involved; cannot change with /repo) ------------------------
    # S = the repaired code (GE = TRUE) must satisfy P; the comparison before the repair is kept as a design note
    mc = tlc.run("Condition", "MC_Condition.cfg", workers=4, timeout=300, tag="C13-mc" + _PID)
    mc_pinned = tlc.run("Condition", "MC_Condition_pinned.cfg", workers=4, timeout=300, tag="C13-mc-pinned" + _PID)
    if mc["violated"]:
        raise tlc.TlcFailure("S => P unexpectedly refuted: the P monitor or S is wrong\n" + mc["out"][-2000:])
    notes["design_S_implies_P"] = {
        "S(repaired: lastChange>0 and lastChange>=lastCheck)": "holds",
        "S(before repair: lastChange>lastCheck)": "REFUTED" if mc_pinned["violated"] else "holds",
        "counterexample_before_repair": [s.get("obs") for s in mc_pinned["trace"]][1:],
        "states": [mc["distinct"], mc_pinned["distinct"]]}
    ctx.log("S=>P: holds, states", mc["distinct"], "| variant before the repair:",
            notes["design_S_implies_P"]["S(before repair: lastChange>lastCheck)"], "states", mc_pinned["distinct"])

    # 2. resolution: TLC enumerates the cases, the real resolveConditions answers, TLC judges ---------------
    cases = wd + "/cases.ndjson"
    nvar = 16 if ctx.thorough else 4
    gen = tlc.run("C13Resolve", "C13Resolve.cfg", env={"VF_GEN": cases, "VF_VARIANTS": nvar}, workers=2, tag="C13-gen" + _PID)
    cc = recs.read_ndjson(cases)
    with open(wd + "/cases.txt", "w") as f:
        for c in cc:
            f.write("%d %d %s %s %d %d\n" % (c["id"], c["msg"], "".join(c["kseq"]), c["ck"], c["cf"], c["var"]))
    recs.run_harness(ctx, exe, ["resolve", wd + "/cases.txt", wd + "/resolve.ndjson"])
    rres, rbad = recs.judge(ctx, "C13Resolve", "C13Resolve.cfg", wd + "/resolve.ndjson", workers=4, tag="C13-resolve" + _PID,
                            env={"VF_VARIANTS": nvar})
    rr = recs.read_ndjson(wd + "/resolve.ndjson")
    design = [v for v in rres["vf"] if len(v) > 1 and v[1] == "DESIGN"]
    if not design or design[0][2] is not True:
        raise tlc.TlcFailure("code-shaped hasField rule (repaired) does not agree with P on the case domain")
    notes["design_resolve_rule"] = {"hasField_rule_agrees_with_P": design[0][2],
                                    "rule_before_repair_agrees_with_P": design[0][3]}
    for idx, sig in rbad:
        r = rr[idx - 1]
        ctx.violation(sig, "resolveConditions on a referenced message with fields %s, condition kind %s field %s: rc=%d bound=%d"
                      % ("".join(r["kseq"]), r["ck"], r["cf"], r["rc"], r["bound"]),
                      {"mode": "resolve", "case": r})
    ctx.log("resolve: %d cases judged, %d rejected" % (len(rr), len(rbad)))

    # 3. P on G ----------------------------------------------------------------------------------------------
    ws = worlds(ctx.thorough)
    wtxt, wjson = wd + "/worlds.txt", wd + "/worlds.ndjson"
    with open(wtxt, "w") as f:
        f.write("".join(w.text() for w in ws))
    with open(wjson, "w") as f:
        for w in ws:
            f.write(json.dumps(w.spec()) + "\n")
    graph = wd + "/graph.ndjson"
    out = recs.run_harness(ctx, exe, ["graph", wtxt, graph, 200000])
    ginfo = json.loads(out.strip().splitlines()[-1])
    if ginfo["capped"]:
        raise RuntimeError("C13 graph extraction hit the node cap (no fix-point)")
    for wi in ginfo["worlds"]:
        if wi["load"] != 0:
            raise RuntimeError("world %s did not load: %s" % (wi["name"], wi["err"]))
    res = _tlc_graph(ctx, graph, wjson, "C13-graph")
    sigs = _bad_sigs(res)
    ctx.log("graph: %d nodes %d edges (fix-point), TLC %d states, rejected steps by signature: %s"
            % (ginfo["nodes"], ginfo["edges"], res["distinct"], {k: len(v) for k, v in sigs.items()}))
    traces_validated = 0
    samples = []
    for sig in sorted(sigs):
        # shortest counterexample for this signature, then linear re-execution on the real code (the replay)
        t = _tlc_graph(ctx, graph, wjson, "C13-target", target=sig, cont=False)
        world, ins = _trace_inputs(t)
        if world is None:
            raise tlc.TlcFailure("no counterexample trace for " + sig + "\n" + t["out"][-2000:])
        rp = wd + "/replay-%d.txt" % len(samples)
        with open(rp, "w") as f:
            f.write("%d\n" % world + "".join("%s %d\n" % (k, a) for k, a, o in ins))
        lin = wd + "/replay-%d.ndjson" % len(samples)
        recs.run_harness(ctx, exe, ["replay", wtxt, rp, lin])
        c = _tlc_graph(ctx, lin, wjson, "C13-confirm")
        traces_validated += 1
        csig = _bad_sigs(c)
        w = ws[world - 1]
        replay = {"mode": "history", "world": w.name, "csv": w.lines,
                  "inputs": [{"in": k, "arg": a, "observed": o} for k, a, o in ins],
                  "values": [v["f"] for v in w.vals]}
        samples.append(replay)
        if sig in csig:
            ctx.violation(sig, "world %s: after %s the real MessageMap answered %s but the value stored last says otherwise"
                          % (w.name, " ".join("%s(%d)" % (k, a) for k, a, o in ins), ins[-1][2]), replay)
        else:
            raise RuntimeError("counterexample for %s did not reproduce on linear re-execution (projection too coarse?)" % sig)
    # resolve failure of a world that P considers resolvable shows up as rejected queries; name the cause
    for wi in ginfo["worlds"]:
        if wi["resolve"] != 0:
            ctx.notes.append("world %s: resolveConditions rc=%d %s" % (wi["name"], wi["resolve"], wi["err"]))

    # 4. long seeded random linear executions of every world, judged by the same monitor --------------------
    rnd = wd + "/random.ndjson"
    nsteps = 4000 if ctx.thorough else 600
    recs.run_harness(ctx, exe, ["random", wtxt, rnd, nsteps])
    rres2 = _tlc_graph(ctx, rnd, wjson, "C13-random")
    rs = _bad_sigs(rres2)
    for sig, lst in rs.items():
        if sig not in sigs:   # something only the random runs (longer ticks / other interleavings) found
            ctx.violation(sig, "random linear execution rejected at node %s of %s" % (lst[0][0], rnd), {"mode": "random", "seed": ctx.seed})
    traces_validated += len(ws)
    ctx.log("random: %d worlds x %d steps, rejected by signature: %s" % (len(ws), nsteps, {k: len(v) for k, v in rs.items()}))

    ctx.notes.append(notes)
    nqueries = sum(len(w.deps) + len(w.finds) + len(w.findms) for w in ws)
    ctx.coverage = {
        "states": res["distinct"] + mc["distinct"] + mc_pinned["distinct"],
        "transitions": ginfo["edges"],
        "graph_nodes": ginfo["nodes"], "graph_fixpoint": True, "worlds": [w.name for w in ws],
        "traces_validated_against_impl": traces_validated,
        "random_steps": nsteps * len(ws),
        "resolve_cases": len(rr), "resolve_rejected": len(rbad),
        "evaluations": ginfo["edges"] + len(rr) + nsteps * len(ws),
        "distinct_nontrivial": ginfo["edges"] - (ginfo["nodes"] - 1) + len(rr),
        "rule": "graph edges are distinct (state,input) pairs of the reachable fix-point; trivial = the tick(0 s) self-loop every "
                "node has (subtracted); resolve cases are distinct by construction",
        "rejected_steps_by_signature": {k: len(v) for k, v in sigs.items()},
        "samples": samples[:3] + [rr[0], rr[len(rr) // 2]],
        "query_kinds": nqueries,
    }
    ctx.assumptions = [
        "TLC evaluates the TLA+ definitions correctly; the harness logs what the real functions returned",
        "visited-key = stored data + all times as ages capped at 3 s + order of each condition's check time vs. its message's "
        "change time; complete for code whose behaviour depends on times only through comparisons and differences < 3 s "
        "(every reported rejection is re-executed linearly, so an incomplete key can hide but never invent a violation)",
        "alphabet: per world the boundary values of its condition, ticks of 0/1/2 s, isAvailable / find by name / find by telegram",
        "numeric value of a field = its raw unsigned value (UCH, PIN); string value = decoded text",
    ]
