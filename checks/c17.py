"""C17 - polling is starvation-free and proportional to priority.

P  = monitor of spec/Poll.tla: wait[m] <= WaitBound (bounded wait, with an allowance per perturbation) and weighted
     selection counts within PropBound on perturbation-free stretches.  Only observables: the message getNextPoll
     returned, the public priorities, the perturbing calls.
S  = spec/Poll.tla (abstract arg-min layer + concrete std::vector with libstdc++ push_heap/pop_heap, erase from the
     middle, keys changed in place); spec/MCPoll.tla + MC_Poll*.cfg: S => P by pure TLC (checks the constants of the
     bounds on the design before they are applied to the code).
G  = transition graph of the real MessageMap poll scheduler extracted breadth-first to a fix-point by
     harness/c17_poll.cpp; spec/C17Graph.tla runs the monitor in lock-step on G (P-on-G) and compares every edge with
     the concrete step function of S (fidelity => DRIFT).  A rejected path is re-executed linearly in a fresh process.
Complement: long seeded random executions (N = 10, priorities 1..9) validated by TLC as linear traces.
"""
import json
import os
import time

from vf import build, recs, tlc

_PID = "-%d" % os.getpid()

KIND_CODE = {"next": 1, "setprio": 2, "addback": 3, "addfront": 4, "conduse": 5, "readd": 6, "tick": 7, "otherclear": 8, "reload": 9, "replace": 10}
ALPHA_LETTER = {"n": 1, "s": 2, "a": 3, "f": 4, "c": 5, "r": 6, "t": 7, "v": 2, "x": 8, "R": 9, "p": 10, "E": 1}
SIG_CLAUSE = {"C17:wait-unperturbed": "wait-unperturbed", "C17:wait-perturbed": "wait", "C17:proportion": "proportion",
              "C17:selected-message-without-priority-or-none": "selection", "C17:crash-in-real-code": "crash-in-real-code"}
# sub-alphabets in increasing order; the first one on which the monitor rejects names the signature
MASKS = [("17", "no-perturbation"), ("127", "after-setPollPriority"), ("1347", "after-addPollMessage"),
         ("12347", "after-setPollPriority+addPollMessage"), ("123457", "after-condition-use"), ("167", "after-readd"), ("17A", "after-replace"), ("127A", "after-replace+setPollPriority"),
         ("179", "after-reload"), ("1279", "after-reload+setPollPriority"),
         ("178", "after-other-map-cleared"), ("1278", "after-other-map-cleared+setPollPriority"),
         ("12789", "after-other-map-cleared+reload+setPollPriority"), ("123456789A", "mixed")]


def _cfgfile(wd, name, prios, maxnodes, cap, alpha, setprios):
    p = os.path.join(wd, name + ".cfg")
    with open(p, "w") as f:
        f.write("%d %s %d %d %s %s\n" % (len(prios), " ".join(map(str, prios)), maxnodes, cap, alpha, " ".join(map(str, setprios))))
    return p


def _tlc(ctx, graph, prios, k, cap, tag, mode="monitor", mask=None, clause="both", timeout=1500, heap="8g"):
    env = {"VF_GRAPH": graph, "VF_INITPRIOS": "".join(map(str, prios)), "VF_K": k, "VF_CAP": cap, "VF_MODE": mode,
           "VF_CLAUSE": clause}
    if mask:
        env["VF_MASK"] = mask
    return tlc.run("C17Graph", "C17Graph.cfg", env=env, workers=8, timeout=timeout, heap=heap,
                   cont=(mode == "fidelity"), tag=tag + _PID)


def _bad(res):
    for v in res["vf"]:
        if len(v) >= 4 and v[1] == "BAD":
            return v[3]
    return None


def _trace_inputs(res):
    ins = []
    for st in res["trace"]:
        if "lastIn" not in st:
            continue
        li = tlc.parse_tla_value(st["lastIn"])
        if li["k"] != "init":
            ins.append((li["k"], li["m"], li["a"], li["out"]))
    return ins


class Job:
    """one extraction + P-on-G + fidelity"""

    def __init__(self, name, prios, alpha, setprios, k, cap=0, maxnodes=60000, fidelity=True, state=True):
        self.name, self.prios, self.alpha, self.setprios, self.k, self.cap = name, prios, alpha, setprios, k, cap
        self.maxnodes, self.fidelity, self.state = maxnodes, fidelity, state


def _judge_graph(ctx, exe, wd, job, cfg, graph, info, clause, stats, samples, textract):
    t1 = time.time()
    res = _tlc(ctx, graph, job.prios, job.k, job.cap, "C17-%s-%s" % (job.name, clause), clause=clause)
    stats["states"] += res["distinct"]
    stats["graphs"][job.name]["product_states"] += res["distinct"]
    ctx.log("graph %s: N=%d prios=%s alphabet=%s -> %d nodes %d edges (%s, depth %d, %s, %.0fs); P-on-G[%s] %d states, %s (%.0fs)"
            % (job.name, len(job.prios), job.prios, job.alpha, info["nodes"], info["edges"],
               "NO fix-point" if info["capped"] else "fix-point", info["depth"], info["mode"], textract, clause,
               res["distinct"], "REJECTED " + str(_bad(res)) if res["violated"] else "accepted", time.time() - t1))
    if res["violated"]:
        kinds = {ALPHA_LETTER[c] for c in job.alpha}
        found = None
        tried = set()
        for mask, mname in MASKS:
            use = "".join(d for d in mask if int(d, 16) in kinds)
            if use in tried:
                continue          # same sub-alphabet on this graph
            tried.add(use)
            r = _tlc(ctx, graph, job.prios, job.k, job.cap, "C17-%s-m%s" % (job.name, use), mask=use, clause=clause)
            if r["violated"]:
                found = (r, mname)
                break
        if not found:
            raise tlc.TlcFailure("violation on %s disappeared under every mask" % job.name)
        r, mname = found
        sig0 = _bad(r)
        key = "C17:%s:%s" % (SIG_CLAUSE.get(sig0, sig0), mname)
        ins = _trace_inputs(r)
        # the replay: linear re-execution from the initial state in a fresh process, judged by the same monitor
        rp = os.path.join(wd, job.name + "-" + clause + "-replay.txt")
        with open(rp, "w") as f:
            f.write("".join("%s %d %d\n" % (k, m, a) for k, m, a, o in ins))
        lin = os.path.join(wd, job.name + "-" + clause + "-replay.ndjson")
        recs.run_harness(ctx, exe, ["replay", cfg, rp, lin])
        c = _tlc(ctx, lin, job.prios, job.k, job.cap, "C17-%s-confirm" % job.name, clause=clause)
        stats["traces"] += 1
        replay = {"prios": job.prios, "inputs": [{"in": k, "m": m, "a": a, "observed": o} for k, m, a, o in ins],
                  "selections": [o for k, m, a, o in ins if k == "next"]}
        samples.append(replay)
        if c["violated"] and _bad(c) == sig0:
            ctx.violation(key, "N=%d priorities %s: after %d steps (%s) the real scheduler selected %s - monitor: %s"
                          % (len(job.prios), job.prios, len(ins),
                             ",".join(sorted({k for k, m, a, o in ins if k not in ("next", "tick")})) or "no perturbation",
                             replay["selections"][-12:], sig0), replay)
        else:
            # the path exists in G but not in a fresh process: the state restore (translation of poll orders) is not
            # faithful for this tree.  Nothing is reported from this graph (rule: a rejection must reproduce); the exact
            # parts (re-add graphs in forked children, linear random executions) still decide; see the end of run().
            stats["unfaithful"].append(job.name)
            ctx.notes.append("graph %s: counterexample %s did not reproduce in a fresh process; graph discarded" % (job.name, key))
            ctx.log("   graph %s: counterexample did not reproduce in a fresh process - graph discarded" % job.name)


def _run_job(ctx, exe, wd, job, stats, samples):
    t0 = time.time()
    clauses = ["prop", "wait"] if set(job.alpha) & set("rxRpE") else ["both"]   # on re-add graphs report each clause on its own
    cfg = _cfgfile(wd, job.name, job.prios, job.maxnodes, job.cap, job.alpha, job.setprios)
    graph = os.path.join(wd, job.name + ".ndjson")
    out = recs.run_harness(ctx, exe, ["graph", cfg, graph], env=None if job.state else {"C17_NOSTATE": "1"}, timeout=3000)
    info = json.loads(out.strip().splitlines()[-1])
    if info["capped"]:
        # no fix-point within the node budget (does not happen on the pinned tree): P is still checked on the part
        # that was explored - every edge of it is a real transition - and the evidence says so
        ctx.notes.append("graph %s: no fix-point within %d nodes, bounded exploration (depth %d)" % (job.name, job.maxnodes, info["depth"]))
    stats["transitions"] += info["edges"]
    # trivial edges: setPollPriority to the priority a message already has (one per message and node when in the alphabet)
    stats["trivial"] += info["nodes"] * len(job.prios) if "s" in job.alpha else 0
    stats["graphs"][job.name] = {"prios": job.prios, "alphabet": job.alpha, "setprios": job.setprios, "K": job.k,
                                 "nodes": info["nodes"], "edges": info["edges"], "depth": info["depth"],
                                 "restore": info["mode"], "product_states": 0, "fixpoint": not info["capped"]}
    for clause in clauses:
        _judge_graph(ctx, exe, wd, job, cfg, graph, info, clause, stats, samples, time.time() - t0)
    if job.fidelity and job.state:
        fr = _tlc(ctx, graph, job.prios, job.k, job.cap, "C17-%s-fid" % job.name, mode="fidelity")
        drift = [v for v in fr["vf"] if len(v) > 2 and v[1] == "DRIFT"]
        stats["fidelity_nodes"] += info["nodes"]
        if drift:
            ctx.drift.append("graph %s: %d nodes whose edges differ from the concrete S step (first: node %s)" % (job.name, len(drift), drift[0][2]))
    ctx.log("   %s done after %.0fs" % (job.name, time.time() - t0))


def run(ctx):
    ctx.level = "model_checking"
    wd = recs.workdir("C17")   # per process, removed at exit
    exe = build.build("c17_poll", ["c17_poll.cpp"], ["ebus", "utils_noclock"])
    stats = {"states": 0, "transitions": 0, "graphs": {}, "traces": 0, "fidelity_nodes": 0, "unfaithful": [], "trivial": 0}
    samples = []
    design = {}

    # 1. S => P: the constants of the bounds hold on the design ------------------------------------------------------
    mcs = [("MC_Poll_nt.cfg", "N=4 {1,2,3,5} unperturbed, + vector top is arg-min", True),
           ("MC_Poll_pert_q.cfg", "N=2 {1,2} all perturbations except re-add, K=1", True),
           ("MC_Poll_readd.cfg", "N=2 (1,2) remove + re-add (new instance at g_lastPollOrder + priority), fix-point", True),
           ("MC_Poll_reload.cfg", "N=3 (1,2,3) reload of the map (all instances new) + setprio of message 2 over {1,3} + front insertion", True),
           ("MC_Poll_replace.cfg", "N=3 (1,2,3) definition of message 2 replaced (priority 1 or 3) + its setprio + front insertions", True),
           ("MC_Poll_self3.cfg", "N=3 (2,3,8), the priority of message 3 changed over {7,8,9} any number of times between selections", True)]
    if ctx.thorough:
        mcs += [("MC_Poll_pert_t.cfg", "N=3 priorities (1,1,2), setprio {1,2} / add front / back, K=1", True),
                ("MC_Poll_hi.cfg", "N=2 (1,2), setprio {1,7} / add front / back / condition use (7 -> 5), K=1", True),
                ("MC_Poll_self.cfg", "N=2 (1,8), priorities of both messages changed over {1,2,3,7,8,9} any number of times", True),
                ("MC_Poll_readd_t.cfg", "N=3 (1,2,3) re-add + setprio of message 2 over {1,3} + front insertion, K=1", True)]
    mcs += [("MC_Poll_argmin.cfg", "vector top is arg-min under perturbation (design note, expected to be refuted)", False),
            ("MC_Poll_readd_pinned.cfg", "design before the repair of MessageMap::add (new instance keeps order 0): expected to be refuted", False)]
    for cfg, what, must in mcs:
        t0 = time.time()
        r = tlc.run("MCPoll", cfg, workers=8, timeout=1500, tag="C17-" + cfg + _PID)
        stats["states"] += r["distinct"]
        design[cfg] = {"what": what, "states": r["distinct"], "result": "REFUTED " + ",".join(r["violated"]) if r["violated"] else "holds",
                       "trace": [s.get("obs") for s in r["trace"]][-12:]}
        ctx.log("S model %s (%s): %d states, %s (%.0fs)" % (cfg, what, r["distinct"], design[cfg]["result"], time.time() - t0))
        if must and r["violated"]:
            raise tlc.TlcFailure("the bound constants are refuted on the design (%s): adjust Poll.tla\n%s" % (cfg, r["out"][-1500:]))

    # 2. P on G + fidelity ---------------------------------------------------------------------------------------------
    jobs = [Job("n2full", [1, 2], "ntsaf", [1, 2, 3], 1),
            Job("n3add", [1, 2, 3], "ntaf", [1, 2, 3], 2),
            Job("n3victim", [1, 2, 8], "nv", [8, 9], 1),
            Job("n2readd", [1, 2], "nr", [1, 2], 1, cap=12, maxnodes=8000),
            Job("n2other", [1, 2], "nxRv", [2, 3], 1, cap=16, maxnodes=8000),
            Job("n2replace", [1, 2], "npf", [1, 3], 1, cap=8, maxnodes=8000),
            Job("n3cond0", [1, 2, 0], "ncE", [1], 1, cap=20, maxnodes=8000)]
    if ctx.thorough:
        jobs = [Job("n2full", [1, 2], "ntsaf", [1, 2, 3], 2),
                Job("n2cond7", [1, 2], "nsafc", [1, 7], 1),
                Job("n3add", [1, 2, 3], "ntafc", [1, 2, 3], 2),
                Job("n3prio", [1, 1, 2], "nts", [1, 2], 1),
                Job("n3victim", [1, 2, 8], "ntv", [3, 8, 9], 1),
                Job("n2readd", [1, 2], "nr", [1, 2], 1, cap=24, maxnodes=20000),
                Job("n3readd", [1, 2, 3], "nr", [1, 2, 3], 1, cap=12, maxnodes=30000),
                Job("n2readdmix", [1, 2], "nrsf", [1, 3], 1, cap=8, maxnodes=30000),
                Job("n2other", [1, 2], "nxRs", [1, 3], 1, cap=24, maxnodes=30000),
                Job("n3other", [1, 2, 3], "nxRv", [1, 3], 1, cap=12, maxnodes=30000),
                Job("n2replace", [1, 2], "npsf", [1, 3], 1, cap=8, maxnodes=30000),
                Job("n3replace", [1, 2, 3], "npf", [1, 3], 1, cap=8, maxnodes=30000),
                Job("n3cond0", [1, 2, 0], "ncE", [1], 1, cap=32, maxnodes=30000)]
    for job in jobs:
        _run_job(ctx, exe, wd, job, stats, samples)

    # 3. long seeded random executions as linear traces ---------------------------------------------------------------
    prios10 = [1, 2, 3, 4, 5, 6, 7, 8, 9, 9]
    # toggle = period (in selections) at which the last message's priority is switched between 8 and 9
    runs = [("rnd-pert", prios10, "ntsafcxp", 100, 7), ("rnd-storm", [3, 1, 4, 0, 5, 9, 2, 6], "ntsafcxRp", 400, 0),
            ("rnd-toggle", [1, 1, 1, 8], "nt", 0, 5)]
    if ctx.thorough:
        runs.insert(0, ("rnd-quiet", prios10, "nt", 0, 0))
    steps = 15000 if ctx.thorough else 4000
    for name, prios, alpha, permille, toggle in runs:
        t0 = time.time()
        cfg = _cfgfile(wd, name, prios, 0, 0, alpha, [])
        lin = os.path.join(wd, name + ".ndjson")
        recs.run_harness(ctx, exe, ["random", cfg, lin, steps, permille, toggle])
        r = _tlc(ctx, lin, prios, 3, 0, "C17-" + name, heap="10g")
        stats["states"] += r["distinct"]
        stats["traces"] += 1
        if r["violated"]:
            sig0 = _bad(r)
            ctx.violation("C17:%s:random-%s" % (SIG_CLAUSE.get(sig0, sig0), name),
                          "random execution %s (N=%d, seed %d) rejected after %d steps: %s" % (name, len(prios), ctx.seed, len(r["trace"]), sig0),
                          {"mode": "random", "cfg": name, "prios": prios, "seed": ctx.seed, "steps": steps, "permille": permille, "toggle_period": toggle})
        fr = _tlc(ctx, lin, prios, 3, 0, "C17-%s-fid" % name, mode="fidelity", heap="10g")
        drift = [v for v in fr["vf"] if len(v) > 2 and v[1] == "DRIFT"]
        stats["fidelity_nodes"] += steps
        if drift:
            ctx.drift.append("random run %s: %d steps differ from the concrete S step (first: node %s)" % (name, len(drift), drift[0][2]))
        ctx.log("random %s: N=%d %d steps, perturbation rate %d/1000, victim priority toggled every %d selections: %s, fidelity %s (%.0fs)"
                % (name, len(prios), steps, permille, toggle, "REJECTED " + str(_bad(r)) if r["violated"] else "accepted", "drift" if drift else "ok", time.time() - t0))
        if not samples:
            first = recs.read_ndjson(lin)[:40]
            samples.append({"random": name, "prios": prios, "first_selections": [n["succ"][0][3] for n in first if n["succ"] and n["succ"][0][0] == 1]})

    if stats["unfaithful"] and not any(":random-" in v["key"] for v in ctx.violations):
        raise RuntimeError("state restore not faithful on %s and the exact parts found nothing: no verdict" % stats["unfaithful"])
    ctx.notes.append({"design_S_implies_P": design})
    ctx.coverage = {
        "states": stats["states"], "transitions": stats["transitions"],
        "traces_validated_against_impl": stats["traces"], "graphs": stats["graphs"],
        "edges_compared_with_S": stats["fidelity_nodes"], "random_steps": steps * len(runs),
        "evaluations": stats["transitions"] + steps * len(runs), "distinct_nontrivial": stats["transitions"] - stats["trivial"],
        "rule": "graph edges are distinct (state,input) pairs of fix-point graphs of the real scheduler; trivial = setPollPriority "
                "to the priority the message already has (subtracted); random steps are not counted as distinct",
        "samples": samples[:4],
    }
    ctx.assumptions = [
        "TLC evaluates the TLA+ definitions correctly; the harness logs what the real functions returned",
        "graphs without re-add: state restore through VerifAccess up to a common translation of all poll orders and "
        "g_lastPollOrder (a file-static that can only be raised); exact for code that only compares/subtracts poll orders; "
        "every rejected path is re-executed from the initial state in a fresh process before it is reported",
        "a second MessageMap instance (own poll message, constructed as MainLoop::m_newlyDefinedMessages) lives beside the "
        "main map; input otherclear clears+reloads it and every second time destroys+recreates it; in P that is no event of "
        "the main map, in S a no-op (the maps share only the file-static g_lastPollOrder); reload = clear() of the main map + "
        "all definitions again (all messages new in P)",
        "graphs with re-add / other-map / reload inputs: exact re-execution in forked children; absolute minimum order capped in the visited-key "
        "(bounded exploration, not a fix-point in the absolute order)",
        "setPollPriority is driven as all callers do: addPollMessage(false) iff it returned true; priorities 1..9",
        "monitor: events applied to a message itself (setPollPriority, front/back insertion, condition use) never extend "
        "that message's own wait budget - it stays judged for any number of them, with the bound taken from the largest "
        "priority it has had; only events on OTHER messages add N to its allowance, and its wait is judged up to K of those "
        "since its last selection (K in the evidence)",
    ]
