"""C04 growth - the request side of the real BusHandler (poll / scan requests, grab table, seen flags, scan results).

spec/BusHandler.tla   P monitors (life cycle of every PollRequest / ScanRequest object, chained poll order and stores, scan
                      address finalisation and running-scan counter, grab table, monotone seen flags) + code-shaped S
spec/MC_BusHandler    S => P by TLC on small constants (repaired design holds; the design of the pinned tree and nine seeded
                      design errors are rejected = vacuity guard of P)
spec/BhGraph          P-on-G: the monitors on the transition graph extracted from the REAL BusHandler + MessageMap +
                      PollRequest / ScanRequest on the REAL DirectProtocolHandler + PlainDevice (harness/c04_bushandler.cpp),
                      one graph per configuration, each to a fix-point; seeded random walks as linear executions
spec/BhFidelity       every distinct notify / poll scheduling / startScan record of those graphs against the S operators (drift)

`run_growth(ctx)` is called from checks/c04.py.  Violations carry keys C04:poll:* / C04:scan:* / C04:grab:* / C04:seen:* /
C04:req:*; every rejection is re-executed linearly from the initial state and judged again before it is reported."""
import json
import os
import time

from vf import build, recs, graph, tlc

GROUPS = ["ebusd", "ebus", "utils_noclock", "knx"]

# name, harness arguments.  Every graph must reach a fix-point.
QUICK = [
    ("polls", ["scan=0"]),                                                   # two pollable messages (one chained), every fault
    ("scan", ["simple=0", "chained=0", "scan=1"]),                           # startScan over two slaves, ident + additional message
    ("scanwait", ["simple=0", "chained=0", "scan=0", "scanw=08"]),           # scanAndWait client (waited, deleted by its owner)
    ("mixed-small", ["chained=0", "scan=1", "nak=0", "crc=0", "arblose=0", "ok1=0"]),   # poll + scan requests share the queue
    ("traffic", ["chained=0", "scan=0", "f1=1", "f2=1", "nak=0", "crc=0", "preseen=0"]),   # foreign telegrams: grab table, seen flags, "updated by other means"
]
THOROUGH = QUICK + [
    ("mixed-faults", ["chained=0", "scan=1"]),
    ("mixed-chained", ["scan=1", "nak=0", "crc=0", "ok1=0", "arblose=0"]),
    ("scan-and-wait", ["simple=0", "chained=0", "scan=1", "scanw=15"]),        # a full scan and a waiting single-address scan share the queue
    ("scan-one-slave-no-extra", ["simple=0", "chained=0", "scan=1", "preseen=1", "scanmsg=0", "scanw=08"]),
    ("traffic-scan", ["chained=0", "scan=1", "f1=1", "f2=1", "nak=0", "crc=0", "arblose=0", "ok1=0", "to=0", "preseen=0"]),
]
MUTANTS = ["grab-twice", "poll-no-restart", "poll-restart-last", "poll-skip-part", "poll-no-store", "poll-leak",
           "scan-finish-twice", "scan-never-finished", "scan-no-restart"]
PINNED_SIG = "C04:scan:finished-request-without-owner"


def harness():
    return build.build("c04_bushandler", ["c04_bushandler.cpp"], GROUPS, libs=["-lmosquitto"])


def _check_graph(ctx, gf, tag, workers=4):
    return graph.check(ctx, "BhGraph", "BhGraph.cfg", gf, workers=workers, heap="6g", tag=tag, timeout=900)


def _confirm(ctx, exe, wd, args, sig, toks, tag):
    """linear re-execution of a rejected path from the initial state, judged again by the same monitors"""
    tf, of = "%s/replay-%s.txt" % (wd, tag), "%s/replay-%s.ndjson" % (wd, tag)
    with open(tf, "w") as f:
        f.write("".join(t + "\n" for t in toks))
    recs.run_harness(ctx, exe, ["replay", of, tf] + args)
    _, found = _check_graph(ctx, of, "C04bh-confirm-%s" % tag, workers=2)
    return sig in [s for s, _ in found]


def _report(ctx, exe, wd, name, args, found, what, mode="graph"):
    n = 0
    genuine = [f for f in found if not f[0].startswith("C04:harness:")]
    for sig, toks in found:
        # more live request objects than the monitors follow is the consequence of a leak that was reported already;
        # on its own it is a limit of the machinery, never a verdict
        if sig.startswith("C04:harness:") and not genuine and not ctx.violations:
            raise RuntimeError("harness inconsistency in %s: %s after %s" % (name, sig, toks[-5:]))
    for k, (sig, toks) in enumerate(genuine):
        if mode == "graph" and not _confirm(ctx, exe, wd, args, sig, toks, "%s-%d" % (name, k)):
            raise RuntimeError("rejected path of graph %s (%s) is not reproduced by linear re-execution: the state projection "
                               "used as visited-key is incomplete (tokens %s)" % (name, sig, toks))
        ctx.violation(sig, "%s (config %s, %d steps)" % (what, name, len(toks)),
                      {"growth": "bushandler", "harness": "c04_bushandler", "harness_args": args, "tokens": toks})
        n += 1
    return n


def model_check(ctx, cov):
    """S => P (no code involved) + vacuity guard of P"""
    t0 = time.time()
    res = tlc.run("MC_BusHandler", "MC_BusHandler.cfg", env={"VF_FIXED": "1"}, workers=4, heap="6g", timeout=900,
                  tag="C04bh-mc-%d" % os.getpid())
    cov["s_model"] = {"repaired_design": {"states": res["distinct"], "transitions": res["generated"], "violated": res["violated"],
                                           "wall_s": res["wall_s"]}}
    if res["violated"]:
        sigs = sorted({v[2] for v in res["vf"] if len(v) > 2})
        ctx.drift.append("bushandler: S => P fails on the repaired design model (%s): S or P of spec/BusHandler.tla is wrong" % sigs)
    pin = tlc.run("MC_BusHandler", "MC_BusHandler.cfg", env={"VF_FIXED": "0"}, workers=2, heap="4g", timeout=600,
                  tag="C04bh-mcpin-%d" % os.getpid())
    psigs = sorted({v[2] for v in pin["vf"] if len(v) > 2})
    cov["s_model"]["pinned_design"] = {"states": pin["distinct"], "rejected_with": psigs}
    if psigs != [PINNED_SIG]:
        raise RuntimeError("vacuity guard: the design of the pinned tree (startScan request not self-deleting) must be rejected "
                           "with %s, got %s" % (PINNED_SIG, psigs))
    muts = MUTANTS if ctx.thorough else MUTANTS[:5]
    rej = {}
    for m in muts:
        r = tlc.run("MC_BusHandler", "MC_BusHandler.cfg", env={"VF_FIXED": "1", "VF_MUT": m}, workers=2, heap="4g", timeout=600,
                    tag="C04bh-mut-%s-%d" % (m, os.getpid()))
        s = sorted({v[2] for v in r["vf"] if len(v) > 2})
        if not r["violated"] or not s:
            raise RuntimeError("vacuity guard: P accepts the seeded design error %s of S" % m)
        rej[m] = s[0]
    cov["s_model"]["seeded_design_errors_rejected"] = rej
    cov["s_model"]["wall_s"] = round(time.time() - t0, 1)
    return res["distinct"] + pin["distinct"], res["generated"] + pin["generated"]


def fidelity(ctx, wd, recfiles, cov):
    """distinct records of all graphs against the S operators; mismatches are drift"""
    allrec = set()
    for rf in recfiles:
        if os.path.exists(rf):
            with open(rf) as f:
                allrec.update(l for l in f if l.strip())
    path = wd + "/records.ndjson"
    lines = sorted(allrec)
    with open(path, "w") as f:
        f.writelines(lines)
    if not lines:
        raise RuntimeError("no records for S fidelity")
    res, bad = recs.judge(ctx, "BhFidelity", "BhFidelity.cfg", path, workers=4, heap="4g", tag="C04bh-fid")
    kinds = {}
    for l in lines:
        r = json.loads(l)
        k = r["pre"]["k"] if r["e"] == "ntf" else r["e"]
        kinds[k] = kinds.get(k, 0) + 1
    cov["s_fidelity"] = {"distinct_records": len(lines), "by_kind": kinds, "mismatches": len(bad)}
    for idx, sig in bad[:5]:
        ctx.drift.append("bushandler: S differs from the code on a %s record: %s" % (sig, lines[idx - 1].strip()[:600]))
    if len(bad) > 5:
        ctx.drift.append("bushandler: %d further S mismatches" % (len(bad) - 5))


def run_growth(ctx):
    t0 = time.time()
    exe = harness()
    wd = recs.workdir("C04bh")
    cov = {"configs": {}, "rule": "every configuration's graph is extracted to a fix-point from the real BusHandler + MessageMap + "
                                 "request objects on the real DirectProtocolHandler (one edge = one bus cycle or one client call); "
                                 "states / transitions are those of the product graph x P monitors explored by TLC"}
    states, trans = model_check(ctx, cov)
    nodes = edges = 0
    recfiles = []
    nviol = 0
    for name, args in (THOROUGH if ctx.thorough else QUICK):
        gf, rf = "%s/g-%s.ndjson" % (wd, name), "%s/r-%s.ndjson" % (wd, name)
        hargs = args + ["workers=%d" % (8 if ctx.thorough else 6), "maxnodes=%d" % (70000 if ctx.thorough else 30000)]
        out = recs.run_harness(ctx, exe, ["graph", gf] + hargs + ["recs=" + rf])
        info = json.loads(out.strip().splitlines()[-1])
        stats, found = _check_graph(ctx, gf, "C04bh-%s" % name)
        recfiles.append(rf)
        cov["configs"][name] = {"graph_nodes": info["nodes"], "graph_edges": info["edges"], "fixpoint": bool(info.get("fixpoint")),
                                "depth": info["depth"], "product_states": stats["distinct"], "product_transitions": stats["generated"],
                                "tlc_runs": stats["runs"], "rejected": [f[0] for f in found], "harness_args": " ".join(args)}
        states += stats["distinct"]
        trans += stats["generated"]
        nodes += info["nodes"]
        edges += info["edges"]
        if not info.get("fixpoint") and not found:
            raise RuntimeError("no fix-point within maxnodes for %s: %s (and no violation on the partial graph)" % (name, info))
        nviol += _report(ctx, exe, wd, name, args, found, "P monitor rejects a path of the real BusHandler's transition graph")
        ctx.log("bushandler", name, info, stats, [f[0] for f in found])
        try:
            os.remove(gf)
        except OSError:
            pass
    # linear complement: seeded random walks with all faults, foreign traffic and both kinds of scan clients at once
    steps = 200000 if ctx.thorough else 20000
    walks = []
    for k in range(4 if ctx.thorough else 1):
        args = ["scanw=08,15", "f1=1", "f2=1", "scan=1"]
        wf = "%s/walk-%d.ndjson" % (wd, k)
        n = steps // (4 if ctx.thorough else 1)
        out = recs.run_harness(ctx, exe, ["random", wf, str(n)] + args, env={"VERIF_SEED": str(ctx.seed * 10 + k)})
        info = json.loads(out.strip().splitlines()[-1])
        stats, found = _check_graph(ctx, wf, "C04bh-walk%d" % k, workers=2)
        states += stats["distinct"]
        trans += stats["generated"]
        # a walk is already linear: the rejected prefix is the witness (re-executable with the tokens)
        nviol += _report(ctx, exe, wd, "walk%d" % k, args, found, "P monitor rejects a seeded random walk of the real BusHandler", mode="walk")
        walks.append({"steps": n, "client_calls": info.get("client_calls"), "seed": ctx.seed * 10 + k, "rejected": [f[0] for f in found]})
        os.remove(wf)
    cov["random_walks"] = walks
    fidelity(ctx, wd, recfiles, cov)
    cov.update({"states": states, "transitions": trans, "graph_nodes": nodes, "graph_edges": edges,
                "traces_validated_against_impl": len(cov["configs"]) + len(walks), "violating_signatures": nviol,
                "wall_s": round(time.time() - t0, 1)})
    if not isinstance(ctx.coverage, dict):
        ctx.coverage = {}
    ctx.coverage["bushandler"] = cov
    for k in ("states", "transitions", "traces_validated_against_impl"):
        if isinstance(ctx.coverage.get(k), int):
            ctx.coverage[k] += cov[k]
    ctx.assumptions = list(ctx.assumptions) + [
        "bushandler growth: one graph edge is one bus cycle (SYN to SYN) or one client call; client calls interleave with the bus "
        "thread at cycle boundaries only (symbol-level interleavings of the queue operations are the subject of the proto graphs)",
        "bushandler growth: the bus simulator's alphabet (answer / alternative answer / NAK / bad CRC / no answer / signal loss / lost "
        "arbitration / two foreign telegrams) and the definitions (two pollable messages, one chained; identification + one "
        "additional scan message; <= 2 slaves) bound the search; ages of time stamps are clamped at 2 s in the visited-key",
        "bushandler growth: the virtual clock ticks once per bus cycle and once between the completion of a telegram and the "
        "request's notify (that is what makes a store by notify observable)",
    ]
    ctx.log("bushandler growth done in %.1fs" % (time.time() - t0), {k: cov[k] for k in ("states", "transitions", "graph_nodes", "graph_edges")})


def replay(ctx, rp):
    """re-run a recorded witness (evidence/replay/C04-*.json with growth = bushandler)"""
    exe = harness()
    wd = recs.workdir("C04bh")
    tf, of = wd + "/replay.txt", wd + "/replay.ndjson"
    with open(tf, "w") as f:
        f.write("".join(t + "\n" for t in rp["tokens"]))
    recs.run_harness(ctx, exe, ["replay", of, tf] + rp["harness_args"])
    _, found = _check_graph(ctx, of, "C04bh-replay", workers=2)
    for sig, toks in found:
        ctx.violation(sig, "P monitor rejects the replayed execution (%d steps)" % len(toks),
                      {"growth": "bushandler", "harness": "c04_bushandler", "harness_args": rp["harness_args"], "tokens": toks})
    return found


def main(argv):
    """development entry: python3 checks/c04_bushandler.py [--tier quick|thorough]; prints the verdict lines of the growth alone and
    writes no evidence file (bin/check C04 is wired through checks/c04.py)"""
    import argparse
    import sys
    import traceback
    from vf import core
    ap = argparse.ArgumentParser()
    ap.add_argument("--tier", default="quick", choices=["quick", "thorough"])
    a = ap.parse_args(argv)
    ctx = core.Ctx("C04", a.tier, int(os.environ.get("VERIF_SEED", "1") or "1"))
    ctx.coverage = {"states": 0, "transitions": 0, "traces_validated_against_impl": 0}
    t0 = time.time()
    try:
        run_growth(ctx)
    except SystemExit as e:
        print("MACHINERY-FAILURE property=C04 exit=%s" % e.code, flush=True)
        return 2
    except Exception:
        traceback.print_exc()
        print("MACHINERY-FAILURE property=C04 (bushandler growth)", flush=True)
        return 2
    for d in ctx.drift:
        print("DRIFT property=C04 %s" % d, flush=True)
    known = {f["key"] for f in core.load_findings() if f.get("status") == "known" and f.get("property") == "C04"}
    rc = 0
    for v in ctx.violations:
        if v["key"] in known:
            print("KNOWN-FINDING: property=C04 [%s]" % v["key"], flush=True)
            continue
        print("VIOLATION property=C04 # %s: %s\n   replay=%s" % (v["key"], v["what"], json.dumps(v["replay"])[:1500]), flush=True)
        rc = 1
    print(json.dumps(ctx.coverage["bushandler"], indent=1)[:6000])
    print("%s property=C04(bushandler growth) tier=%s wall=%.1fs" % ("FAIL" if rc else "PASS", a.tier, time.time() - t0), flush=True)
    return rc


if __name__ == "__main__":
    import sys
    _root = os.path.dirname(os.path.dirname(os.path.abspath(__file__)))
    sys.path.insert(0, os.path.join(_root, "lib"))
    sys.path.insert(0, _root)
    os.chdir(_root)
    sys.exit(main(sys.argv[1:]))
