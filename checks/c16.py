"""C16 - access levels are enforced on the read, write, poll, hex and HTTP paths and in data sinks.

P = spec/Access.tla: Granted(level, list) = level empty, or '*' is a token of the list, or the level is a token of the list
(exact token equality); session monitor (the connection acts for the last successfully authenticated user, otherwise with
the default levels); sink rule.
(i)   harness/c16_access.cpp `cl`: the real Message::checkLevel on ALL level lists over {a,b,;,*} up to length 7 (8) x all
      levels over {a,b} up to length 3; spec/C16Levels judges every pair and asserts the enumeration is complete.
(0)   spec/MC_Access: TLC explores the code-shaped session model S exhaustively against the monitor (S => P; the repaired
      variant must hold, the variant shaped like the pinned code must be rejected = vacuity guard of P).
(ii)  spec/C16Gen emits the small worlds x sessions defined in Access.tla; the in-process daemon (real MainLoop thread, UserList
      read from a generated ACL file, MessageMap, BusHandler, DirectProtocolHandler + PlainDevice on a fake transport with
      a scripted slave, DataSink subclass) replays them; spec/C16Judge judges per command the response class, the disclosed
      values, the telegrams put on the bus and the poll priorities, and notes drift from S.
A rejection that the whole-list reading of '*' would explain gets the signature C16:star-inside-list; everything else is
C16:<command form>:<response class> / C16:sink / C16:grants-without-token / C16:denies-token."""
import concurrent.futures as cf
import json
import os
import time

from vf import build, recs, tlc

GROUPS = ["ebusd", "ebus", "utils", "knx"]


def _key(sig):
    if isinstance(sig, str):
        sig = [sig]
    if sig and sig[0] == "star-inside-list":
        return "C16:star-inside-list"
    if sig and sig[0] == "cmd":
        return "C16:%s:%s" % (sig[1], sig[2])
    return "C16:" + "-".join(str(x) for x in sig[:1])


def _txt(codes):
    return "".join(chr(c) for c in codes)


def _levels15():
    return [""] + [_txt([98 if (x >> i) & 1 else 97 for i in range(n - 1, -1, -1)]) for n in (1, 2, 3) for x in range(1 << n)]


def _world_desc(w):
    return {"default(%s)" % w["dsrc"]: _txt(w["d"]) + (" / * line: " + _txt(w.get("d2", [])) if w["dsrc"] == "both" else ""),
            "users": [("u%d" % u["n"], "s%d" % u.get("sec", u["n"]), _txt(u["l"])) for u in w["users"]],
            "msgs": ["%s %s/%s level=%r" % (m["k"], m["c"], m["n"], _txt(m["lv"])) for m in w["msgs"]]}


def _judge_env(tier, star, wf, sf):
    return {"VF_TIER": tier, "VF_STAR": star, "VF_WORLDS": wf, "VF_SESSIONS": sf}


def _replay(ctx, exe, wd, wt=""):
    """re-run one recorded witness (evidence/replay/C16-*.json) against the current tree and let TLC judge it again."""
    with open(ctx.replay_path) as f:
        rp = json.load(f)["replay"]
    d = wd + "/replay"
    os.makedirs(d, exist_ok=True)
    if rp["family"] == "cl":
        rf = d + "/cl.ndjson"
        recs.run_harness(ctx, exe, ["cl1", rf, rp["list"]])
        res, bad = recs.judge(ctx, "C16Levels", "C16Levels.cfg", rf, workers=1, heap="2g", env={"VF_MAXLEN": "replay"}, tag="C16" + wt + "-rp")
        r = recs.read_ndjson(rf)[0]
        for idx, sig in bad:
            ctx.violation(_key(sig), "replay: checkLevel on list %r gives %s for levels %s" % (rp["list"], r["r"], _levels15()), rp)
        ctx.log("replayed checkLevel on %r: %s" % (rp["list"], "rejected again" if bad else "accepted now"))
    else:
        w = rp["world"]
        wf, sf, rf = d + "/worlds.ndjson", d + "/sessions.ndjson", d + "/recs.ndjson"
        with open(wf, "w") as f:
            f.write(json.dumps(w) + "\n")
        with open(sf, "w") as f:
            f.write(json.dumps({"lay": w["lay"], "cmds": rp.get("cmds") or [{"op": "auth1", "m": 1, "u": 1, "s": 0}]}) + "\n")
        recs.run_harness(ctx, exe, ["ses", rf, wf, sf, d])
        res, bad = recs.judge(ctx, "C16Judge", "C16Judge.cfg", rf, workers=1, heap="2g",
                              env=_judge_env("replay", "whole", wf, sf), tag="C16" + wt + "-rp")
        rr = recs.read_ndjson(rf)
        for idx, sig in bad:
            r = rr[idx - 1]
            if r["f"] != rp["family"] or (r["f"] == "sk" and r["su"] != rp["rec"]["su"]):
                continue
            ctx.violation(_key(sig), "replay: world %s: %s" % (_world_desc(w), json.dumps(r)[:600]), rp)
        ctx.log("replayed %s case: %s" % (rp["family"], "rejected again" if ctx.violations else "accepted now"))
    ctx.coverage = {"states": 1, "transitions": 1, "traces_validated_against_impl": 1, "samples": [rp]}


def run(ctx):
    ctx.level = "model_checking"
    t00 = time.time()
    wt = os.environ.get("VERIF_WORKTAG", "")     # lets several runs (mutation tests) work side by side
    wd = recs.workdir("C16" + wt)
    exe = build.build("c16_access", ["c16_access.cpp"], GROUPS, libs=["-lmosquitto"])
    if getattr(ctx, "replay_path", None):
        return _replay(ctx, exe, wd, wt)
    tier = ctx.tier
    jobs = int(os.environ.get("VERIF_JOBS_C16", "8"))
    found = []          # (rank, key, what, replay) - reported at the end, the most readable witness of a key first

    # ---- (i) checkLevel on all pairs ---------------------------------------------------------------------------------
    maxlen = 8 if ctx.thorough else 7
    clf = wd + "/cl.ndjson"
    recs.run_harness(ctx, exe, ["cl", clf, maxlen])
    clr = recs.read_ndjson(clf)
    res, bad = recs.judge(ctx, "C16Levels", "C16Levels.cfg", clf, workers=jobs, heap="8g", env={"VF_MAXLEN": maxlen}, tag="C16" + wt + "-cl")
    cl_states, cl_trans = res["distinct"], res["generated"]
    lv15 = _levels15()
    for idx, sig in bad:
        r = clr[idx - 1]
        ls = _txt(r["ls"])
        found.append((2 if ls == "a;*" else 3 + len(ls), _key(sig),
                      "Message::checkLevel disagrees with token membership for the level list %r: it grants exactly the levels %s"
                      % (ls, [lv15[k] for k in range(15) if r["r"][k]]), {"family": "cl", "list": ls, "results": r["r"]}))
    star = "whole" if any(_txt(r["ls"]) == "a;*" and r["r"][2] == 0 for r in clr) else "token"
    ctx.log("checkLevel: %d lists x 15 levels judged, %d lists rejected; shape of the code for '*': %s (%.1fs)"
            % (len(clr), len(bad), star, time.time() - t00))

    # ---- (0) S => P -------------------------------------------------------------------------------------------------------
    t0 = time.time()
    mc = tlc.run("MC_Access", "MC_AccessThorough.cfg" if ctx.thorough else "MC_Access.cfg", workers=jobs, timeout=2400,
                 heap="8g", tag="C16" + wt + "-mc")
    if mc["violated"]:
        raise tlc.TlcFailure("S(token) => P does not hold (the model or the oracle is wrong): " + str(mc["vf"][:1])[:1500])
    mcp = tlc.run("MC_Access", "MC_AccessPinned.cfg", workers=2, timeout=600, heap="4g", tag="C16" + wt + "-mcp")
    if "SImpliesP" not in mcp["violated"]:
        raise tlc.TlcFailure("vacuity: P does not reject the whole-list-star variant of S")
    ctx.log("S=>P: %d states, %d transitions, holds for the repaired variant; the variant shaped like '*'-only-as-whole-list "
            "is rejected by P (%.1fs)" % (mc["distinct"], mc["generated"], time.time() - t0))

    # ---- (ii) worlds x sessions on the in-process daemon ----------------------------------------------------------------
    t0 = time.time()
    wf, sf = wd + "/worlds.ndjson", wd + "/sessions.ndjson"
    gen = tlc.run("C16Gen", "C16Gen.cfg", env={"VF_TIER": tier, "VF_WORLDS": wf, "VF_SESSIONS": sf}, workers=1, timeout=900,
                  heap="8g", tag="C16" + wt + "-gen")
    g = [v for v in gen["vf"] if v[1] == "GEN"]
    if not g:
        raise tlc.TlcFailure("generator printed no GEN line:\n" + gen["out"][-2000:])
    nworlds, nsessions = g[0][2], g[0][3]
    worlds, sessions = recs.read_ndjson(wf), recs.read_ndjson(sf)
    if len(worlds) != nworlds or len(sessions) != nsessions:
        raise tlc.TlcFailure("case files do not have the announced sizes")
    per = 90       # worlds per shard (one harness process and one TLC run per shard)
    shards = [(a, min(a + per, nworlds)) for a in range(0, nworlds, per)]

    def replay(k):
        a, b = shards[k]
        d = "%s/shard%03d" % (wd, k)
        os.makedirs(d, exist_ok=True)
        rf = d + "/recs.ndjson"
        recs.run_harness(ctx, exe, ["ses", rf, wf, sf, d, a, b], timeout=2400)
        return rf

    with cf.ThreadPoolExecutor(max_workers=jobs) as ex:
        files = list(ex.map(replay, range(len(shards))))
    ctx.log("TLC generated %d worlds, %d sessions; replayed on the daemon in %d shards (%.1fs)"
            % (nworlds, nsessions, len(shards), time.time() - t0))
    t0 = time.time()

    def judge(k):
        return recs.judge(ctx, "C16Judge", "C16Judge.cfg", files[k], workers=4, heap="6g", timeout=2400,
                          env=_judge_env(tier, star, wf, sf), tag="C16" + wt + "-j%03d" % k)

    with cf.ThreadPoolExecutor(max_workers=max(1, (jobs + 1) // 3)) as ex:
        results = list(ex.map(judge, range(len(shards))))
    seen = set()
    nrec = ncmd = nsk = drift = states = trans = 0
    sample = None
    distinct = set()
    by_rc = {}
    for k, (res, bad) in enumerate(results):
        rr = recs.read_ndjson(files[k])
        states += res["distinct"]
        trans += res["generated"]
        for v in res["vf"]:
            if v[1] == "SHARD" and v[2] == v[4] - v[3] + 1:
                seen |= set(range(v[3], v[4] + 1))
            elif v[1] == "DRIFT":
                drift += 1
        for r in rr:
            if r["f"] == "ses":
                nrec += 1
                ncmd += len(r["o"])
                cm = sessions[r["s"] - 1]["cmds"]
                for c, o in zip(cm, r["o"]):
                    distinct.add((r["w"], c["op"], c["m"], c["u"], c["s"], o["rc"], tuple(o["val"]), tuple(o["bus"]), o["usr"]))
                    by_rc[o["rc"]] = by_rc.get(o["rc"], 0) + 1
                if sample is None and any(o["rc"] == "ok" for o in r["o"]) and any(o["rc"] in ("nf", "na") for o in r["o"]):
                    sample = {"world": _world_desc(worlds[r["w"] - 1]), "cmds": cm[:8], "obs": r["o"][:8]}
            else:
                nsk += 1
        for idx, sig in bad:
            r = rr[idx - 1]
            w = worlds[r["w"] - 1]
            if r["f"] == "ses":
                kk = sig[-1] if isinstance(sig, list) and isinstance(sig[-1], int) else 1
                cm = sessions[r["s"] - 1]["cmds"]
                what = "world %s: after %s the command %s was answered %s - rejected by the Access monitor" % (
                    _world_desc(w), [c["op"] + (str(c["u"]) if c["op"].startswith("auth") else "") for c in cm[:kk - 1]][-3:],
                    cm[kk - 1], r["o"][kk - 1])
                found.append((0 if kk <= 3 else 1, _key(sig), what[:1000],
                              {"family": "ses", "world": w, "cmds": cm[:kk], "obs": r["o"][:kk]}))
            else:
                what = "world %s: a sink configured with user %d is told about %s, finds %s, lists %s" % (
                    _world_desc(w), r["su"], r["upd"], r["fnd"], r["all"])
                found.append((1, _key(sig), what[:1000], {"family": "sk", "world": w, "rec": r}))
    if seen != set(range(1, nworlds + 1)):
        raise tlc.TlcFailure("shards do not cover all worlds: %d of %d" % (len(seen), nworlds))
    for rank, key, what, rep in sorted(found, key=lambda x: (x[0], x[1], len(x[2]))):
        ctx.violation(key, what, rep)
    if drift:
        ctx.drift.append("%d session records differ from the code-shaped model S(%s) although P accepts them" % (drift, star))
    ctx.log("judged %d sessions (%d commands) + %d sink records: %d rejected (%.1fs)"
            % (nrec, ncmd, nsk, sum(len(b) for _, b in results), time.time() - t0))
    ctx.coverage = {
        "states": mc["distinct"] + states + cl_states,
        "transitions": mc["generated"] + trans + cl_trans,
        "traces_validated_against_impl": nrec,
        "evaluations": len(clr) * 15 + ncmd + nsk * 3,
        "distinct_nontrivial": len({(tuple(r["ls"]), k) for r in clr if r["ls"] for k in range(1, 15)}) + len(distinct),
        "rule": "checkLevel: distinct (list, level) pairs with non-empty list and non-empty level; sessions: "
                "distinct (world, command form, slot, credentials, response class, disclosed values, telegrams, session user) tuples",
        "samples": [{"checkLevel": {"list": _txt(clr[100]["ls"]), "levels": lv15, "results": clr[100]["r"]}}, sample],
        "exhaustive": True,
        "mc": {"S_token_implies_P": True, "states": mc["distinct"], "transitions": mc["generated"],
               "S_whole_rejected_by_P": True, "pinned_variant_states_until_rejection": mcp["generated"]},
        "worlds": nworlds, "sessions": nsessions, "session_records": nrec, "commands_judged": ncmd, "sink_records": nsk,
        "responses_by_class": by_rc,
        "checklevel_lists": len(clr), "checklevel_maxlen": maxlen, "code_star_shape": star, "s_conforms": drift == 0,
        "tlc_lemmas": ["no prefix/suffix/infix grant", "'*' token anywhere grants", "empty level always granted",
                       "empty list grants nothing", "Tokens examples"],
    }
    # growth: semantics of read / write / find (spec/Commands.tla); informs only (DRIFT lines), no listed property
    try:
        from checks import grow_commands
        ctx.coverage["growth_commands"] = grow_commands.run_growth(ctx)
    except Exception as e:   # a failing growth run is a machinery problem of the informing part only
        ctx.notes.append("commands growth failed: %s" % str(e)[:300])
    # growth: MQTT data handler (spec/MqttHandler.tla) on the real MqttHandler with a fake MqttClient; notes only
    try:
        from checks import grow_mqtt
        ctx.coverage["growth_mqtt"] = grow_mqtt.run_growth(ctx)
    except Exception as e:
        ctx.notes.append("mqtt growth failed: %s" % str(e)[:300])
    ctx.assumptions = [
        "TLC evaluates the TLA+ definitions correctly; the harness logs what the daemon answered and what the fake transport was asked to write",
        "the hand-over to the bus thread is replaced by in-line stepping of the real handleSend/handleReceive "
        "(StepHandler::addRequest); the scripted slave answers every telegram",
        "time() stands still (virtual clock): cache ages are inputs, MainLoop's periodic tasks never fire",
        "level names over {a,b}, lists over {a,b,;,*}; message layouts: read+write, + passive twin, + same name in a second circuit, "
        "ambiguous ACLs, and (5) two conditional variants of one circuit/name with different levels selected by a value seen on the bus "
        "(by-name telnet reads only; listings may skip the unavailable variant)",
        "after a FAILED auth both readings (earlier user kept / back to default) are accepted; 'usage' answers are accepted as refusals; "
        "an HTTP request with bad credentials may be refused or served with the default levels",
        "find -l, listen, define and the MQTT/KNX classes themselves are outside (sinks are exercised through a DataSink subclass)",
    ]
