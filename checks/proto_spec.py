"""S for the protocol stack (spec/Protocol.tla) bound to the code: fidelity of S against extracted full-state graphs, and
S => P by pure TLC model checking.  Nothing here can produce a violation: a fidelity mismatch is model DRIFT.

    from checks import proto_spec
    n, bad = proto_spec.fidelity(ctx, exe, ["submit=0", "nn=1", "snn=1"], sample=None)   # bad: [(node, edge, fields), ...]
    proto_spec.report_drift(ctx, "plain-nn1", n, bad)                                    # -> ctx.drift
    res = proto_spec.model_check(ctx)                                                    # {"distinct":.., "generated":.., ...}

Stand-alone:  python3 -m checks.proto_spec fidelity [--sample K] [--debug] <harness args...>
              python3 -m checks.proto_spec mc [quick|thorough]
"""
import json
import os
import re
import sys

if __name__ == "__main__":
    sys.path.insert(0, os.path.join(os.path.dirname(os.path.abspath(__file__)), "..", "lib"))
    sys.path.insert(0, os.path.join(os.path.dirname(os.path.abspath(__file__)), ".."))

from vf import build, recs, tlc


def harness():
    return build.build("proto", ["proto.cpp"], ["ebus", "utils_noclock"])


def _hexl(s):
    return [] if s in ("-", "") else [int(s[i:i + 2], 16) for i in range(0, len(s), 2)]


def pcfg_json(args):
    """the constant PC of spec/Protocol.tla, derived from the harness arguments (defaults = struct Cfg of harness/proto.cpp)"""
    c = {"own": 0x31, "lock": 3, "gensyn": 0, "readonly": 0, "answer": 0, "buslost": 0, "autopoll": 1, "cbsubmit": 1,
         "reqs": [], "answers": [],
         # status of a deleted request slot as the projection shows it (3; VF_DELSTATUS=2 reproduces a harness binary in which
         # GCC's lifetime DSE removed the store `status = 3` of ~VReq)
         "delstatus": int(os.environ.get("VF_DELSTATUS", "3"))}
    for a in args:
        k, _, v = a.partition("=")
        if v == "":
            v = "1"
        b = int(v != "0")
        if k == "own":
            c["own"] = int(v[0:2], 16)
        elif k == "lock":
            c["lock"] = int(v)
        elif k == "gensyn":
            c["gensyn"] = b
        elif k == "readonly":
            c["readonly"] = b
        elif k == "answer":
            c["answer"] = b
        elif k == "buslost":
            c["buslost"] = int(v)
        elif k == "autopoll":
            c["autopoll"] = b
        elif k == "cbsubmit":
            c["cbsubmit"] = b
        elif k == "req":  # req=<kind>:<hex master>[:restarts]
            f = v.split(":")
            c["reqs"].append({"kind": int(f[0]), "master": _hexl(f[1].replace(",", "")), "restarts": int(f[2]) if len(f) > 2 else 0})
        elif k == "ans":  # ans=<src|aa>:<dst>:<pbsb>:<id|->:<answer|->
            f = v.split(":")
            c["answers"].append({"src": int(f[0], 16), "dst": int(f[1], 16), "pb": int(f[2][0:2], 16), "sb": int(f[2][2:4], 16),
                                 "id": _hexl(f[3]), "answer": _hexl(f[4]) if len(f) > 4 else []})
        elif k == "enhanced" and b:
            raise ValueError("spec/Protocol.tla models the plain device only")
    return c


def _count_edges(path, sample):
    """edges of the judged nodes (every sample-th node that carries a state), counted from the file"""
    n = edges = nodes = 0
    with open(path) as f:
        for line in f:
            n += 1
            if '"st":' not in line or (n - 1) % sample:
                continue
            nodes += 1
            edges += len(re.findall(r'\{"in":"', line))
    return nodes, edges


def fidelity(ctx, exe, args, sample=None, workers=4, heap="12g", debug=False, keep=None, timeout=2400):
    """extract the full-state graph for `args` from the real code and let TLC compare every edge with StepF of Protocol.tla.
    sample=k judges every k-th node only (quick mode).  Returns (edges_checked, [(node, edgeIndex, [fields that differ]), ...])."""
    sample = int(sample or 1)
    wd = recs.workdir("protospec")
    tag = "%d-%d" % (os.getpid(), abs(hash(tuple(args))) % 100000)
    gf = keep or "%s/fid-%s.ndjson" % (wd, tag)
    hargs = ["graph", gf] + [a for a in args if not a.startswith("events=")]
    if not any(a.startswith("maxnodes=") for a in args):
        hargs.append("maxnodes=250000")
    out = recs.run_harness(ctx, exe, hargs, env={"VF_FULLSTATE": "1"})
    info = json.loads(out.strip().splitlines()[-1])
    cf = "%s/pcfg-%s.json" % (wd, tag)
    with open(cf, "w") as f:
        json.dump(pcfg_json(args), f)
    env = {"VF_GRAPH": gf, "VF_PCFG": cf, "VF_SAMPLE": sample, "VF_UB": 1,
           "VF_KEYSEEN": int(any(a in ("keyseen=1", "keyseen") for a in args)), "VF_DEBUG": int(bool(debug))}
    res = tlc.run("ProtocolFidelity", "ProtocolFidelity.cfg", env=env, workers=workers, heap=heap, cont=True, timeout=timeout,
                  tag="protofid-" + tag)
    bad = sorted((v[2], v[3], sorted(v[4])) for v in res["vf"] if len(v) >= 5 and v[1] == "BAD")
    if res["violated"] and not bad:
        raise tlc.TlcFailure("invariant violated without BAD line:\n" + res["out"][-3000:])
    nodes, edges = _count_edges(gf, sample)
    if res["distinct"] != info["nodes"] + 1:
        raise tlc.TlcFailure("fidelity run visited %d of %d nodes" % (res["distinct"] - 1, info["nodes"]))
    fidelity.last = {"graph": info, "nodes_judged": nodes, "edges_judged": edges, "sample": sample, "wall_s": res["wall_s"],
                     "ub_edges": sum(len(v[3]) for v in res["vf"] if len(v) >= 4 and v[1] == "UB"),
                     "details": [v for v in res["vf"] if len(v) >= 5 and v[1] == "DETAIL"]}
    if ctx is not None and hasattr(ctx, "log"):
        ctx.log("fidelity", " ".join(args), fidelity.last["graph"], "edges", edges, "mismatches", len(bad), "wall", res["wall_s"])
    if not keep:
        try:
            os.remove(gf)
        except OSError:
            pass
    return edges, bad


fidelity.last = {}


def report_drift(ctx, name, edges, bad):
    """DRIFT reporting only (never a violation)"""
    if bad:
        fields = sorted({f for _, _, fs in bad for f in fs})
        ctx.drift.append("S (spec/Protocol.tla) differs from the code on %d of %d edges of graph %s (fields %s; first: node %d edge %d)"
                         % (len(bad), edges, name, ",".join(fields), bad[0][0], bad[0][1]))


# ---------------------------------------------------------------- S => P, pure TLC
MC_CFGS = {"quick": ["MC_Protocol.cfg", "MC_Protocol_answer.cfg"],
           "thorough": ["MC_Protocol.cfg", "MC_Protocol_answer.cfg", "MC_Protocol_gensyn.cfg", "MC_Protocol_faults.cfg",
                        "MC_Protocol_faults2.cfg"]}


def model_check(ctx, tier=None, workers=4, heap="8g"):
    """S => P on the bounded model: TLC explores Next == \\E token \\in EnvTokens(st) : st' = StepF(st, token).post with the
    monitors of BusMonitors.tla as invariants.  Returns {cfg: {"distinct", "generated", "wall_s", "violated", "vf"}}."""
    tier = tier or ("thorough" if ctx is not None and getattr(ctx, "thorough", False) else "quick")
    out = {}
    for cfg in MC_CFGS[tier]:
        res = tlc.run("MC_Protocol", cfg, workers=workers, heap=heap, timeout=900, tag="mcproto-%s-%d" % (cfg, os.getpid()))
        out[cfg] = {"distinct": res["distinct"], "generated": res["generated"], "wall_s": res["wall_s"], "violated": res["violated"],
                    "vf": res["vf"][:5]}
        if ctx is not None and hasattr(ctx, "log"):
            ctx.log("S=>P", cfg, out[cfg])
        if res["violated"] and ctx is not None and hasattr(ctx, "drift"):
            # the design model breaks a monitor: informational (the verdict comes from P on G)
            ctx.drift.append("S => P fails in %s: %s %s" % (cfg, res["violated"], res["vf"][:2]))
    return out


class _Ctx:
    seed = 1
    thorough = False
    drift = []

    def log(self, *a):
        print("[log]", *a)


if __name__ == "__main__":
    mode = sys.argv[1]
    ctx = _Ctx()
    if mode == "fidelity":
        a = sys.argv[2:]
        sample, debug, keep = 1, False, None
        while a and a[0].startswith("--"):
            if a[0] == "--sample":
                sample = int(a[1]); a = a[2:]
            elif a[0] == "--debug":
                debug = True; a = a[1:]
            elif a[0] == "--keep":
                keep = a[1]; a = a[2:]
        n, bad = fidelity(ctx, harness(), a, sample=sample, debug=debug, keep=keep)
        print(json.dumps({"edges_checked": n, "mismatches": len(bad), "first": bad[:20], **{k: v for k, v in fidelity.last.items() if k != "details"}}))
        for d in fidelity.last["details"][:10]:
            print(d)
    elif mode == "mc":
        print(json.dumps(model_check(ctx, tier=sys.argv[2] if len(sys.argv) > 2 else "quick"), indent=1))
