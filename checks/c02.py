"""C02 - active requests: wire format and truthful result.  P = SendMon on the real handler's graph."""
from checks import proto_common as pc

QUICK = [
    ("ms-plain", ["req=0:3115b5090142", "submit=1", "qq=", "nn=1", "snn=1"]),
    ("ms-2esc", ["req=0:3115b50902a9aa", "submit=1", "qq=", "nn=0", "snn=1", "data=42,a9"]),
    ("bc-mm-escaped", ["req=0:31feb50901a9", "req=1:3103b5090100", "submit=1", "qq=", "nn=1", "snn=0", "echofaults=0"]),
    ("enh-ms", ["enhanced=1", "req=0:3115b5090142", "submit=1", "qq=", "nn=1", "snn=1", "echofaults=0"]),
]
THOROUGH = QUICK


def run(ctx):
    pc.run_configs(ctx, "C02", "s", THOROUGH if ctx.thorough else QUICK)
