"""C02 - active requests: wire format and truthful result.  P = SendMon on the real handler's graph."""
from checks import proto_common as pc

QUICK = [
    ("ms-plain", ["req=0:3115b5090142", "submit=1", "qq=", "nn=1", "snn=1"]),
    ("ms-2esc", ["req=0:3115b50902a9aa", "submit=1", "qq=", "nn=0", "snn=1", "data=42,a9"]),
    ("chunk2-mm", ["chunk2=1", "req=0:3103b5090100", "submit=1", "qq=03", "zz=fe,10", "nn=0", "snn=0", "echofaults=0", "win=03", "buslost=0"]),
    ("bc-mm-escaped", ["req=0:31feb50901a9", "req=1:3103b5090100", "submit=1", "qq=", "nn=1", "snn=0", "echofaults=0"]),
    ("enh-ms", ["enhanced=1", "req=0:3115b5090142", "submit=1", "qq=", "nn=1", "snn=1", "echofaults=0"]),
    # the adapter reports another symbol than the one ebusd asked it to send / nothing at all, at every position
    ("enh-echofaults", ["enhanced=1", "req=0:3115b50901a9", "submit=1", "qq=", "nn=0", "snn=0", "echofaults=1"]),
    ("enh-mm-ctl", ["enhanced=1", "enhctl=1", "req=0:3103b5090100", "submit=1", "qq=", "nn=0", "snn=0", "echofaults=0"]),
]
THOROUGH = QUICK + [
    ("ms-2esc-nn", ["req=0:3115b50902a9aa", "submit=1", "qq=", "nn=0", "snn=2", "data=42,a9,aa"]),
    ("enh-2esc", ["enhanced=1", "req=0:3115b50902a9aa", "submit=1", "qq=", "nn=0", "snn=1", "data=42,a9"]),
    ("buslost-retries", ["req=0:3115b5090100", "submit=1", "qq=03", "zz=fe", "nn=0", "snn=0", "buslost=2", "win=03,11", "echofaults=0"]),
]


def run(ctx):
    if getattr(ctx, "replay_path", None):
        return pc.replay(ctx, "C02", "s")
    n = 400000 if ctx.thorough else 40000
    rnd = [("rnd-plain", n, ["req=0:3115b50900", "req=0:3115b50900", "buslost=2"]),
           ("rnd-enh", n, ["enhanced=1", "req=0:3115b50900", "req=0:3115b50900", "buslost=2"])]
    pc.run_configs(ctx, "C02", "s", THOROUGH if ctx.thorough else QUICK, random_runs=rnd,
                   spec_fidelity=[("S:ms-2esc", ["req=0:3115b50902a9aa", "submit=1", "qq=", "nn=0", "snn=1", "data=42,a9"], 16)], spec_mc=ctx.thorough)
