"""Shared driver of the protocol-stack checks (C01-C04, C15): extract the real handler's transition graph with
harness/proto.cpp, let TLC run the selected P monitors (spec/BusMonitors.tla) on it (spec/ProtoGraph.tla)."""
import json
import os

from vf import build, recs, graph

EVENTS = {
    "r": "rx,tx,to,err,close,msg,unread",
    "s": "rx,tx,to,err,close,msg,sub,subcb,ntf,del,fin,bad",
    "t": "rx,tx,to,err,close,msg,sub,subcb,ntf,del,fin,bad",
    "q": "rx,tx,enhreq,err,close,to,sub,subcb,ntf,del,fin,bad,nofin",
    "a": "rx,tx,to,err,close,msg",
}


def harness():
    return build.build("proto", ["proto.cpp"], ["ebus", "utils_noclock"])


def cfg_json(args):
    """derive the monitors' view of the configuration from the harness arguments"""
    c = {"own": 0x31, "lock": 3, "gensyn": 0, "readonly": 0, "answers": []}
    for a in args:
        k, _, v = a.partition("=")
        if k == "own":
            c["own"] = int(v, 16)
        elif k == "lock":
            c["lock"] = int(v)
        elif k == "gensyn":
            c["gensyn"] = int(v != "0")
        elif k == "readonly":
            c["readonly"] = int(v != "0")
        elif k == "ans":
            f = v.split(":")
            hexl = lambda s: [] if s == "-" else [int(s[i:i + 2], 16) for i in range(0, len(s), 2)]
            c["answers"].append({"src": int(f[0], 16), "dst": int(f[1], 16), "pb": int(f[2][0:2], 16), "sb": int(f[2][2:4], 16),
                                 "id": hexl(f[3]), "answer": hexl(f[4]) if len(f) > 4 else []})
    return c


def replay(ctx, pid, mons):
    """bin/check Cxx --replay file : re-execute a recorded witness (harness_args + tokens) on the real handler of the current tree in
    a fresh process and let TLC judge the resulting linear trace with the same monitors."""
    rp = json.load(open(ctx.replay_path))
    r = rp.get("replay", rp)
    ctx.level = "model_checking"
    ctx.coverage = {"states": 0, "transitions": 0, "traces_validated_against_impl": 0, "samples": [r]}
    if r.get("growth") == "bushandler" or r.get("harness") == "c04_bushandler":
        from checks import c04_bushandler
        c04_bushandler.replay(ctx, r)
        return True
    if r.get("mode") == "queue":
        from vf import tlc
        wd = recs.workdir(pid + "rp")
        hf = wd + "/hist.ndjson"
        with open(hf, "w") as f:
            f.write(json.dumps({"h": 1, "hang": 0, "ev": r["history"]}) + "\n")
        res = tlc.run("QueueLin", "QueueLin.cfg", env={"VF_HISTS": hf}, workers=2, timeout=600, heap="4g", tag="QUEUE-replay-%d" % os.getpid())
        if not [v for v in res["vf"] if v[1] == "ACC"]:
            ctx.violation(rp.get("key", "C04:queue:not-linearizable"), "the recorded history is not linearizable w.r.t. spec/QueueLin.tla "
                          "(a recorded history of real threads: re-validated, not re-executed)", r)
        return True
    if r.get("mode") == "run" or "tokens" not in r:
        ctx.notes.append("this witness comes from a run with real threads (sampled schedule); it cannot be re-executed deterministically - "
                         "re-run the check itself")
        return True
    exe = harness()
    wd = recs.workdir(pid + "rp")
    tf, gf, cf = wd + "/tokens.txt", wd + "/replay.ndjson", wd + "/cfg.json"
    with open(tf, "w") as f:
        f.write("".join(t + "\n" for t in r["tokens"]))
    args = list(r["harness_args"])
    recs.run_harness(ctx, exe, ["replay", gf, tf] + args)
    with open(cf, "w") as f:
        json.dump(cfg_json(args), f)
    stats, found = graph.check(ctx, "ProtoGraph", "ProtoGraph.cfg", gf, env={"VF_MON": mons, "VF_CFG": cf}, tag="%s-replay" % pid,
                               heap="4g", workers=2)
    ctx.coverage.update({"states": stats["distinct"], "transitions": stats["generated"], "traces_validated_against_impl": 1})
    for sig, toks in found:
        if sig.startswith(pid + ":"):
            ctx.violation(sig, "P monitor rejects the replayed execution of the real handler (%d steps)" % len(toks),
                          {"harness_args": args, "tokens": toks})
    return True


def run_configs(ctx, pid, mons, configs, heap="12g", workers=8, random_runs=None, spec_fidelity=None, spec_mc=False):
    ctx.level = "model_checking"
    exe = harness()
    wd = recs.workdir(pid)
    states = trans = nodes = edges = 0
    per = {}
    samples_extra = []
    evs = sorted(set(",".join(EVENTS[m] for m in mons).split(",")))
    for name, args in configs:
        gf = "%s/g-%s.ndjson" % (wd, name)
        hargs = ["graph", gf] + args + ["events=" + ",".join(evs)]
        if not any(a.startswith("maxnodes=") for a in args):
            hargs.append("maxnodes=%d" % (400000 if ctx.thorough else 250000))
        out = recs.run_harness(ctx, exe, hargs)
        info = json.loads(out.strip().splitlines()[-1])
        cf = "%s/cfg-%s.json" % (wd, name)
        with open(cf, "w") as f:
            json.dump(cfg_json(args), f)
        stats, found = graph.check(ctx, "ProtoGraph", "ProtoGraph.cfg", gf, env={"VF_MON": mons, "VF_CFG": cf},
                                   tag="%s-%s" % (pid, name), heap=heap, workers=workers)
        per[name] = {"graph_nodes": info["nodes"], "graph_edges": info["edges"], "fixpoint": bool(info.get("fixpoint")),
                     "product_states": stats["distinct"], "product_transitions": stats["generated"],
                     "tlc_runs": stats["runs"], "harness_args": " ".join(args)}
        states += stats["distinct"]
        trans += stats["generated"]
        nodes += info["nodes"]
        edges += info["edges"]
        if not info.get("fixpoint") and not [f for f in found if f[0].startswith(pid + ":")]:
            # bounded exploration only: a violation found on it is real (paths of the real code), absence proves nothing
            raise RuntimeError("no fix-point within maxnodes for %s: %s (and no violation on the partial graph)" % (name, info))
        for sig, toks in found:
            if not sig.startswith(pid + ":"):
                # a monitor of another property fired (it runs here only as an input of this one)
                ctx.notes.append("monitor of another property fired in %s: %s" % (name, sig))
                continue
            ctx.violation(sig, "P monitor rejects a path of the real handler's transition graph (config %s, %d steps)"
                          % (name, len(toks)), {"harness_args": args, "tokens": toks})
        ctx.log(name, info, stats, [f[0] for f in found])
        try:
            os.remove(gf)
        except OSError:
            pass
    # full-domain complement: seeded random walks (all byte values, 25 sources, NN <= 16) validated linearly by the same monitors
    for name, steps, args in (random_runs or []):
        gf = "%s/r-%s.ndjson" % (wd, name)
        out = recs.run_harness(ctx, exe, ["random", gf, str(steps)] + args + ["events=" + ",".join(evs)])
        info = json.loads(out.strip().splitlines()[-1])
        cf = "%s/cfg-%s.json" % (wd, name)
        with open(cf, "w") as f:
            json.dump(cfg_json(args), f)
        stats, found = graph.check(ctx, "ProtoGraph", "ProtoGraph.cfg", gf, env={"VF_MON": mons, "VF_CFG": cf},
                                   tag="%s-%s" % (pid, name), heap=heap, workers=2)
        try:  # a few actual steps of the walk as evidence sample
            with open(gf) as f:
                walk_sample = [json.loads(next(f))["succ"][0] for _ in range(6)]
            samples_extra.append({"random_walk": name, "first_steps": [{"in": e["in"], "ev": e["ev"]} for e in walk_sample]})
        except Exception:
            pass
        per[name] = {"random_walk_steps": steps, "seed": ctx.seed, "product_states": stats["distinct"],
                     "product_transitions": stats["generated"], "harness_args": " ".join(args)}
        states += stats["distinct"]
        trans += stats["generated"]
        for sig, toks in found:
            if sig.startswith(pid + ":"):
                ctx.violation(sig, "P monitor rejects a seeded random walk of the real handler (run %s, prefix of %d steps)"
                              % (name, len(toks)), {"harness_args": args, "tokens": toks})
        ctx.log(name, info, stats, [f[0] for f in found])
    # S (spec/Protocol.tla) bound to the same code: fidelity of StepF on extracted full-state graphs; S => P by pure TLC.
    # Both only inform (DRIFT), they never produce a violation.
    sdone = {}
    if spec_fidelity:
        from checks import proto_spec
        for name, args, sample in spec_fidelity:
            try:
                n, bad = proto_spec.fidelity(ctx, exe, args, sample=None if ctx.thorough else sample)
                proto_spec.report_drift(ctx, name, n, bad)
                sdone[name] = {"edges_checked": n, "mismatches": len(bad)}
            except Exception as e:  # a failing S run is a machinery problem of the informing part only
                ctx.notes.append("S fidelity run %s failed: %s" % (name, str(e)[:300]))
        if spec_mc:
            try:
                r = proto_spec.model_check(ctx)
                sdone["S=>P model check"] = {c: {k: v[k] for k in ("distinct", "generated", "wall_s", "violated")} for c, v in r.items()}
            except Exception as e:
                ctx.notes.append("S => P model check failed: %s" % str(e)[:300])
    first = next(iter(per))
    ctx.coverage = {"states": states, "transitions": trans, "traces_validated_against_impl": len(per),
                    "samples": [{"config": first, **per[first]}] + samples_extra, "configs": per, "graph_nodes": nodes, "graph_edges": edges,
                    "exhaustive": True, "s_model": sdone,
                    "rule": "every configuration's graph is extracted to a fix-point from the real handler; states/transitions "
                            "are those of the product (graph x monitors) explored by TLC"}
    ctx.assumptions = [
        "environment alphabet (one representative per byte class, NN bounds given in harness_args) bounds the search",
        "projection used as visited-key is complete for the monitored observables (seen-address set left out when lock count is fixed)",
        "step mode replicates the body of run(): handleSend, then handleReceive while RESULT_CONTINUE",
    ]
