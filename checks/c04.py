"""C04 - every request completes exactly once.  P = ReqMon on the real handler's graph with fault injection."""
from checks import proto_common as pc

QUICK = [
    ("faults", ["req=0:3115b5090142", "req=1:31feb50900", "submit=1", "qq=", "nn=0", "snn=0", "echofaults=0", "readerr=1", "writeerr=1",
                "buslost=1", "win=03", "longtoany=1", "lateecho=1"]),
    ("enh-faults", ["enhanced=1", "req=0:3115b5090100", "req=1:31feb50900", "submit=1", "qq=", "nn=0", "snn=0", "echofaults=0", "readerr=1",
                    "buslost=1", "win=03", "longtoany=1"]),
    ("chunk2-faults", ["chunk2=1", "req=0:3115b5090100", "submit=1", "qq=", "nn=0", "snn=0", "echofaults=0", "readerr=1",
                       "buslost=1", "win=03"]),
    ("enh-restart-werr", ["enhanced=1", "req=3:3115b5090100:2", "submit=1", "qq=", "nn=0", "snn=0", "echofaults=0", "writeerr=1", "win=03", "longtoany=1",
                          "buslost=1"]),
    ("reconnect", ["req=0:3115b5090100", "submit=1", "qq=", "nn=0", "snn=0", "echofaults=0", "readerr=1", "openfail=1", "reconnect=1", "win=03"]),
    ("restart", ["req=2:3115b5090100:2", "submit=1", "qq=", "nn=0", "snn=0", "echofaults=0", "win=03", "buslost=1", "longtoany=1"]),
]
THOROUGH = QUICK + [
    ("three-requests", ["req=0:3115b5090100", "req=1:31feb50900", "req=2:3103b50900:1", "submit=1", "qq=", "nn=0", "snn=0", "echofaults=0",
                        "readerr=1", "buslost=1", "win=03", "longtoany=1", "lateecho=1", "maxnodes=1500000"]),
    ("reconnect-openfail", ["req=0:3115b5090100", "req=1:31feb50900", "submit=1", "qq=", "nn=0", "snn=0", "echofaults=0", "readerr=1",
                            "openfail=1", "reconnect=1", "win=03", "longtoany=1"]),
]


def run(ctx):
    if getattr(ctx, "replay_path", None):
        return pc.replay(ctx, "C04", "q")
    n = 400000 if ctx.thorough else 40000
    rnd = [("rnd-plain", n, ["req=0:3115b50900", "req=1:3115b50900", "req=2:3115b50900:2", "buslost=1", "readerr=1"])]
    pc.run_configs(ctx, "C04", "q", THOROUGH if ctx.thorough else QUICK, random_runs=rnd,
                   spec_fidelity=[("S:faults", QUICK[0][1], 8)])
    liveness(ctx)
    run_mode(ctx)
    # growth: poll / scan requests of the real BusHandler on the real handler (spec/BusHandler.tla)
    from checks import c04_bushandler
    c04_bushandler.run_growth(ctx)
    # growth: the Queue between client threads and the bus thread, linearizability of recorded histories (spec/QueueLin.tla)
    from checks import grow_queue
    grow_queue.run_growth(ctx)


LIVE = ["req=0:3115b5090100", "req=1:31feb50900", "submit=1", "qq=", "nn=0", "snn=0", "echofaults=0", "readerr=1",
        "buslost=1", "win=03", "longtoany=1", "arbnone=0"]


def liveness(ctx):
    """eventual completion: TLC checks a temporal property (spec/ProtoLive.tla) on the real handler's graph"""
    import json
    from vf import recs, tlc, graph
    exe = pc.harness()
    wd = recs.workdir("C04")
    gf = wd + "/g-live.ndjson"
    live = LIVE + (["req=2:3103b50900:1"] if ctx.thorough else [])   # a third, restarting request only in the thorough tier
    out = recs.run_harness(ctx, exe, ["graph", gf] + live + ["events=rx,to,sub,subcb,ntf,del,fin,bad", "maxnodes=400000"])
    info = json.loads(out.strip().splitlines()[-1])
    if not info.get("fixpoint"):
        raise RuntimeError("liveness graph without fix-point: %s" % info)
    res = tlc.run("ProtoLive", "ProtoLive.cfg", env={"VF_GRAPH": gf}, workers=4, heap="8g", timeout=1200, tag="C04-live-%d" % ctx.seed)
    ctx.log("liveness", info, {k: res[k] for k in ("generated", "distinct", "wall_s")}, res["violated"])
    if res["violated"]:
        toks = graph.tokens_of_trace(res["trace"])
        ctx.violation("C04:request-pending-forever", "lasso in the real handler's graph on which a request stays pending although SYNs / signal loss "
                      "keep occurring and every arbitration gets a timely outcome (%d steps)" % len(toks), {"harness_args": live, "tokens": toks})
    ctx.coverage["liveness"] = {"graph_nodes": info["nodes"], "graph_edges": info["edges"], "product_states": res["distinct"],
                                "property": "([]<>progress) => (pending(r) ~> ~pending(r)) under WF(Next)", "harness_args": " ".join(live)}
    ctx.coverage["states"] += res["distinct"]
    ctx.coverage["transitions"] += res["generated"]


def run_mode(ctx):
    """real threads: the real run() thread against client threads calling sendAndWait / addRequest(wait=true); the recorded event
    order (serialised at the linearization points by one mutex) is validated linearly by ReqMon + RunMon.  Schedules are sampled."""
    import json
    from vf import recs, graph
    exe = pc.harness()
    wd = recs.workdir("C04")
    nruns, nclients, ops = (12, 4, 400) if ctx.thorough else (4, 3, 150)
    total_events = 0
    for k in range(nruns):
        gf = "%s/run-%d.ndjson" % (wd, k)
        args = ["req=0:31%02xb5090100" % (0x50 + c) for c in range(nclients)] + ["buslost=%d" % (k % 3)]
        out = recs.run_harness(ctx, exe, ["run", gf, str(nclients)] + args, env={"VF_RUN_OPS": str(ops), "VERIF_SEED": str(ctx.seed * 100 + k)})
        info = json.loads(out.strip().splitlines()[-1])
        total_events += info["events"]
        cf = "%s/cfg-run.json" % wd
        with open(cf, "w") as f:
            json.dump(dict(pc.cfg_json(args), runmode=1), f)
        stats, found = graph.check(ctx, "ProtoGraph", "ProtoGraph.cfg", gf, env={"VF_MON": "qu", "VF_CFG": cf}, tag="C04-run%d" % k,
                                   workers=2, heap="4g")
        for sig, toks in found:
            if sig.startswith("C04:"):
                evs = [json.loads(l)["succ"][0]["ev"] for l in open(gf).read().splitlines()[max(0, len(toks) - 3):len(toks)] if json.loads(l)["succ"]]
                ctx.violation(sig, "ReqMon/RunMon reject the event order of a real-thread run (%d clients, run %d, after %d event batches)"
                              % (nclients, k, len(toks)), {"harness_args": args, "mode": "run", "last_event_batches": evs})
        ctx.coverage["states"] += stats["distinct"]
        ctx.coverage["transitions"] += stats["generated"]
    ctx.coverage["run_mode"] = {"runs": nruns, "clients": nclients, "ops_per_client": ops, "events_validated": total_events}
    ctx.coverage["traces_validated_against_impl"] += nruns
    ctx.log("run mode", ctx.coverage["run_mode"])
