"""C04 - every request completes exactly once.  P = ReqMon on the real handler's graph with fault injection."""
from checks import proto_common as pc

QUICK = [
    ("faults", ["req=0:3115b5090142", "req=1:31feb50900", "submit=1", "qq=", "nn=0", "snn=0", "echofaults=0", "readerr=1", "writeerr=1",
                "buslost=1", "win=03", "longtoany=1", "lateecho=1"]),
    ("enh-faults", ["enhanced=1", "req=0:3115b5090100", "req=1:31feb50900", "submit=1", "qq=", "nn=0", "snn=0", "echofaults=0", "readerr=1",
                    "buslost=1", "win=03", "longtoany=1"]),
    ("restart", ["req=2:3115b5090100:2", "submit=1", "qq=", "nn=0", "snn=0", "echofaults=0", "win=03", "buslost=1", "longtoany=1"]),
]
THOROUGH = QUICK + [
    ("three-requests", ["req=0:3115b5090100", "req=1:31feb50900", "req=2:3103b50900:1", "submit=1", "qq=", "nn=0", "snn=0", "echofaults=0",
                        "readerr=1", "buslost=1", "win=03", "longtoany=1", "lateecho=1", "maxnodes=1500000"]),
    ("reconnect-openfail", ["req=0:3115b5090100", "req=1:31feb50900", "submit=1", "qq=", "nn=0", "snn=0", "echofaults=0", "readerr=1",
                            "openfail=1", "reconnect=1", "win=03", "longtoany=1"]),
]


def run(ctx):
    n = 400000 if ctx.thorough else 40000
    rnd = [("rnd-plain", n, ["req=0:3115b50900", "req=1:3115b50900", "req=2:3115b50900:2", "buslost=1", "readerr=1"])]
    pc.run_configs(ctx, "C04", "q", THOROUGH if ctx.thorough else QUICK, random_runs=rnd)
