"""C19 - configuration round trip.
P = spec/Csv.tla: CSV quoting and the reference line reader; abstract message definitions, the columns of their configuration
line in the default column set, the attributes a loaded definition must show.  spec/C19Gen.tla emits field lists with all their
writings and abstract definition sets with the specification's configuration text (canonical and user style);
harness/c19_csv.cpp calls FileReader::splitFields, loads the text into a real MessageMap, reads the attributes, dumps
(MessageMap::dump as --dumpconfig, Message::dump as find -f), reloads the dump, reads attributes and dumps again;
spec/C19Judge.tla judges: fields read back (up to outer blanks), attributes = definition, dump columns (read with the
specification's reader) = definition, reload accepted with the same attributes, second dump identical to the first."""
import json
import os

from vf import build, recs, tlc

FAMILIES = ["split", "defs"]


def _s(codes):
    return bytes(codes).decode("latin1")


def _raw_dumped(t):
    """text the pinned dumpString writes without quotes although it holds two adjacent double quotes"""
    if 44 in t or 34 not in t:
        return False
    p = t.index(34)
    return 0 < p < len(t) - 1 and any(t[k] == 34 and t[k + 1] == 34 for k in range(len(t) - 1))


def _def_class(D):
    texts = []
    for m in D:
        texts.append(m["comment"])
        for f in m["fields"]:
            texts += [f["unit"], f["comment"]]
    if any(_raw_dumped(t) for t in texts):
        return "unquoted-text-with-adjacent-double-quotes"
    if any(f["pk"] in (3, 4) and f["ty"] == 7 for m in D for f in m["fields"]):
        return "constant-on-bit-type-ignores-bit-length"
    return "other"


def _key_and_what(r, sig):
    if r["k"] == "split":
        k = sig[1] if isinstance(sig, list) and len(sig) > 1 and isinstance(sig[1], int) else 0
        line = _s(r["lines"][k - 1]) if 0 < k <= len(r["lines"]) else ""
        out = r["outs"][k - 1] if 0 < k <= len(r["outs"]) else None
        got = [_s(x) for x in out["row"]] if out else None
        cls = "quoted-field" if '"' in line else "plain-fields"
        return ("C19:split:" + cls, "line %r holds the fields %r but splitFields returned %r (ok=%s, rest=%s)" %
                (line, [_s(f) for f in r["fields"]], got, out and out["ok"], out and out["rest"]),
                {"line": line, "fields": [_s(f) for f in r["fields"]], "got": got,
                 "case": {"k": "split", "fields": r["fields"], "lines": [r["lines"][k - 1]] if 0 < k <= len(r["lines"]) else r["lines"]}})
    v = sig[1] if isinstance(sig, list) and len(sig) > 1 else "?"
    cls = _def_class(r["D"])
    # a specific class is named only when the symptom is the one that class produces; everything else stays "other"
    if cls == "unquoted-text-with-adjacent-double-quotes" and v not in ("reload-of-dump-rejected", "attributes-after-reload"):
        cls = "other"
    if cls == "constant-on-bit-type-ignores-bit-length" and v != "attributes-after-load":
        cls = "other"
    key = "C19:%s:%s" % ("roundtrip" if cls != "other" else v, cls)
    return (key, "%s for the definition text %r: first dump %r, second dump %r (%s)" %
            (v, _s(r["text"]), _s(r["d1"]), _s(r["d2"]), r["err"]),
            {"verdict": v, "config_text": _s(r["text"]), "dump1": _s(r["d1"]), "dump2": _s(r["d2"]), "errors": r["err"],
             "attributes_after_load": r["a1"], "case": {"k": "defs", "D": r["D"], r["v"]: r["text"]}})


def _size(r):
    return (len(r.get("text", [])) + sum(len(l) for l in r.get("lines", [])[:1]) + len(r.get("fields", []))
            + (1000 if r.get("v") == "alt" else 0))     # prefer the canonical writing as witness


def _replay(ctx, wd, cases):
    """re-judge the single case of a replay file with the same harness and judge"""
    with open(ctx.replay_path) as f:
        case = json.load(f)["replay"]["case"]
    if case["k"] == "defs":          # the harness wants both writings; replay the recorded one twice
        t = case.get("canon") or case.get("alt")
        v = "canon" if "canon" in case else "alt"
        case = {"k": "defs", "D": case["D"], "canon": t, "alt": t}
    with open(cases, "w") as f:
        f.write(json.dumps(case, separators=(",", ":")) + "\n")
    exe = build.build("c19_csv", ["c19_csv.cpp"], ["ebus", "utils"])
    recs.run_harness(ctx, exe, [cases, wd, "quick"])
    n = 0
    for fam in FAMILIES:
        rf = os.path.join(wd, fam + ".ndjson")
        rr = recs.read_ndjson(rf)
        if fam == "defs":
            rr = [r for r in rr if r["v"] == v]
            with open(rf, "w") as f:
                for r in rr:
                    f.write(json.dumps(r, separators=(",", ":")) + "\n")
        if not rr:
            continue
        res, bad = recs.judge(ctx, "C19Judge", "C19Judge.cfg", rf, workers=2, env={"VF_TIER": "quick", "VF_FAMILY": "replay"},
                              tag="C19-replay")
        n += len(rr)
        for idx, sig in bad:
            key, what, rep = _key_and_what(rr[idx - 1], sig)
            ctx.violation(key, what, rep)
    ctx.coverage = {"evaluations": n, "distinct_nontrivial": n, "rule": "replay of one recorded case", "samples": [case]}


def run(ctx):
    _run_main(ctx)
    if not ctx.replay_path:
        from checks import cfg_load
        cov = cfg_load.run_growth(ctx)   # growth: configuration loading semantics (spec/ConfigLoad.tla)
        if cov:
            ctx.coverage["config_loading"] = cov
        # growth: scan-based configuration file selection + raw traffic log (spec/ScanSelect.tla, spec/RawLog.tla); notes only
        try:
            from checks import grow_scan
            ctx.coverage["scan_selection_and_rawlog"] = grow_scan.run_growth(ctx)
        except Exception as e:   # a failing growth run is a machinery problem of the informing part only
            ctx.notes.append("scan/rawlog growth failed: %s" % str(e)[:300])


def _run_main(ctx):
    ctx.level = "exploration"
    wd = recs.workdir("C19")
    cases = os.path.join(wd, "cases.ndjson")
    if ctx.replay_path:
        return _replay(ctx, wd, cases)
    gen = tlc.run("C19Gen", "C19Gen.cfg", env={"VF_TIER": ctx.tier, "VF_OUT": cases}, workers=4, heap="8g",
                  timeout=900, tag="C19Gen")
    g = [v for v in gen["vf"] if len(v) > 1 and v[1] == "GEN"]
    if not g:
        raise tlc.TlcFailure("C19Gen wrote no cases:\n" + gen["out"][-2000:])
    ctx.log("cases generated by TLC (field lists, definition sets; families A message shapes, B field shapes, C texts, "
            "D multi-definition files, E number bases):", g[0][2:], "in %.1fs" % gen["wall_s"])
    exe = build.build("c19_csv", ["c19_csv.cpp"], ["ebus", "utils"])
    out = recs.run_harness(ctx, exe, [cases, wd, ctx.tier])
    hstat = json.loads(out.strip().splitlines()[-1])
    fam_counts, states, samples = {}, 0, []
    evals = nontrivial = 0
    for fam in FAMILIES:
        rf = os.path.join(wd, fam + ".ndjson")
        rr = recs.read_ndjson(rf)
        shards = recs.split_file(rf, 20000) if fam == "defs" and len(rr) > 20000 else [rf]
        base = 0
        total = 0
        for k, sp in enumerate(shards):
            env = {"VF_TIER": ctx.tier, "VF_FAMILY": fam if len(shards) == 1 else fam + "-shard"}
            res, bad = recs.judge(ctx, "C19Judge", "C19Judge.cfg", sp, workers=8, heap="12g", timeout=1500, env=env,
                                  tag="C19-%s-%d" % (fam, k))
            dom = [v for v in res["vf"] if len(v) > 3 and v[1] == "DOMAIN"]
            if not dom:
                raise tlc.TlcFailure("C19Judge %s: domain line missing" % fam)
            total += dom[0][3]
            states += res["distinct"]
            for idx, sig in sorted(bad, key=lambda b: (_size(rr[base + b[0] - 1]), b[0])):   # smallest witness first
                r = rr[base + idx - 1]
                key, what, rep = _key_and_what(r, sig)
                ctx.violation(key, what, rep)
            ctx.log("%s[%d]: %d records judged in %.1fs, %d rejected" % (fam, k, dom[0][3], res["wall_s"], len(bad)))
            base += dom[0][3]
        if total != len(rr):
            raise tlc.TlcFailure("C19Judge %s: judged %d of %d records" % (fam, total, len(rr)))
        if len(shards) > 1:
            # completeness of a sharded family: the case file was written by TLC from DefSets; every case must have come back
            want = sum(1 for l in open(cases) if l.startswith('{"k":"defs"')) * 2
            if want != len(rr):
                raise tlc.TlcFailure("C19 defs: %d records for %d cases x 2 writings" % (len(rr), want // 2))
        if fam == "split":
            n = sum(len(r["lines"]) for r in rr)
            nt = sum(1 for r in rr for l in r["lines"] if 34 in l or 44 in l)
            r = next(x for x in rr if len(x["fields"]) == 2 and 34 in x["fields"][0] and 44 in x["fields"][1])
            samples.append({"line": _s(r["lines"][0]), "fields": [_s(f) for f in r["fields"]],
                            "splitFields": [_s(f) for f in r["outs"][0]["row"]]})
        else:
            n = 2 * len(rr) + sum(2 + len(r["f1"]) + len(r["f2"]) for r in rr)   # loads + dumps
            # non-trivial: operations on definitions that have a field, a chained id, or a text that needs quoting
            nt = sum(4 + len(r["f1"]) + len(r["f2"]) for r in rr
                     if any(m["fields"] or len(m["chain"]) > 1 for m in r["D"]) or 34 in r["text"][85:])
            r = rr[len(rr) // 2]
            samples.append({"config_text": _s(r["text"]), "dump_after_load": _s(r["d1"]), "dump_after_reload": _s(r["d2"])})
            r = next(x for x in rr if len(x["D"]) > 2)
            samples.append({"config_text": _s(r["text"]), "dump_after_load": _s(r["d1"])})
        evals += n
        nontrivial += nt
        fam_counts[fam] = {"records": len(rr), "evaluations": n}
    if hstat["split_calls"] + hstat["loads"] + hstat["dumps"] != evals:
        raise RuntimeError("harness counted %s, records hold %d evaluations" % (hstat, evals))
    ctx.coverage = {
        "evaluations": evals, "distinct_nontrivial": nontrivial,
        "rule": "evaluations = splitFields calls + readFromStream loads + dump calls; every one has a distinct input by "
                "construction (distinct line; distinct (definition set, writing, generation)); non-trivial = lines that "
                "contain a separator or a quote; loads/dumps of definition sets that have a field, a chained id or a quoted text",
        "samples": samples, "exhaustive": True, "families": fam_counts, "tlc_states": states,
        "definition_sets": dict(zip(["A_message_shapes", "B_field_shapes", "C_texts", "D_files", "E_number_bases"], g[0][4:9])),
        "tlc_lemmas": ["SplitLine(Join(QuoteForms(fields))) = fields", "SplitLine(DumpLine(def)) = Cols(def)",
                       "every enumerated definition is valid"],
    }
    ctx.assumptions = [
        "TLC evaluates the TLA+ definitions correctly; the harness logs the attributes the objects hold",
        "outer blanks of a CSV field are insignificant (fields are compared after trimming); a line of only empty fields is "
        "a blank line; units and comments of definitions are free of outer blanks",
        "definitions use 12 representative data types (+ STR:10, HEX:16, IGN:12 for the number-base family), value names over letters and inner blanks, identifiers over letters; "
        "no access level, range, condition, template or default line",
        "dump lines are read with the specification's reader and compared by column (hex columns case-insensitively), "
        "not byte by byte with the specification's canonical line",
    ]
