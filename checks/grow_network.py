"""Growth check: the client-connection layer (src/ebusd/network.cpp, request.cpp, the request loop of mainloop.cpp,
lib/utils/tcpsocket + notify) - no listed property of its own; findings are notes ("GROWTH network: ..."), never violations.

P = spec/NetHandoff.tla (first part): the command port / HTTP port as documented (help texts, src/tools/ebusctl.cpp,
contrib/scripts): one response block per complete line, in order, to the connection that sent it, `quit` ends only that
connection, update lines only while listening, junk does not wedge, HTTP = one response then close; shared value store, so
responses of concurrent clients must be explainable by one execution order (linearizability; linearization point = execution
by the main loop, observable for bus reads through the fake transport).
S = spec/NetHandoff.tla (second part): code-shaped model of Connection::run / RequestImpl::add,waitResponse,setResult /
Queue<Request*> / MainLoop::run / Network::~Network.
(0) spec/MC_NetHandoff: TLC explores all interleavings of 2 connections x 2 lines: S => P, no dangling RequestImpl, eventual
    response under fairness; seeded errors in S (missing signal, stale result flag, result set on the wrong request, connection
    leaving while its request is executed) must each be rejected; observation configs document what TLC finds in the model of
    the pinned code when the environment is widened (two lines in one chunk, TCP merging pipelined lines, spurious wake-up of
    pthread_cond_wait, SIGTERM while a client sends).
(1) harness/net_handoff.cpp runs the real Network + Connection threads + MainLoop in-process (fake transport, virtual time)
    with 2-3 real TCP clients per history on 127.0.0.1 running seeded programs; every invocation / response / main-loop
    execution / update line / eof gets a number from one atomic counter.
(2) spec/NetHandoffTrace: TLC validates every history against P (internal linearization steps, canonical accepting state); a
    second run on the rejected ones names the event at which every explanation gets stuck.
`run_growth(ctx)` returns a coverage dict and appends notes to ctx.drift; `run(ctx)` = stand-alone entry (bin/check grow_network)."""
import concurrent.futures as cf
import json
import os
import time

from vf import build, recs, tlc

GROUPS = ["ebusd", "ebus", "utils", "knx"]

# families of client programs: (name, quick count, thorough count); the first group is expected to be accepted on a tree that
# follows the documentation, the second group exercises input for which the pinned tree is known to disagree with it
CLEAN = [("plain", 130, 1300), ("junk", 30, 300), ("abandon", 40, 400), ("listen", 40, 400), ("http", 30, 300), ("halfclose", 30, 300),
         ("listenwait", 2, 12)]
RISKY = [("multi", 16, 160), ("pipe", 16, 160), ("empty", 12, 120), ("nul", 8, 80)]

MC_HOLD = {"quick": ["small"], "thorough": ["small", "pipe", "full", "close"]}
MC_BUGS = [("bug_nosignal", "pthread_cond_signal left out of setResult"), ("bug_stale", "waitResponse does not reset m_resultSet"),
           ("bug_wrongreq", "setResult on the request at the head of the queue instead of the executed one"),
           ("bug_abandon", "connection thread leaves waitResponse when its client is gone")]
MC_OBS = [("obs_multi", "two lines written in one chunk"), ("obs_tcpmerge", "pipelined lines merged by TCP into one recv()"),
          ("obs_spurious", "pthread_cond_wait returns without signal (waitResponse uses `if`, not `while`)"),
          ("obs_down", "SIGTERM while a client sends: a request pushed after Network::~Network drained the queue")]


def _mc(name, workers):
    """returns (name, violated list, states, transitions, wall)"""
    t0 = time.time()
    try:
        r = tlc.run("MC_NetHandoff", "MC_NetHandoff_%s.cfg" % name, workers=workers, timeout=1500, heap="6g",
                    tag="GROWNET-mc-%s-%d" % (name, os.getpid()))
        viol = list(r["violated"])
        return name, viol, r["distinct"], r["generated"], round(time.time() - t0, 1)
    except tlc.TlcFailure as e:
        # this TLC prints "Temporal property X was violated" (exit status 13), which lib/vf/tlc.py does not list
        if "rc=13" in str(e):
            return name, ["<temporal>"], 0, 0, round(time.time() - t0, 1)
        raise


def _text(ev):
    c, ty, x, y, z = ev
    if ty == "inv":
        return "c%d> %s%s" % (c, x, (" %d" % y) if y else "")
    if ty == "resp":
        extra = ""
        if x in ("val", "find", "http"):
            extra = " %s %s" % (y, z)
        elif x in ("err", "other"):
            extra = " %r" % bytes(z).decode("latin1")[:60]
        return "c%d< %s%s" % (c, x, extra)
    if ty == "exec":
        return "main: bus read %d" % y
    if ty == "push":
        return "c%d< update %d %s" % (c, y, z)
    return "c%d %s%s" % (c, ty, (" " + x) if x else "")


def _validate(ctx, hf, tag, workers):
    hists = recs.read_ndjson(hf)
    if not hists:
        return hists, set(), {}, None
    res = tlc.run("NetHandoffTrace", "NetHandoffTrace.cfg", env={"VF_HISTS": hf, "VF_DIAG": "0"}, workers=workers, timeout=900,
                  heap="6g", tag="GROWNET-tv-%s-%d" % (tag, os.getpid()))
    if res["violated"]:
        raise tlc.TlcFailure("NetHandoffTrace: unexpected invariant violation:\n" + res["out"][-2000:])
    acc = {v[2] for v in res["vf"] if v[1] == "ACC"}
    rej = [k for k in range(1, len(hists) + 1) if k not in acc]
    stuck = {}
    if rej:
        rf = hf + ".rej"
        with open(rf, "w") as f:
            for k in rej:
                f.write(json.dumps(hists[k - 1], separators=(",", ":")) + "\n")
        dres = tlc.run("NetHandoffTrace", "NetHandoffTrace.cfg", env={"VF_HISTS": rf, "VF_DIAG": "1"}, workers=workers, timeout=900,
                       heap="6g", tag="GROWNET-tvd-%s-%d" % (tag, os.getpid()))
        if {v[2] for v in dres["vf"] if v[1] == "ACC"}:
            raise tlc.TlcFailure("NetHandoffTrace: a rejected history was accepted by the diagnosis run")
        for v in dres["vf"]:
            if v[1] == "STUCK":
                k = rej[v[2] - 1]
                if k not in stuck or v[3] > stuck[k][0]:
                    stuck[k] = (v[3], v[4], v[5], v[6] if len(v) > 6 else 0)
    return hists, acc, stuck, res


def _class_of(h, st):
    """(class key, text) of a rejected history: the event at which every explanation got stuck + what P expected there"""
    evs = h["ev"]
    if st is None:
        return "%s:undiagnosed" % h["fam"], "no explanation (undiagnosed)"
    pos, hk, ht, debt = st
    if pos > len(evs):
        return "%s:line-never-answered" % h["fam"], "a complete line of an open connection was never answered (or an update line owed to a listening connection never came)"
    e = evs[pos - 1]
    if e[1] == "hang":
        return "%s:hang-%s" % (h["fam"], e[2]), "a client waited for ever (%s)" % e[2]
    head = hk if not ht else "%s %d" % (hk, ht)
    if debt and e[1] in ("resp", "eof"):
        return ("%s:update-line-owed-to-a-listening-connection-missing" % h["fam"],
                "%s arrives, but a value read while the connection was listening (clock moved on, a further line sent and "
                "answered since) was never announced to it" % _text(e))
    if e[1] == "resp":
        shape = "response-not-for-the-oldest-outstanding-line" if hk != "-" else "response-without-outstanding-line"
    elif e[1] == "exec":
        shape = "bus-read-without-a-request-that-reads"
    else:
        shape = "unexpected-" + e[1]
    return "%s:%s" % (h["fam"], shape), "%s, but the oldest outstanding line of that connection is `%s`" % (_text(e), head)


def run_growth(ctx):
    t00 = time.time()
    wt = os.environ.get("VERIF_WORKTAG", "")
    wd = recs.workdir("GROWNET" + wt)
    tier = "thorough" if ctx.thorough else "quick"
    col = 2 if ctx.thorough else 1
    exe = build.build("net_handoff", ["net_handoff.cpp"], GROUPS, libs=["-lmosquitto"])
    notes = []

    # ---- (0) design level, in the background while the harness runs ------------------------------------------------------
    pool = cf.ThreadPoolExecutor(max_workers=6 if ctx.thorough else 5)
    jobs = {}
    for name in MC_HOLD[tier]:
        jobs[name] = pool.submit(_mc, name, 4 if name in ("full", "close", "pipe") else 2)
    for name, _ in MC_BUGS + MC_OBS:
        jobs[name] = pool.submit(_mc, name, 2)

    # ---- (1) recorded histories of the real code ---------------------------------------------------------------------------
    t0 = time.time()
    parts = []   # (tag, file, info)
    crashed = None
    for tag, fams in (("clean", CLEAN), ("risky", RISKY)):
        hf = "%s/hist-%s.ndjson" % (wd, tag)
        spec = ",".join("%s*%d" % (f[0], f[col]) for f in fams)
        try:
            out = recs.run_harness(ctx, exe, ["run", hf, sum(f[col] for f in fams), spec], env={"VF_WORKDIR": wd}, timeout=900)
            info = json.loads(out.strip().splitlines()[-1])
        except (RuntimeError, ValueError, IndexError) as e:
            crashed = "%s programs: %s" % (tag, str(e)[-500:])
            info = {"histories": 0, "events": 0, "hangs": 0, "aborted": 1}
        parts.append((tag, hf, info))
    t_h = time.time() - t0
    down = None
    if ctx.thorough and not crashed:
        # shutdown while clients are active, order of main.cpp: does Network::~Network come back?  (TLC: obs_down)
        try:
            out = recs.run_harness(ctx, exe, ["downrace", 30], env={"VF_WORKDIR": wd}, timeout=600)
            down = json.loads(out.strip().splitlines()[-1])
        except (RuntimeError, ValueError, IndexError) as e:
            notes.append("the shutdown-race run of the harness failed: " + str(e)[-300:])
        if down and down.get("shutdown_hang"):
            notes.append("observed on the real code: in round %d of the shutdown race (24 clients with think times, main.cpp's order "
                         "MainLoop::shutdown+join, delete Network) Network::~Network never returned - a connection pushed its request "
                         "after the destructor had drained the queue and waits for ever in RequestImpl::waitResponse (the hang TLC "
                         "finds in MC_NetHandoff_obs_down.cfg)" % down["rounds"])

    # ---- (2) trace validation ----------------------------------------------------------------------------------------------
    t0 = time.time()
    total = {"histories": 0, "events": 0, "accepted": 0, "rejected": 0, "hangs": 0, "states": 0, "transitions": 0}
    classes = {}
    by_family = {}
    sample = None
    for tag, hf, info in parts:
        if not os.path.exists(hf):
            continue
        hists, acc, stuck, res = _validate(ctx, hf, tag, 8 if ctx.thorough else 6)
        total["histories"] += len(hists)
        total["events"] += sum(len(h["ev"]) for h in hists)
        total["accepted"] += len(acc)
        total["hangs"] += info.get("hangs", 0)
        if res:
            total["states"] += res["distinct"]
            total["transitions"] += res["generated"]
        for k, h in enumerate(hists, 1):
            fam = by_family.setdefault(h["fam"], {"histories": 0, "rejected": 0})
            fam["histories"] += 1
            if k in acc:
                if sample is None and h["fam"] == "plain" and len(h["ev"]) > 20:
                    sample = {"family": h["fam"], "programs": h["prog"], "events": [_text(e) for e in h["ev"]]}
                continue
            fam["rejected"] += 1
            total["rejected"] += 1
            key, text = _class_of(h, stuck.get(k))
            c = classes.setdefault(key, {"count": 0, "expected_family": tag == "risky", "witness": None, "size": 0})
            c["count"] += 1
            size = len(h["ev"])
            if c["witness"] is None or size < c["size"]:
                c["size"] = size
                c["witness"] = {"why": text, "programs": h["prog"], "events": [_text(e) for e in h["ev"]][:60]}
        if info.get("aborted"):
            notes.append("the harness stopped after %d %s histories because a client never got an answer (threads of the daemon "
                         "may be stuck)" % (info.get("histories", 0), tag))
    t_v = time.time() - t0
    if crashed:
        ctx.drift.append("GROWTH network: the in-process daemon / harness died while running recorded client programs: " + crashed)

    # ---- (0) results ------------------------------------------------------------------------------------------------------------
    mc = {}
    for name, fut in jobs.items():
        mc[name] = fut.result()
    pool.shutdown()
    mcsum = {"states": 0, "transitions": 0, "configs": {}}
    for name in MC_HOLD[tier]:
        _, viol, st, tr, wall = mc[name]
        if viol:
            raise tlc.TlcFailure("NetHandoff: S => P does not hold in config %s (model or oracle wrong): %s" % (name, viol))
        mcsum["states"] += st
        mcsum["transitions"] += tr
        mcsum["configs"][name] = {"states": st, "transitions": tr, "wall_s": wall, "holds": True}
    for name, what in MC_BUGS:
        _, viol, st, tr, wall = mc[name]
        if not viol:
            raise tlc.TlcFailure("NetHandoff: the seeded error `%s` in S is not rejected (vacuous P / invariants)" % what)
        mcsum["configs"][name] = {"seeded_error": what, "rejected_by": viol, "wall_s": wall}
    for name, what in MC_OBS:
        _, viol, st, tr, wall = mc[name]
        mcsum["configs"][name] = {"environment": what, "violated": viol, "wall_s": wall}
        if viol:
            ctx.drift.append("GROWTH network: design level (TLC on the code-shaped model, spec/MC_NetHandoff_%s.cfg): with `%s` the "
                             "model of the pinned code violates %s" % (name, what, ", ".join(viol)))
        else:
            notes.append("the model no longer shows a problem for `%s` (config %s)" % (what, name))

    for key, c in sorted(classes.items()):
        w = c["witness"]
        ctx.drift.append("GROWTH network: %d recorded histories contradict the documented protocol [%s]%s: %s ; programs %s ; events %s"
                         % (c["count"], key, "" if c["expected_family"] else " (in a family that is accepted on the pinned tree)",
                            w["why"], json.dumps(w["programs"])[:500], " | ".join(w["events"])[:900]))
    for n in notes:
        ctx.drift.append("GROWTH network: " + n)
    ctx.log("network: MC %s; %d histories (%d events, harness %.1fs) validated in %.1fs: %d accepted, %d rejected in %d classes, %d hangs"
            % ({k: (v.get("holds") or v.get("rejected_by") or v.get("violated")) for k, v in mcsum["configs"].items()},
               total["histories"], total["events"], t_h, t_v, total["accepted"], total["rejected"], len(classes), total["hangs"]))
    return {
        "states": mcsum["states"] + total["states"], "transitions": mcsum["transitions"] + total["transitions"],
        "traces_validated_against_impl": total["histories"], "events": total["events"],
        "accepted": total["accepted"], "rejected": total["rejected"], "hangs": total["hangs"], "crashed": bool(crashed),
        "by_family": by_family,
        "doc_vs_code_classes": {k: {"count": v["count"], "family_expected_to_disagree": v["expected_family"], "witness": v["witness"]}
                                for k, v in classes.items()},
        "mc": mcsum, "sample": sample, "shutdown_race": down,
        "wall_s": round(time.time() - t00, 1), "harness_s": round(t_h, 1), "validation_s": round(t_v, 1),
    }


def run(ctx):
    """stand-alone entry (bin/check grow_network): same work, the coverage dict becomes the evidence"""
    ctx.level = "model_checking"
    cov = run_growth(ctx)
    cov["samples"] = [cov.pop("sample", None)]
    ctx.coverage = cov
    ctx.assumptions = ["growth check: no listed property; disagreements are drift notes, nothing here is a violation",
                       "schedules are sampled (real threads, seeded programs); the verdict per history is exhaustive over all "
                       "linearization orders",
                       "response blocks are classified syntactically by the harness; values name their message"]
