"""C15 - answer mode.  P = AnswerMon (+ TxMon for 'stays passive otherwise') on the real handler's graph."""
from checks import proto_common as pc

QUICK = [
    ("ans-slave", ["answer=1", "submit=0", "qq=03", "zz=36,15", "nn=2", "snn=0", "data=42,00", "pb=b5", "sb=09",
                   "ans=aa:36:b509:42:0142", "ans=aa:36:b509:-:00"]),
    # source restrictions: all five priority classes among the sources (master numbers below and above 16)
    ("ans-src", ["answer=1", "submit=0", "qq=03,07,37,10", "zz=36", "nn=1", "snn=0", "data=42", "pb=b5", "sb=09",
                 "ans=07:36:b509:42:0142", "ans=aa:36:b509:-:00", "longto=0"]),
    # telegrams with more data bytes than any registered ID (NN up to 6): longest prefix whatever the data length
    ("ans-nn6", ["answer=1", "submit=0", "qq=03", "zz=36", "nn=6", "snn=0", "data=42", "pb=b5", "sb=09",
                 "ans=aa:36:b509:42:0142", "ans=aa:36:b509:4242:0143", "longto=0", "echofaults=0"]),
    # two MM answers with nested IDs and different total lengths: the longest prefix that ALSO fits the length rule
    ("ans-master-nested", ["answer=1", "submit=0", "qq=03", "zz=31", "nn=5", "snn=0", "data=42,00", "pb=b5", "sb=09",
                           "ans=aa:31:b509:42:020000", "ans=aa:31:b509:-:050000000000", "longto=0", "echofaults=0"]),
    # answer as master (MM): own master address, length rule
    ("ans-master", ["answer=1", "submit=0", "qq=03,1f", "zz=31,36", "nn=2", "snn=0", "data=42,00", "pb=b5", "sb=09",
                    "ans=aa:31:b509:42:0100", "ans=aa:36:b509:4242:0155", "longto=0"]),
    # answers registered for a master address that is NOT ebusd's own one (and for a foreign slave): ACK only for the master destination
    ("ans-foreign-master", ["answer=1", "submit=0", "qq=03", "zz=10,15", "nn=2", "snn=0", "data=42,00", "pb=b5", "sb=09",
                            "ans=aa:10:b509:42:0100", "ans=aa:15:b509:42:0142", "longto=0", "echofaults=0"]),
    # answer data that needs escaping (a9 -> a9 00, aa -> a9 01), CRC over the escaped sequence, NAK + single repetition
    ("ans-escaped", ["answer=1", "submit=0", "qq=03", "zz=36", "nn=0", "snn=0", "pb=b5", "sb=09", "ans=aa:36:b509:-:02a9aa", "longto=0"]),
    # the same through the enhanced adapter (every answer byte is a SEND request, echo comes back as RECEIVED frame)
    ("enh-ans", ["enhanced=1", "answer=1", "submit=0", "qq=03", "zz=36,31", "nn=1", "snn=0", "data=42", "pb=b5", "sb=09",
                 "ans=aa:36:b509:42:0142", "ans=aa:31:b509:-:0100", "longto=0"]),
]
THOROUGH = QUICK + [
    ("ans-long", ["answer=1", "submit=0", "qq=03", "zz=36", "nn=6", "snn=0", "data=42,00", "pb=b5", "sb=09",
                  "ans=aa:36:b509:42:0142", "ans=aa:36:b509:4200:0143", "ans=aa:36:b509:42004200:0144", "longto=0"]),
]


def run(ctx):
    if getattr(ctx, "replay_path", None):
        return pc.replay(ctx, "C15", "at")
    pc.run_configs(ctx, "C15", "at", THOROUGH if ctx.thorough else QUICK,
                   spec_fidelity=[("S:ans-slave", QUICK[0][1], 2)])
