"""C15 - answer mode.  P = AnswerMon (+ TxMon for 'stays passive otherwise') on the real handler's graph."""
from checks import proto_common as pc

QUICK = [
    ("ans-slave", ["answer=1", "submit=0", "qq=03", "zz=36,15", "nn=2", "snn=0", "data=42,00", "pb=b5", "sb=09",
                   "ans=aa:36:b509:42:0142", "ans=aa:36:b509:-:00"]),
]
THOROUGH = QUICK


def run(ctx):
    pc.run_configs(ctx, "C15", "at", THOROUGH if ctx.thorough else QUICK)
